"""Replay support: look for a concrete failing input by running the *extracted real function text*
(rules R1/R3 only, compiled with plain rustc) over a small enumerated domain.  Used (a) after a proof
obligation failed, to attach a failing input to the report, and (b) when the proof could not be
attempted at all (lost anchor, unsupported construct): only a concrete failing input found here turns
that undecided state into a violation.  Never used to declare that a property holds."""
import json
import os
import re
import subprocess
import gen

_built = {}


def _build(name, unit_dir, scratch, auto_map):
    key = (name, scratch)
    if key in _built:
        return _built[key]
    exe = None
    w = os.path.join(unit_dir, 'witness.rs')
    if os.path.exists(w):
        auto = {k: list(v) for k, v in (auto_map or {}).items()}
        for rnd in range(4):
            try:
                g = gen.generate(unit_dir, template='witness.rs', plain=True, auto_stubs=auto)
                d = os.path.join(scratch, name)
                os.makedirs(d, exist_ok=True)
                src = os.path.join(d, name + '__witness.rs')
                out = os.path.join(d, name + '__witness')
                open(src, 'w').write(g.text)
                p = subprocess.run(['rustc', '--edition', '2021', '-O', '-C', 'overflow-checks=on', '-A', 'warnings', '--error-format=json', '-o', out, src],
                                   capture_output=True, text=True, timeout=300)
                if p.returncode == 0:
                    exe = out
                    break
                diags = []
                for line in p.stderr.split('\n'):
                    if line.startswith('{'):
                        try:
                            diags.append(json.loads(line))
                        except Exception:
                            pass
                added = False
                for ref, st in gen.unresolved_callees(g, diags):
                    lst = auto.setdefault(ref, [])
                    if not any(x['qual'] == st['qual'] and x['kind'] == st['kind'] for x in lst):
                        lst.append(st)
                        added = True
                if not added:
                    break
            except Exception:
                break
    _built[key] = exe
    return exe


_memo = {}


def _run(exe, label, fn, strict=False):
    # programs that check every clause whatever the label asked for are run once per build
    insens = False
    try:
        insens = '// vx: label-insensitive' in open(exe + '.rs').read()
    except Exception:
        pass
    if insens:
        if exe not in _memo:
            _memo[exe] = _run1(exe, label, fn, strict)
        return _memo[exe]
    return _run1(exe, label, fn, strict)


def _run1(exe, label, fn, strict=False):
    try:
        r = subprocess.run([exe, label, fn or ''], capture_output=True, text=True, timeout=300)
    except subprocess.TimeoutExpired:
        if strict:
            raise
        return None
    for line in r.stdout.split('\n'):
        if line.startswith('WITNESS '):
            try:
                wit = json.loads(line[len('WITNESS '):])
            except Exception:
                wit = dict(raw=line[len('WITNESS '):])
            wit['replayed_on'] = 'extracted real function text (rules R1/R3 only) compiled with rustc'
            return wit
    return None


def find(prop, u, f, nm):
    unit_dir = os.path.join(gen.VERIF, 'units', u.name)
    exe = _build(u.name, unit_dir, os.path.dirname(os.path.dirname(u.gen_path)), getattr(u, 'auto_map', None))
    if not exe:
        return None
    label = f.labels[0] if f.labels else re.sub(r'[^A-Za-z0-9_.]+', '_', f.message)
    return _run(exe, re.sub(r'@.*$', '', label), f.fn)


def sweep(u, unit_dir, scratch):
    """All labelled clauses of the unit, each tried once; returns [{fn, label, witness}]."""
    exe = _build(u.name, unit_dir, scratch, getattr(u, 'auto_map', None))
    if not exe:
        return []
    text = open(os.path.join(unit_dir, 'unit.rs')).read()
    found = []
    cur_fn = None
    seen = set()
    seen_w = set()
    order = []
    for line in text.split('\n'):
        s = line.strip()
        if s.startswith('//@@ fn '):
            cur_fn = s.split()[3]
        for lab in gen.LABEL_RE.findall(line):
            if cur_fn is None or (cur_fn, lab) in seen:
                continue
            seen.add((cur_fn, lab))
            order.append((cur_fn, lab))
            w = _run(exe, lab, cur_fn)
            if w:
                key = json.dumps(w, sort_keys=True)
                if key in seen_w:
                    continue        # the same failing input already reported under another clause
                seen_w.add(key)
                found.append(dict(fn=cur_fn, label=lab, witness=w))
    # a replay program that ignores the clause name reports the function it caught: file the input under that function's first clause
    for f in found:
        wf = f['witness'].get('function') if isinstance(f['witness'], dict) else None
        if not wf and isinstance(f['witness'], dict) and 'raw' in f['witness']:
            m = re.search(r'"function": "([^"]+)"', f['witness']['raw'])
            wf = m.group(1) if m else None
        if wf and wf != f['fn'] and wf.split('::')[-1] != f['fn'].split('::')[-1]:
            cand = [(fn, lab) for (fn, lab) in order if fn == wf or fn.split('::')[-1] == wf.split('::')[-1]]
            if cand and not any(g is not f and g['fn'] == cand[0][0] and g['label'] == cand[0][1] for g in found):
                f['fn'], f['label'] = cand[0]
    return found


def built(u, unit_dir, scratch):
    return _build(u.name, unit_dir, scratch, getattr(u, 'auto_map', None)) is not None


def bounded(u, unit_dir, scratch, labels):
    """Run the unit's enumerator for clauses registered as bounded stand-ins (label = fn-prefix.clause)."""
    exe = _build(u.name, unit_dir, scratch, getattr(u, 'auto_map', None))
    rows = []
    for lab in labels:
        if not exe:
            rows.append(dict(label=lab, fn='', result='error', why='replay program did not build'))
            continue
        try:
            w = _run(exe, lab, lab.split('.')[0], strict=True)
        except subprocess.TimeoutExpired:
            rows.append(dict(label=lab, fn=lab.split('.')[0], result='error', why='replay program timed out'))
            continue
        rows.append(dict(label=lab, fn=lab.split('.')[0], result='witness' if w else 'ok', witness=w))
    return rows
