"""Replay support: after a proof obligation failed, look for a concrete failing input by
running the *extracted real function text* (rules R1/R3 only, compiled with plain rustc)
over a small enumerated domain.  Never used to decide a property."""
import json
import os
import subprocess
import gen


def find(prop, u, f, nm):
    unit_dir = os.path.join(gen.VERIF, 'units', u.name)
    w = os.path.join(unit_dir, 'witness.rs')
    if not os.path.exists(w):
        return None
    g = gen.generate(unit_dir, template='witness.rs', plain=True)
    d = os.path.dirname(u.gen_path)
    src = os.path.join(d, u.name + '__witness.rs')
    exe = os.path.join(d, u.name + '__witness')
    open(src, 'w').write(g.text)
    p = subprocess.run(['rustc', '--edition', '2021', '-O', '-A', 'warnings', '-o', exe, src],
                       capture_output=True, text=True, timeout=300)
    if p.returncode != 0:
        return None
    label = f.labels[0] if f.labels else ''
    r = subprocess.run([exe, label, f.fn or ''], capture_output=True, text=True, timeout=300)
    for line in r.stdout.split('\n'):
        if line.startswith('WITNESS '):
            try:
                wit = json.loads(line[len('WITNESS '):])
            except Exception:
                wit = dict(raw=line[len('WITNESS '):])
            wit['replayed_on'] = 'extracted real function text (rules R1/R3 only) compiled with rustc'
            return wit
    return None
