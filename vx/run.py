#!/usr/bin/env python3
"""./check <Cxx> [--tier quick|thorough] [--replay <file>] [--unit <name>] [--keep] [--rebaseline]

Decides a property by re-extracting the functions it depends on from /repo's working tree,
splicing the contracts of the property's units and running Verus on each generated file.
Exit 0: every obligation discharged (known findings reported as KNOWN-FINDING lines).
Exit 1: an obligation that is discharged on the pinned tree fails -> VIOLATION line.
Exit 2: undecided (tool limit, lost anchor, rlimit, vacuity probe, front-end error).
"""
import argparse
import concurrent.futures as cf
import glob
import hashlib
import json
import os
import re
import shutil
import subprocess
import sys
import tempfile
import time

HERE = os.path.dirname(os.path.abspath(__file__))
sys.path.insert(0, HERE)
import gen  # noqa: E402
from rustsrc import ExtractError  # noqa: E402

VERIF = gen.VERIF
UNITS = os.path.join(VERIF, 'units')
BASELINE = os.path.join(VERIF, 'baseline_obligations.json')
KNOWN = os.path.join(VERIF, 'known_findings.txt')
VERUS = os.environ.get('VERUS', 'verus')


# ------------------------------------------------------------------------------------ util
def units_for(prop):
    res = []
    for d in sorted(glob.glob(os.path.join(UNITS, '*'))):
        t = os.path.join(d, 'unit.rs')
        if not os.path.exists(t):
            continue
        with open(t) as f:
            for line in f:
                if line.startswith('//@@ unit '):
                    o = gen.parse_opts(line.split()[3:])
                    props = o.get('properties', '').split(',')
                    if prop in props or prop == 'ALL':
                        res.append(d)
                    break
    return res


def load_known():
    known, fixed = [], []
    if os.path.exists(KNOWN):
        for line in open(KNOWN):
            s = line.strip()
            if s.startswith('known:'):
                d = dict(re.findall(r'(\w+)=("[^"]*"|\S+)', s))
                d = {k: v.strip('"') for k, v in d.items()}
                d['text'] = s[len('known:'):].strip()
                known.append(d)
            elif s.startswith('fixed:'):
                fixed.append(s)
    return known, fixed


def load_baseline():
    if os.path.exists(BASELINE):
        return json.load(open(BASELINE))
    return {}


def slug(s):
    return re.sub(r'[^A-Za-z0-9_.-]+', '_', s).strip('_')[:120]


# ------------------------------------------------------------------------------------ verus
def run_verus(path, rlimit, seed=None, threads=4, timeout=None, extra=()):
    timeout = timeout or (240 if rlimit <= 40 else 900)      # generous: a loaded machine must not turn a proof into UNDECIDED
    cmd = [VERUS, os.path.basename(path), '--output-json', '--time', '--multiple-errors', '6',
           '--triggers-mode', 'silent', '--rlimit', str(rlimit), '--num-threads', str(threads),
           '--error-format=json']
    if seed is not None:
        cmd += ['--smt-option', 'smt.random_seed=%d' % seed, '--smt-option', 'sat.random_seed=%d' % seed]
    cmd += list(extra)
    t0 = time.time()
    try:
        p = subprocess.run(cmd, cwd=os.path.dirname(path), capture_output=True, text=True, timeout=timeout)
        out, err, rc = p.stdout, p.stderr, p.returncode
    except subprocess.TimeoutExpired as e:
        out = e.stdout.decode() if isinstance(e.stdout, bytes) else (e.stdout or '')
        err = (e.stderr.decode() if isinstance(e.stderr, bytes) else (e.stderr or '')) + '\nTIMEOUT'
        rc = -9
    wall = time.time() - t0
    js = None
    try:
        js = json.loads(out)
    except Exception:
        # sometimes diagnostics precede the json
        k = out.find('{\n')
        if k >= 0:
            try:
                js = json.loads(out[k:])
            except Exception:
                js = None
    diags = []
    for line in err.split('\n'):
        line = line.strip()
        if line.startswith('{') and '"$message_type"' in line:
            try:
                d = json.loads(line)
            except Exception:
                continue
            if d.get('$message_type') == 'diagnostic':
                diags.append(d)
    return dict(cmd=' '.join(cmd), rc=rc, json=js, diags=diags, stderr=err, wall=wall)


def fn_breakdown(js):
    res = {}
    if not js:
        return res
    try:
        for mod in js['times-ms']['smt']['smt-run-module-times']:
            for f in mod.get('function-breakdown', []):
                name = f['function']
                # several entries per fn are possible (recommends re-checks); AND the success
                prev = res.get(name)
                ent = dict(success=f['success'], micros=f.get('time-micros', 0), rlimit=f.get('rlimit', 0))
                if prev:
                    ent['success'] = prev['success'] and ent['success']
                    ent['micros'] += prev['micros']
                    ent['rlimit'] += prev['rlimit']
                res[name] = ent
    except (KeyError, TypeError):
        pass
    return res


class Failure:
    def __init__(self):
        self.fn = None          # extracted fn qual or None
        self.labels = []
        self.message = ''
        self.site = ''
        self.rendered = ''
        self.kind = 'verification'   # verification | rlimit | frontend

    def name(self, unit):
        lab = self.labels[0] if self.labels else slug(self.message) + ('@' + slug(self.site)[:60] if self.site else '')
        return '%s:%s/%s' % (unit, self.fn or '<template>', lab)


def classify(g, res):
    """Map diagnostics to Failure objects."""
    labels = gen.labels_by_line(g.text)
    lines = g.text.split('\n')
    fails = []
    for d in res['diags']:
        if d.get('level') != 'error':
            continue
        msg = d.get('message', '')
        if msg.startswith('aborting due to') or msg.startswith('could not compile'):
            continue
        f = Failure()
        f.message = msg
        f.rendered = d.get('rendered', '')
        spans = d.get('spans', [])
        # labels: from every span's lines (primary first)
        spans_sorted = sorted(spans, key=lambda s: not s.get('is_primary'))
        for s in spans_sorted:
            for ln in range(s['line_start'], s['line_end'] + 1):
                if s['line_end'] - s['line_start'] > 3 and ln != s['line_start']:
                    break
                for lab in labels.get(ln, []):
                    if lab not in f.labels:
                        f.labels.append(lab)
        # function: first span that lies inside an extracted fn
        for s in spans_sorted:
            for rec in g.fns:
                if rec.gen_lines[0] <= s['line_start'] <= rec.gen_lines[1]:
                    f.fn = rec.qual
                    break
            if f.fn:
                break
        prim = [s for s in spans if s.get('is_primary')]
        if prim:
            ln = prim[0]['line_start']
            f.site = re.sub(r'\s+', ' ', LABEL_STRIP.sub('', lines[ln - 1])).strip() if 0 < ln <= len(lines) else ''
        low = msg.lower()
        if 'rlimit' in low or 'resource limit' in low or 'timed out' in low or 'solver' in low and 'crash' in low:
            f.kind = 'rlimit'
        elif d.get('code') is not None or not is_verification_message(msg):
            f.kind = 'frontend'   # rustc diagnostics carry an error code, Verus proof failures do not
        fails.append(f)
    return fails


LABEL_STRIP = re.compile(r'//.*$')

VERIF_MSGS = (
    'postcondition not satisfied', 'precondition not satisfied', 'assertion failed', 'invariant not satisfied',
    'possible arithmetic underflow/overflow', 'possible division by zero', 'decreases not satisfied',
    'loop invariant not satisfied', 'possible bit shift underflow/overflow', 'recommendation not met',
    'could not prove termination', 'unable to prove', 'index out of bounds', 'possible', 'failed',
    'not satisfied', 'may fail', 'constructed value may fail', 'value may be out of range',
)


def is_verification_message(msg):
    low = msg.lower()
    return any(k in low for k in VERIF_MSGS)


# ------------------------------------------------------------------------------------ one unit
class UnitResult:
    pass


def _run_unit_once(unit_dir, tier, seed, scratch, auto_stubs):
    u = UnitResult()
    u.main_res = None
    u.auto_stubbed = []
    u.name = os.path.basename(unit_dir)
    u.status = 'ok'
    u.reason = ''
    u.failures = []
    u.functions = []
    u.trusted = []
    u.rules = []
    u.cmds = []
    u.verified = 0
    u.errors = 0
    u.smt_micros = 0
    u.mustfail = {}
    u.mutants = []
    u.variants = []
    u.seeds = []
    u.wall = 0.0
    u.labels = []
    t0 = time.time()
    rlimit = 40 if tier == 'quick' else 120
    try:
        g = gen.generate(unit_dir, auto_stubs=auto_stubs)
        u.gen = g
        u.auto_stubbed = list(g.auto_stubbed)
        vnames = [v for v in (g.opts.get('variants', '') or '').split(',') if v]
    except ExtractError as e:
        u.status, u.reason = 'undecided', 'extraction: %s' % e
        u.wall = time.time() - t0
        return u
    except Exception as e:  # defensive: a generator crash is a tool limit, not an alarm
        u.status, u.reason = 'undecided', 'generator error: %r' % e
        u.wall = time.time() - t0
        return u
    d = os.path.join(scratch, u.name)
    os.makedirs(d, exist_ok=True)
    path = os.path.join(d, u.name + '.rs')
    open(path, 'w').write(g.text)
    u.gen_path = path
    u.rules = sorted(g.rules_used)
    u.trusted = gen.scan_trust(g.text)
    u.labels = sorted({l for ls in gen.labels_by_line(g.text).values() for l in ls})
    # forbidden: assume/admit in the generated file unless the line is tagged TRUSTED-ASSUME
    glines = g.text.split('\n')
    for kind, name, ln in u.trusted:
        if kind in ('assume', 'admit') and 'TRUSTED-ASSUME' not in glines[ln - 1]:
            u.status, u.reason = 'undecided', 'undeclared %s at generated line %d' % (kind, ln)
            u.wall = time.time() - t0
            return u

    jobs = {}
    with cf.ThreadPoolExecutor(max_workers=8) as ex:
        jobs['main'] = ex.submit(run_verus, path, rlimit, seed if tier == 'thorough' else None)
        # must-fail (vacuity) probe: `ensures false` is added to groups of functions that do not
        # call each other (a callee with `ensures false` would make its caller vacuous too)
        gms = []
        try:
            for gi, grp in enumerate(mustfail_groups(g)):
                gm = gen.generate(unit_dir, mustfail=set(grp), auto_stubs=auto_stubs)
                mpath = os.path.join(d, '%s__mustfail%d.rs' % (u.name, gi))
                open(mpath, 'w').write(gm.text)
                jobs['mustfail:%d' % gi] = ex.submit(run_verus, mpath, rlimit)
                gms.append((gi, grp, gm))
        except ExtractError as e:
            gms = []
        # scenario variants
        vg = {}
        for v in vnames:
            try:
                gv = gen.generate(unit_dir, variant=v, auto_stubs=auto_stubs)
                vpath = os.path.join(d, '%s__%s.rs' % (u.name, v))
                open(vpath, 'w').write(gv.text)
                vg[v] = gv
                jobs['variant:' + v] = ex.submit(run_verus, vpath, rlimit)
            except ExtractError as e:
                u.status, u.reason = 'undecided', 'variant %s extraction: %s' % (v, e)
        if tier == 'thorough':
            for k in (1, 2):
                jobs['seed:%d' % k] = ex.submit(run_verus, path, rlimit, (seed or 0) * 7 + k * 101 + 1)
            mfile = os.path.join(unit_dir, 'mutants.json')
            if os.path.exists(mfile):
                for mu in json.load(open(mfile)):
                    try:
                        gmu = gen.generate(unit_dir, mutate=(mu['fn'], mu['find'], mu['replace']), variant=mu.get('variant'), auto_stubs=auto_stubs)
                    except ExtractError as e:
                        u.mutants.append(dict(name=mu['name'], result='not-applicable', why=str(e)))
                        continue
                    mp = os.path.join(d, '%s__mut_%s.rs' % (u.name, slug(mu['name'])))
                    open(mp, 'w').write(gmu.text)
                    jobs['mutant:' + mu['name']] = (ex.submit(run_verus, mp, rlimit), gmu, mu)
        results = {}
        for k, v in jobs.items():
            if isinstance(v, tuple):
                results[k] = (v[0].result(), v[1], v[2])
            else:
                results[k] = v.result()

    # ---- main run
    main = results['main']
    u.main_res = main
    u.cmds.append(main['cmd'])
    absorb(u, g, main, 'main')
    for v in vnames:
        if 'variant:' + v in results:
            r = results['variant:' + v]
            uv = UnitResult()
            uv.status, uv.reason, uv.failures, uv.functions, uv.verified, uv.errors, uv.smt_micros = 'ok', '', [], [], 0, 0, 0
            absorb(uv, vg[v], r, 'variant:' + v)
            u.variants.append(dict(name=v, status=uv.status, verified=uv.verified, errors=uv.errors))
            u.verified += uv.verified
            u.errors += uv.errors
            u.smt_micros += uv.smt_micros
            for f in uv.failures:
                f.variant = v
                if f.labels:
                    f.labels = ['%s@%s' % (f.labels[0], v)] + f.labels[1:]
                else:
                    f.message = f.message + '@' + v
                u.failures.append(f)
            for fr in uv.functions:
                fr = dict(fr)
                fr['variant'] = v
                u.functions.append(fr)
            if uv.status == 'undecided' and u.status == 'ok':
                u.status, u.reason = 'undecided', 'variant %s: %s' % (v, uv.reason)
            if uv.status == 'fail' and u.status == 'ok':
                u.status = 'fail'

    # ---- vacuity probe: every must-fail function has to fail
    if u.status in ('ok', 'fail') and gms:
        vac, checked, err = [], 0, None
        for gi, grp, gm in gms:
            r = results['mustfail:%d' % gi]
            bd = fn_breakdown(r['json'])
            vr = (r['json'] or {}).get('verification-results', {})
            if r['json'] is None or vr.get('encountered-vir-error'):
                err = first_error(r)
                continue
            stem = '%s__mustfail%d' % (u.name, gi)
            for rec in gm.fns:
                if rec.qual not in grp:
                    continue
                ent = find_fn_entry(bd, stem, rec.qual)
                if ent is None:
                    continue
                checked += 1
                if ent['success']:
                    vac.append(rec.qual)
        u.mustfail = dict(status='error' if err else ('ok' if not vac else 'vacuous'), checked=checked, vacuous=vac, runs=len(gms))
        if err and u.status == 'ok':
            u.status, u.reason = 'undecided', 'must-fail probe did not run: ' + err
        if vac and u.status == 'ok':
            u.status, u.reason = 'undecided', 'vacuity: `ensures false` verifies for %s' % ', '.join(vac)

    # ---- thorough extras
    if tier == 'thorough':
        for k in (1, 2):
            r = results.get('seed:%d' % k)
            if r is None:
                continue
            vr = (r['json'] or {}).get('verification-results', {})
            u.seeds.append(dict(k=k, verified=vr.get('verified'), errors=vr.get('errors')))
            mvr = (main['json'] or {}).get('verification-results', {})
            if vr.get('errors') != mvr.get('errors') and u.status == 'ok':
                u.status, u.reason = 'undecided', 'unstable under smt.random_seed (seed run %d differs)' % k
        for k, val in results.items():
            if not k.startswith('mutant:'):
                continue
            r, gmu, mu = val
            main_names = {f.name(u.name) for f in u.failures}
            fs = [f for f in classify(gmu, r) if f.kind == 'verification']
            names = [nm for nm in (f.name(u.name) for f in fs) if nm not in main_names]
            vr = (r['json'] or {}).get('verification-results', {})
            if r['json'] is None or vr.get('encountered-vir-error', False) or not vr:
                u.mutants.append(dict(name=mu['name'], result='invalid-mutant', why=first_error(r)[:200]))
                continue
            killed = bool(names)
            exp = mu.get('expect')
            hit = (exp is None) or any(exp in nm for nm in names)
            u.mutants.append(dict(name=mu['name'], result='killed' if killed and hit else ('killed-elsewhere' if killed else 'survived'),
                                  expect=exp, failed=names[:4]))
        surv = [m['name'] for m in u.mutants if m['result'] == 'survived']
        if surv and u.status in ('ok', 'fail'):
            u.status, u.reason = 'undecided', 'contract too weak: mutants survive: %s' % ', '.join(surv)
    u.wall = time.time() - t0
    return u


def unit_header_opts(unit_dir):
    try:
        with open(os.path.join(unit_dir, 'unit.rs')) as f:
            for line in f:
                if line.startswith('//@@ unit '):
                    return gen.parse_opts(line.split()[3:])
    except OSError:
        pass
    return {}


def mustfail_groups(g):
    """Greedy colouring of the direct call graph among extracted functions."""
    recs = [r for r in g.fns if r.mustfail]
    names = {r.qual: r.qual.split('::')[-1].split('/')[-1] for r in recs}
    adj = {r.qual: set() for r in recs}
    for a in recs:
        for b in recs:
            if a is b:
                continue
            if re.search(r'\b%s\s*(::<[^>]*>)?\s*\(' % re.escape(names[b.qual]), a.raw.split('{', 1)[-1]):
                adj[a.qual].add(b.qual)
                adj[b.qual].add(a.qual)
    groups = []
    for r in recs:
        for grp in groups:
            if not (adj[r.qual] & set(grp)):
                grp.append(r.qual)
                break
        else:
            groups.append([r.qual])
    return groups


def run_unit(unit_dir, tier, seed, scratch):
    """Run a unit; when the front end reports a callee that the unit does not know (a helper added to
    the source file), stub it mechanically as a contract-less external_body function and retry: the
    caller's obligations are then decided against `no contract` (modular verification)."""
    auto = {}
    u = None
    if unit_header_opts(unit_dir).get('noverus'):
        u = UnitResult()
        u.name = os.path.basename(unit_dir)
        u.status, u.reason, u.failures, u.functions, u.trusted, u.rules, u.cmds = 'ok', '', [], [], [], [], []
        u.verified = u.errors = u.smt_micros = 0
        u.mustfail, u.mutants, u.variants, u.seeds, u.labels, u.wall = {}, [], [], [], [], 0.0
        u.main_res = None
        u.auto_stubbed = []
    for rnd in range(4 if u is None else 0):
        u = _run_unit_once(unit_dir, tier, seed, os.path.join(scratch, 'r%d' % rnd) if rnd else scratch, auto)
        if u.status != 'undecided' or u.main_res is None or not hasattr(u, 'gen'):
            break
        new = gen.unresolved_callees(u.gen, u.main_res['diags'])
        added = False
        for ref, st in new:
            lst = auto.setdefault(ref, [])
            if not any(x['qual'] == st['qual'] and x['kind'] == st['kind'] for x in lst):
                lst.append(st)
                added = True
        if not added:
            break
    u.auto_stubs = sorted({st['qual'] for lst in auto.values() for st in lst}) if auto else []
    u.auto_map = auto
    u.confirmed = []
    u.bounded = []
    # bounded stand-ins: clauses no contract within reach expresses are checked by the unit's native
    # enumerator over its stated finite domain on every run; labelled bounded, never counted as proved
    hdr = unit_header_opts(unit_dir)
    if hdr.get('bounded'):
        try:
            import witness
            u.bounded = witness.bounded(u, unit_dir, scratch, hdr['bounded'].split(','))
        except Exception as e:
            u.bounded = [dict(label=l, fn='', result='error', why=repr(e)) for l in hdr['bounded'].split(',')]
    if u.status == 'undecided' and not u.reason.startswith(('vacuity', 'contract too weak', 'unstable')):
        # the proof could not even be attempted (lost anchor / unsupported construct).  That is never an
        # alarm by itself; but a concrete failing input found by replaying the extracted real code is.
        try:
            import witness
            u.confirmed = witness.sweep(u, unit_dir, scratch)
            u.swept = witness.built(u, unit_dir, scratch)
        except Exception as e:
            u.confirmed = []
    return u


def _fn_quals(path):
    out = set()
    try:
        lines = gen.expand_includes(open(path, encoding='utf-8').read().split('\n'))
    except Exception:
        return out
    for l in lines:
        t = l.strip()
        if t.startswith('//@@ fn '):
            w = t.split()
            out.add((w[2], w[3]))
    return out


def _items_of(path):
    out = []
    try:
        lines = gen.expand_includes(open(path, encoding='utf-8').read().split('\n'))
    except Exception:
        return out
    for l in lines:
        t = l.strip()
        if t.startswith('//@@ item '):
            w = t.split()
            out.append((w[2], w[3], w[4]))
    return out


def _sha(txt):
    import hashlib
    return hashlib.sha256(txt.encode()).hexdigest()[:16]


def changed_fns(unit_name):
    """The functions of the unit whose source text differs from the text the baseline proof was made on, or None when that cannot
    be told (no record, or a type / constant the unit extracts changed as well: then every function counts as changed)."""
    d = os.path.join(VERIF, 'units', unit_name)
    try:
        base = json.load(open(BASELINE)).get(unit_name, {})
    except Exception:
        return None
    bsha, bitems = base.get('sha'), base.get('items')
    if not bsha or bitems is None:
        return None
    try:
        for rel, kind, name in _items_of(os.path.join(d, 'unit.rs')):
            rf = gen.load(rel)
            a, kw, b = rf.find_item(kind, name)
            if bitems.get('%s %s' % (kind, name)) != _sha(rf.text[a:b]):
                return None
    except Exception:
        return None
    out = set()
    names = {}
    try:
        for l in gen.expand_includes(open(os.path.join(d, 'unit.rs'), encoding='utf-8').read().split('\n')):
            t = l.strip()
            if t.startswith('//@@ fn '):
                w = t.split()
                names[(w[2], w[3])] = gen.parse_opts(w[4:]).get('name', w[3])
    except Exception:
        return None
    for rel, qual in _fn_quals(os.path.join(d, 'unit.rs')):
        try:
            rf = gen.load(rel)
            a, kw, bo, bc = rf.find_fn(qual)
            if bsha.get(names.get((rel, qual), qual)) != _sha(rf.text[a:bc + 1]):
                out.add((rel, qual))
        except Exception:
            out.add((rel, qual))
    return out


def witness_covers(unit_name):
    """True when the unit's replay program extracts every function the unit puts under contract - or, when the types and constants
    the unit extracts are unchanged, every function whose text changed: a function whose text, callee contracts and types are those
    of the baseline proof keeps that proof (it is listed as carried over, not re-checked, in the DEGRADED line's evidence)."""
    d = os.path.join(VERIF, 'units', unit_name)
    w = os.path.join(d, 'witness.rs')
    if not os.path.exists(w):
        return False
    need = _fn_quals(os.path.join(d, 'unit.rs'))
    have = _fn_quals(w)
    # a replay program that takes a whole source file (`//@@ file <path> mod=..`) runs every function of that file
    whole = set()
    try:
        for l in gen.expand_includes(open(w, encoding='utf-8').read().split('\n')):
            t = l.strip()
            if t.startswith('//@@ file '):
                whole.add(t.split()[2])
    except Exception:
        pass
    covered = lambda fq: fq in have or fq[0] in whole
    if bool(need) and all(covered(fq) for fq in need):
        return True
    ch = changed_fns(unit_name)
    return bool(ch) and all(covered(fq) for fq in ch)


DEGRADABLE = ('extraction:', 'front end:', 'undeclared ')


def _code_changed(u):
    """True unless every function the unit extracts has exactly the text recorded in the baseline."""
    try:
        base = json.load(open(BASELINE)).get(u.name, {}).get('sha')
    except Exception:
        base = None
    if not base:
        return False         # never verified on the pinned tree (or no text record): nothing to fall back from
    g = getattr(u, 'gen', None)
    if g is None or not getattr(g, 'fns', None):
        return True          # extraction itself failed: an anchor was lost, so the text did change
    cur = {r.qual: r.sha for r in g.fns}
    return cur != base or bool(getattr(u, 'auto_stubs', None))


def degradable(u):
    r = u.reason or ''
    if not _code_changed(u):
        return False
    # units whose argument is about interleavings (per-stream total order under concurrent writers): a sequential replay that
    # passes says nothing about schedules, so a proof that cannot be attempted stays UNDECIDED
    if unit_header_opts(os.path.join(VERIF, 'units', u.name)).get('nodegrade'):
        return False
    if not any(k in r for k in DEGRADABLE) or 'resource limit' in r or 'timed out' in r or 'timeout' in r:
        return False
    if getattr(u, 'confirmed', None):
        return False
    if not getattr(u, 'swept', False):
        return False
    return witness_covers(u.name)


def first_error(r):
    for d in r['diags']:
        if d.get('level') == 'error':
            return d.get('message', '')[:300]
    tail = r['stderr'].strip().split('\n')[-3:]
    return ' | '.join(tail)[:300]


def find_fn_entry(bd, stem, qual):
    q = qual.split('/')[-1] if '/' in qual else qual
    q = re.sub(r'^(\w+) as \w+::', r'\1::', q)
    for k, v in bd.items():
        if k == '%s::%s' % (stem, q) or k.endswith('::' + q):
            return v
    # trait impl methods are named crate::impl&%N::name
    name = q.split('::')[-1]
    c = [v for k, v in bd.items() if k.split('::')[-1] == name]
    if len(c) == 1:
        return c[0]
    return None


def absorb(u, g, res, what):
    js = res['json']
    vr = (js or {}).get('verification-results', {})
    fails = classify(g, res)
    stem = os.path.splitext(os.path.basename(res['cmd'].split()[1]))[0]
    bd = fn_breakdown(js)
    u.smt_micros += sum(v['micros'] for v in bd.values())
    if js is None or vr.get('encountered-vir-error') or (not vr):
        u.status, u.reason = 'undecided', '%s: verus front end: %s' % (what, first_error(res))
        return
    front = [f for f in fails if f.kind == 'frontend']
    if front and vr.get('errors', 0) == 0 and not vr.get('success', False):
        u.status, u.reason = 'undecided', '%s: front end: %s' % (what, front[0].message[:300])
        return
    u.verified += vr.get('verified', 0)
    u.errors += vr.get('errors', 0)
    for rec in g.fns:
        ent = find_fn_entry(bd, stem, rec.qual)
        u.functions.append(dict(fn=rec.qual, file=rec.file, sha256_16=rec.sha, rules=rec.rules,
                                contract=rec.has_contract, loops=rec.n_loops, closures=rec.n_closures,
                                backend='verus/z3', success=(ent or {}).get('success'),
                                smt_micros=(ent or {}).get('micros'), rlimit=(ent or {}).get('rlimit')))
    rl = [f for f in fails if f.kind == 'rlimit']
    ver = [f for f in fails if f.kind == 'verification']
    if rl:
        u.status, u.reason = 'undecided', '%s: resource limit: %s' % (what, rl[0].message[:200])
    if front and not ver:
        u.status, u.reason = 'undecided', '%s: front end: %s' % (what, front[0].message[:300])
    if ver:
        u.failures.extend(ver)
        if u.status == 'ok':
            u.status = 'fail'
    elif vr.get('errors', 0) > 0 and u.status == 'ok':
        u.status, u.reason = 'undecided', '%s: %d errors without a mapped diagnostic' % (what, vr['errors'])
    # a function under contract that no longer exists: its clauses are gone with it; unless a former caller now fails (then that is
    # what gets reported), nobody vouches for what it carried
    gone = getattr(g, 'missing_fns', None)
    if gone:
        print('NOTE unit=%s function(s) under contract no longer exist in the source: %s' % (u.name, ', '.join(gone)))
        if u.status == 'ok':
            u.status, u.reason = 'undecided', '%s: function(s) under contract no longer exist in the source: %s' % (what, ', '.join(gone))
    # every extracted fn with a body must show up in the breakdown when verification ran cleanly
    if u.status == 'ok':
        missing = [f['fn'] for f in u.functions if f['success'] is None and f.get('contract')]
        if missing:
            u.status, u.reason = 'undecided', 'functions missing from verifier output: %s' % ', '.join(missing[:5])


# ------------------------------------------------------------------------------------ property
def decide(prop, tier, seed, keep=False, only_unit=None, rebaseline=False, replay=None):
    t0 = time.time()
    unit_dirs = units_for(prop)
    if only_unit:
        unit_dirs = [d for d in unit_dirs if os.path.basename(d) == only_unit]
    if not unit_dirs:
        print('no units for %s' % prop)
        return 2
    base = os.environ.get('RIP_VERIF_SCRATCH', '/var/tmp')
    scratch = tempfile.mkdtemp(prefix='rip-verif.', dir=base)
    try:
        with cf.ThreadPoolExecutor(max_workers=min(6, len(unit_dirs))) as ex:
            results = list(ex.map(lambda d: run_unit(d, tier, seed, scratch), unit_dirs))
        # extra engines (kani kernels, model sanity) registered per property
        extras = run_extras(prop, tier, seed, scratch)
        rc = report(prop, tier, seed, results, extras, time.time() - t0, rebaseline, replay)
        if keep:
            print('scratch kept at', scratch)
        return rc
    finally:
        if not keep:
            shutil.rmtree(scratch, ignore_errors=True)


def run_extras(prop, tier, seed, scratch):
    try:
        import extras
    except ImportError:
        return []
    return extras.run(prop, tier, seed, scratch)


def report(prop, tier, seed, results, extras, wall, rebaseline, replay):
    known, fixed = load_known()
    baseline = load_baseline()
    violations = []
    known_hits = []
    undecided = []
    degraded = []
    obligations = 0
    discharged = 0
    fn_rows = []
    trusted = []
    samples = []
    mustfail = {}
    mutants = []
    seeds = {}
    rules = set()
    cmds = []
    kf_obls = []
    bounded_rows = []
    smt_s = 0.0
    newbase = {}
    pf = {}
    try:
        pf = json.load(open(os.path.join(VERIF, 'prop_functions.json'))).get(prop, {})
    except Exception:
        pf = {}
    only_fns = set(pf.get('functions', [])) or None          # restrict shared units to the functions that carry this property
    label_prefixes = list(pf.get('label_prefixes', []))
    only_bounded = tuple(pf.get('bounded_prefixes', [])) or None
    for u in results:
        u.verified_total = u.verified
        u.functions_total = list(u.functions)
        if u.name in pf.get('strict_units', []):
            # in these units only the labelled clauses belong to this property; any other obligation of the same functions
            # (termination, arithmetic) is carried by the property that owns it, in its own unit
            other = [f for f in u.failures if f.kind == 'verification' and not any(l.startswith(x) for l in f.labels for x in label_prefixes)]
            for f in other:
                print('NOTE unit=%s %s fails, which is not a clause of %s (see the unit of the property that owns it)' % (u.name, f.name(u.name), prop))
            u.failures = [f for f in u.failures if f not in other]
            u.not_owned = len({f.fn for f in other})
        if only_fns is not None and not unit_header_opts(os.path.join(UNITS, u.name)).get('noverus'):
            u.failures = [f for f in u.failures if f.fn in only_fns]
            u.functions = [fr for fr in u.functions if fr['fn'] in only_fns]
            u.verified = sum(1 for fr in u.functions if fr.get('success'))
            u.errors = sum(1 for fr in u.functions if fr.get('success') is False)
            u.labels = [l for l in u.labels if any(l.startswith(x.split('::')[-1]) for x in only_fns) or any(l.startswith(x) for x in label_prefixes)]
            if u.status == 'fail' and not u.failures:
                u.status = 'ok'
        if only_bounded is not None:
            u.bounded = [b for b in getattr(u, 'bounded', []) if b['label'].startswith(only_bounded)]
        cmds.extend(u.cmds)
        rules |= set(u.rules)
        smt_s += u.smt_micros / 1e6
        for kind, name, ln in u.trusted:
            trusted.append('%s: %s %s' % (u.name, kind, name))
        mustfail[u.name] = u.mustfail
        for r in getattr(getattr(u, 'gen', None), 'fns', []):
            if getattr(r, 'renamed', None):
                print('NOTE unit=%s %s: locals renamed since the baseline (%s); the contracts follow the new names' % (
                    u.name, r.qual, ', '.join('%s -> %s' % kv for kv in sorted(r.renamed.items()))))
        if getattr(u, 'auto_stubs', None):
            trusted.append('%s: AUTO-STUBBED callees without contract: %s' % (u.name, ', '.join(u.auto_stubs)))
            print('NOTE unit=%s callees not known to the unit were stubbed without a contract: %s' % (u.name, ', '.join(u.auto_stubs)))
            forb_u = unit_header_opts(os.path.join(VERIF, 'units', u.name)).get('forbid')
            if forb_u and u.status in ('ok', 'fail'):
                hit = getattr(getattr(u, 'gen', None), 'auto_forbidden', [])
                free = [q for q in u.auto_stubs if not re.search(forb_u, q.split('::')[-1]) and not any(q.endswith(h) for h in hit)]
                if free:
                    # a unit about what is reachable cannot pass over a callee whose effects nobody stated
                    undecided.append('%s: new callee(s) %s have no contract and reach no forbidden function by name; whether they write is not known to the unit'
                                     % (u.name, ', '.join(free)))
        if getattr(u, 'auto_stubs', None) and unit_header_opts(os.path.join(VERIF, 'units', u.name)).get('strictcallees') and u.status == 'ok':
            # writers under the seq lock: a callee nobody gave a contract may refuse, append or take locks; the functions that call it
            # are not vouched for by a proof that never looked inside it (seeded change C07-3)
            refs = sorted({'%s -> %s' % (ref, st['qual']) for ref, lst in (getattr(u, 'auto_map', None) or {}).items() for st in lst
                           if st.get('kind') != 'const' and (only_fns is None or ref in only_fns)})
            if refs:
                undecided.append('%s: new callee(s) without a contract inside a writer of a numbered stream (%s); what they write, and with which seq, is not known to the unit'
                                 % (u.name, ', '.join(refs)))
        if u.mutants:
            mutants.extend(dict(unit=u.name, **m) for m in u.mutants)
        if u.seeds:
            seeds[u.name] = u.seeds
        failed_fns = set()
        for f in u.failures:
            nm = f.name(u.name)
            failed_fns.add((f.fn, getattr(f, 'variant', None)))
            k = match_known(known, prop, nm, f.site)
            b = baseline.get(u.name, {})
            if k is not None:
                known_hits.append((k, nm))
                kf_obls.append(nm)
            elif f.fn is None:
                undecided.append('%s: failure outside extracted code: %s (%s)' % (u.name, f.message, f.site[:80]))
            elif b and f.fn not in b.get('functions', []) and not rebaseline:
                undecided.append('%s: %s fails but its function is not in the baseline of verified functions' % (u.name, nm))
            else:
                # a function that calls a callee the unit does not know (auto-stubbed WITHOUT a contract) cannot be decided
                # modularly: nothing is known about the new callee, so the failed obligation says `needs a contract`, not
                # `property broken`.  Only a concrete failing input from the replay of the real text makes it a violation.
                rec = next((r for r in u.gen.fns if r.qual == f.fn), None) if hasattr(u, 'gen') else None
                forb = unit_header_opts(os.path.join(VERIF, 'units', u.name)).get('forbid')
                new_callees = [q for q in getattr(u, 'auto_stubs', []) if rec is not None and re.search(r'\b%s\s*\(' % re.escape(q.split('::')[-1]), rec.raw or '')
                               and not (forb and re.search(forb, q.split('::')[-1]))      # a forbidden callee is stubbed WITH a contract (requires false)
                               and not any(q.endswith(h) for h in getattr(u.gen, 'auto_forbidden', []))]   # ... and so is a new callee that reaches one
                if new_callees:
                    wit = find_witness(prop, u, f, nm)
                    if wit:
                        f.witness_cached = wit
                        violations.append((u, f, nm))
                    else:
                        msg = '%s: %s fails against the empty contract of new callee(s) %s; no failing input found by replaying the real code' % (u.name, nm, ', '.join(new_callees))
                        if witness_covers(u.name) and not unit_header_opts(os.path.join(VERIF, 'units', u.name)).get('nodegrade'):
                            degraded.append(msg)
                        else:
                            undecided.append(msg)
                else:
                    violations.append((u, f, nm))
        for c in getattr(u, 'confirmed', []):
            nm = '%s:%s/%s' % (u.name, c['fn'], c['label'])
            k = match_known(known, prop, nm, '')
            if k is not None:
                known_hits.append((k, nm))
                kf_obls.append(nm)
            else:
                violations.append((None, dict(engine='replay of extracted real code (proof undecided: %s)' % u.reason[:200],
                                              output=u.reason, witness=c['witness']), nm))
        for b in getattr(u, 'bounded', []):
            bounded_rows.append(dict(unit=u.name, **{k: v for k, v in b.items() if k != 'witness'}))
            nm = '%s:%s/%s' % (u.name, b.get('fn') or '<bounded>', b['label'])
            if b['result'] == 'witness':
                k = match_known(known, prop, nm, '')
                if k is not None:
                    known_hits.append((k, nm))
                    kf_obls.append(nm)
                else:
                    violations.append((None, dict(engine='bounded stand-in: native replay of the extracted real code over an enumerated domain',
                                                  output='bounded check found a failing input', witness=b['witness']), nm))
            elif b['result'] == 'error':
                undecided.append('%s: bounded stand-in %s could not run: %s' % (u.name, b['label'], b.get('why', '')))
        if u.status == 'undecided':
            if degradable(u):
                # the proof could not be ATTEMPTED on this text (lost anchor, renamed local, construct outside Verus), the unit's
                # replay program covers every function of the unit and, swept over all clauses, found no failing input on the
                # real code: the property held on everything explored.  Reported as bounded for this run, never as proved.
                degraded.append('%s: proof not attempted (%s); replay of the extracted real code over its enumerated domain found no failing input' % (u.name, u.reason[:160]))
            else:
                undecided.append('%s: %s' % (u.name, u.reason))
        # obligations: verifier-counted verification units (functions / proofs) of the main file and variants
        obligations += u.verified + u.errors
        discharged += u.verified
        for fr in u.functions:
            fn_rows.append(dict(unit=u.name, **fr))
        for lab in u.labels:
            samples.append('%s:%s' % (u.name, lab))
        newbase[u.name] = dict(functions=sorted({fr['fn'] for fr in u.functions_total if fr.get('success') is not None}),
                               verified=u.verified_total,
                               # text hashes of what the unit extracts: a proof that cannot be attempted although none of them
                               # changed is a fault of the machinery, never a reason to fall back to the replay
                               sha={fr['fn']: fr.get('sha256_16') for fr in u.functions_total if fr.get('sha256_16')},
                               items={'%s %s' % (it['kind'], it['name']): it['sha'] for it in getattr(getattr(u, 'gen', None), 'items', [])},
                               # names bound by `let` in each function, in order: a later run maps renamed locals onto the contracts
                               lets={r.qual: r.lets for r in getattr(getattr(u, 'gen', None), 'fns', []) if not r.renamed})
        # vacuity / count floor
        b = baseline.get(u.name)
        if b and u.status == 'ok' and u.verified_total + getattr(u, 'not_owned', 0) < b.get('verified', 0) and not rebaseline:
            undecided.append('%s: verifier discharged %d units, baseline minimum is %d' % (u.name, u.verified_total, b.get('verified', 0)))
    for e in extras:
        cmds.extend(e.get('cmds', []))
        obligations += e.get('obligations', 0)
        discharged += e.get('discharged', 0)
        trusted.extend(e.get('trusted', []))
        samples.extend(e.get('samples', []))
        for v in e.get('violations', []):
            violations.append((None, v, v['name']))
        for s in e.get('undecided', []):
            undecided.append(s)

    # known-finding obligations are counted neither as obligations nor as discharged
    kf_errors = len(kf_obls)
    obligations_reported = obligations - min(kf_errors, obligations - discharged)

    if rebaseline:
        baseline.update(newbase)
        json.dump(baseline, open(BASELINE, 'w'), indent=1, sort_keys=True)
        print('baseline updated for', ', '.join(newbase))

    # ---- print
    rc = 0
    seen = set()
    for k, nm in known_hits:
        key = k['text']
        if key in seen:
            continue
        seen.add(key)
        print('KNOWN-FINDING: property=%s %s' % (prop, re.sub(r'^property=\S+\s*', '', k['text'])))
    rdir = os.path.join(VERIF, 'replays', prop)
    os.makedirs(rdir, exist_ok=True)
    for old in glob.glob(os.path.join(rdir, '*.json')):
        os.remove(old)
    for u, f, nm in violations:
        rp = os.path.join(VERIF, 'replays', prop, slug(nm) + '.json')
        if u is None:
            wit = f.get('witness')
            payload = dict(property=prop, obligation=nm, engine=f.get('engine'), verifier_output=f.get('output', ''),
                           witness=wit, how_to_rerun='./check %s --replay %s' % (prop, rp))
        else:
            rec = next((r for r in u.gen.fns if r.qual == f.fn), None)
            wit = getattr(f, 'witness_cached', None) or find_witness(prop, u, f, nm)
            payload = dict(property=prop, obligation=nm, unit=u.name, function=f.fn, labels=f.labels,
                           message=f.message, call_site_or_clause=f.site, verifier='verus/z3',
                           verifier_output=f.rendered, extracted_from=rec.file if rec else None,
                           extracted_sha256_16=rec.sha if rec else None, extracted_text=rec.raw if rec else None,
                           witness=wit, how_to_rerun='./check %s --replay %s' % (prop, rp))
        json.dump(payload, open(rp, 'w'), indent=1)
        tail = '' if payload.get('witness') else ' no-failing-input-found'
        print('VIOLATION property=%s replay=%s obligation=%s%s' % (prop, rp, nm, tail))
        rc = 1
    for s in degraded:
        print('DEGRADED property=%s %s (bounded for this run, not proved)' % (prop, s))
    for s in undecided:
        print('UNDECIDED property=%s %s' % (prop, s))
    if rc == 0 and undecided:
        rc = 2
    if replay and rc == 0:
        print('replay: obligation no longer fails on the current tree')

    # ---- evidence
    level = 'proof'
    try:
        for c in json.load(open(os.path.join(VERIF, 'MANIFEST.json')))['checks']:
            if c['property_id'] == prop:
                level = c['level_claimed']['category']
    except Exception:
        pass
    ev = dict(
        property_id=prop, tier=tier, seed=seed if seed is not None else 0, level=level,
        coverage=dict(
            obligations=obligations_reported, discharged=discharged,
            checker_cmd='; '.join(sorted(set(cmds)))[:4000] or 'verus <generated>.rs',
            trusted_base=sorted(set(trusted)) + ['extraction rules applied: ' + ','.join(sorted(rules)),
                                                  'soundness of Verus 0.2026.09.13 / Z3 / rustc',
                                                  'usize is 64 bits (global size_of usize == 8) where declared'],
            samples=samples[:400],
            rule='obligation = one verification unit (function / lemma / loop) counted by Verus in `verification-results` for the generated files of this property (main files and scenario variants); labelled clauses are listed in samples',
            explanation='Deductive part: %d verification units discharged by Verus/Z3 on functions extracted from /repo at run time. Bounded stand-ins (never counted as proved): %d clause(s) checked by native replay of the extracted real code over the finite domains stated in MANIFEST.json; see bounded_standins.' % (discharged, len(bounded_rows)),
            functions_under_contract=fn_rows,
            labelled_clauses=len(samples),
            solver_time_s=round(smt_s, 3),
            mustfail_probe=mustfail,
            mutants=mutants, seeds=seeds,
            known_finding_obligations=sorted(set(kf_obls)),
            bounded_standins=bounded_rows,
            degraded_to_bounded=degraded,
            undecided=undecided,
            extras=[{k: v for k, v in e.items() if k in ('engine', 'obligations', 'discharged', 'harnesses', 'note', 'wall_s')} for e in extras],
            not_decided=not_decided_text(prop),
        ),
        assumptions=sorted(set(trusted))[:200] + assumptions_text(prop),
        wall_s=round(wall, 2), violations=len(violations))
    os.makedirs(os.path.join(VERIF, 'evidence'), exist_ok=True)
    json.dump(ev, open(os.path.join(VERIF, 'evidence', prop + '.json'), 'w'), indent=1)
    print('%s tier=%s units=%d obligations=%d discharged=%d known=%d violations=%d undecided=%d wall=%.1fs' % (
        prop, tier, len(results), obligations_reported, discharged, len(seen), len(violations), len(undecided), wall))
    return rc


def match_known(known, prop, nm, site):
    for k in known:
        if k.get('property') != prop:
            continue
        if k.get('obligation') != nm:
            continue
        if k.get('site') and re.sub(r'\s+', ' ', k['site']).strip() != site:
            continue
        return k
    return None


def find_witness(prop, u, f, nm):
    try:
        import witness
    except ImportError:
        return None
    try:
        return witness.find(prop, u, f, nm)
    except Exception as e:  # a witness search that crashes yields no input, never an alarm by itself
        return None


def _notes():
    p = os.path.join(VERIF, 'notes.json')
    return json.load(open(p)) if os.path.exists(p) else {}


def not_decided_text(prop):
    return _notes().get(prop, {}).get('not_decided', [])


def assumptions_text(prop):
    return _notes().get(prop, {}).get('assumptions', [])


def main():
    ap = argparse.ArgumentParser()
    ap.add_argument('prop')
    ap.add_argument('--tier', default=os.environ.get('VERIF_TIER', 'quick'))
    ap.add_argument('--replay')
    ap.add_argument('--unit')
    ap.add_argument('--keep', action='store_true')
    ap.add_argument('--rebaseline', action='store_true')
    a = ap.parse_args()
    tier = a.tier if a.tier in ('quick', 'thorough') else 'quick'
    os.environ['VX_TIER'] = tier      # replay programs widen their enumeration in the thorough tier
    seed = int(os.environ.get('VERIF_SEED', '0') or 0)
    only = a.unit
    if a.replay:
        try:
            rp = json.load(open(a.replay))
            only = rp.get('unit') or only
            print('replaying obligation %s' % rp.get('obligation'))
        except Exception as e:
            print('cannot read replay file: %s' % e)
            return 2
    return decide(a.prop, tier, seed, keep=a.keep, only_unit=only, rebaseline=a.rebaseline, replay=a.replay)


if __name__ == '__main__':
    sys.exit(main())
