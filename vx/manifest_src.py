"""Source of truth for MANIFEST.json (python3 vx/manifest_src.py rewrites it)."""
import json, os
VERIF = os.path.dirname(os.path.dirname(os.path.abspath(__file__)))

CLAIMED = {
 'C01': dict(
  text="Unbounded deductive proof (Verus/Z3) of the seq discipline of every continuity-stream writer, on the function text extracted from /repo on every run: each append_* reads the next seq and advances it through ONE lock guard with the truth-log append in between; the frame carries exactly the reserved (stream, seq); the counter moves by exactly +1 and only after the append succeeded; next-seq recovery (load_next_seq_for) returns last+1. Encoded with timeless facts reserved/appended/advanced and stub preconditions on EventLog::append and the counter map; holds for all inputs and, because a fresh guard has an unconstrained view, for all interleavings the Mutex permits. Findings F4 (create/branch/handoff publish a thread before its counter is set) are reported as KNOWN-FINDING.",
  note="Trusted: std::sync::Mutex excludes (a guard's view is stable while held); stub contracts of EventLog::append, the sidecar tail reader and replay_events (cache fidelity is C04/C05); Uuid freshness; rules R1,R2,R9 (format! replaced by an opaque string); stub ContinuityStore struct with the real field names. Not decided: cross-restart histories, session/task stream writers not yet under contract, byte-level interleaving inside EventLog::append.",
  technique="Verus contracts with ghost timeless facts and effect-constraint preconditions on mechanically extracted ContinuityStore writers",
  ref="§4 C01"),
 'C04': dict(
  text="Partial claim: termination, index safety and exactness of the cache primitives every read path goes through, by unbounded deductive proof (Verus/Z3) on the real functions extracted from /repo on every run: scan_sidecar_backwards terminates for every file length and window (decreases pos) and returns at most max_events records; strip_line_terminator leaves exactly the longest prefix without trailing CR/LF; best_offset_for_seq returns the offset of the last index entry at or before the target (0 when none), for every monotone index; next_power_of_two_u64 is a power of two >= v and the least such (bit-vector lemma); message_index_should_grow is the 7/10 load test; msg_index_slot_offset never wraps; lookup_message_v1 keeps its probe inside the table and its offset arithmetic cannot overflow for ANY header a corrupted index file may contain. One clause is a BOUNDED stand-in (not proved): the scanner returns the newest records in reverse order, skips none, and turns a torn last record into an error, checked by running the extracted real code over all sidecars of <= 4 records x {LF, CRLF} x {terminated, unterminated, torn, blank tail} x 2 paddings (one spanning several 8 KiB scan chunks) x 4 max_events x 4 max_bytes x 2 modes. Transparency itself (fast path == truth log through the whole read capability) is not decided.",
  note="Trusted: assumed contract of <[T]>::binary_search_by (partition semantics under a comparator that is monotone on the slice), drain_sidecar_lines through an assumed size contract (it uses Iterator::rposition, which this Verus cannot specify), File/metadata/seek/read_exact stubs with ghost position/length (files shorter than 2^63 bytes), serde_json::from_slice opaque, 64-bit usize, rules R1,R2,R4. Not decided: equality of cache-backed answers with truth-log answers for the read capabilities (two large implementations compared through the file system; a stale but well-formed sidecar cannot be excluded by a per-function contract), message_count_v1/read_message_by_ordinal_v1, compaction checkpoint index.",
  technique="Verus contracts (decreases, bit_vector lemma, closure contract for the comparator) on mechanically extracted cache primitives; one clause by bounded native replay, labelled bounded",
  ref="§4 C04"),
 'C08': dict(
  text="Unbounded deductive proof (Verus/Z3) of the pure compile kernels, extracted from /repo on every run: select_recent_messages and select_recent_messages_after_seq return exactly the last min(limit, n) message frames that are at or before the cut point and after the selected checkpoint, oldest first, each carrying the frame's fields unchanged (stated against a recursive spec function over the whole event sequence, with a suffix lemma), for every event sequence, cut, checkpoint seq and limit; resolve_cutpoint_from_tail returns the anchor message's seq and the frame before the next message after it (or the head). Frames after the cut provably do not influence the result (they are not eligible in the spec). Partial: equivalence of the three input read paths, checkpoint hierarchy selection and reply-text assembly are not under contract.",
  note="Trusted: assumed contracts of <[T]>::reverse and slice Iter::position, String==str equality axioms, slice length bound, vstd iterator/Vec/Option specs, Event/EventKind extracted mechanically from rip-kernel with serde attributes dropped (R1) and serde_json::Value opaque, rules R2,R4,R7 (for-with-continue to index loop). Not decided: None-case of the tail cut (anchor absent), resolve_context_compile_cutpoint_full and agreement between tail/window/full paths, compile_* assembly, races with appends.",
  technique="Verus contracts against recursive spec functions (loop invariants, induction lemma) on mechanically extracted context-compile kernels",
  ref="§4 C08"),
 'C10': dict(
  text="Unbounded deductive proof (Verus/Z3) on the real ContinuityStore::branch and ::handoff (100+ lines each, iterator closures, match guards) extracted from /repo on every run, against a specification of the cut written from the property statement over the source thread as replayed: the recorded cut lies within the source thread; with from_seq it equals that seq and names the last message frame at or before it; with from_message_id the message exists and the cut is the last frame related to it (the message or a run frame naming it); with neither it is the head and the last message; both selectors are refused; on Ok the child's frames are its creation at seq 0 and a lineage frame at seq 1 carrying exactly the returned cut, and a handoff carries a summary artifact id. Every append in these functions needs the seq reserved for the frame's own stream, so no frame can be added to the source thread. Closure contracts on every find/map closure are checked; the rev().find() results are tied to the spec by naming the hidden iterator view (exists/choose) and a lemma. The known race F4 (lineage frame written outside the seq lock) is reported as KNOWN-FINDING.",
  note="Trusted: replay_events returns the source stream in strictly ascending seq order (assumed), stubbed collaborators (create_continuity through the contract proved in c01_cont, EventLog::append, sidecar, broadcast), vstd iterator specs (iter/rev/find/map), String equality axioms, rules R1,R2,R9,R10 (or-pattern arm with guard split). Not decided: that other code leaves the parent's bytes untouched, replay fidelity, HTTP-level validation of selectors.",
  technique="Verus contracts against recursive spec functions with timeless facts and closure contracts on mechanically extracted branch/handoff; native replay enumerator for counterexamples",
  ref="§4 C10"),
 'C13': dict(
  text="Unbounded deductive proof (Verus/Z3) on the five real path resolvers extracted from /repo on every run (builtins::resolve_path, tasks::logs::resolve_path, Workspace::safe_join, Workspace::to_relative, patch::parse_rel_path): whenever a resolver returns Ok, the input was relative and free of parent-directory segments and the resolved path lies lexically inside the workspace root (root's components followed only by normal names), for every path string. Closure contracts on the ParentDir tests are checked against the closure bodies. A failing obligation is replayed against the real std::path on an enumerated domain of path strings to attach a concrete input. Partial: effect-level obligations on the file-system calls of the tools (every fs call receives a resolved path) are not yet under contract.",
  note="Trusted: the lexical model of std::path (Unix semantics: components/is_absolute/join/strip_prefix stubs in prelude/path_model.rs), vstd, rules R1,R2,R4,R8. Not decided: symlinks, walkdir/grep internals, Workspace::apply_patch's own fs calls (closures capturing &mut are rejected by Verus), 'a refused request has no side effect' beyond the resolvers being pure, checkpoint id / session id validation on rewind.",
  technique="Verus contracts over an assumed lexical path model on mechanically extracted resolver functions; closure contracts; native replay for counterexamples",
  ref="§4 C13"),
 'C15': dict(
  text="Unbounded deductive proofs (Verus/Z3) on the real frame mapping and numbering code extracted from /repo on every run: EventFrameMapper::map yields exactly one provider-event frame per parsed SSE event whose payload fields (raw / data / event name / errors) are unchanged per event kind (including the terminal marker and invalid JSON), followed by at most one derived text frame carrying exactly the event's text delta; frames are numbered consecutively and the counter advances by the frame count (emit, emit_provider_event, map). OpenResponsesSsePipe::push_sse_str and ::finish: every mapped frame reaches the sink re-based to the session numbering, in order, none dropped, and the pipe's numbering invariant (mapper counter + offset == session counter) is preserved, so numbering continues without gap from the frames before it - for every sequence of parsed events. Two clauses are BOUNDED stand-ins (not proved): the SSE decoder is chunking-invariant (real SseDecoder::push/finish run natively over all streams of <= 4 lines from 9 SSE line shapes x {LF, CRLF} x {trailing blank line or not}, cut at every byte position and, for short streams, every pair of positions) and end-to-end numbering of the pipe across pushes and finish (real pipe + real mapper, scripted decoder, 3 start seqs x 7^3 scripts x {finish, terminal transport error}).",
  note="Trusted: the mapper contract is used modularly by the pipe unit; stubbed SseDecoder/collector/sink; assumed std contracts for Option::as_deref_mut and Vec::extend (with the axiom that a Vec argument yields its elements in order); output_text_delta as an uninterpreted function of the parsed event; Event/EventKind extracted mechanically with serde attributes dropped; counters far below u64::MAX (explicit precondition); rules R1,R2,R3,R7 (for over &mut Vec rewritten as an index loop). Not decided by proof: decoder line handling and UTF-8 reassembly in push_bytes (bounded / not covered), JSON and schema validation inside parse_event, whole-run text concatenation. Note: emit_transport_error does not preserve the pipe invariant; every caller drops the pipe right after it (checked by reading the call sites, not by contract).",
  technique="Verus contracts with loop invariants on mechanically extracted mapper and pipe; two clauses by bounded native replay, labelled bounded",
  ref="§4 C15"),
 'C16': dict(
  text="Unbounded deductive proof (Verus/Z3) on the real 180-line run_openresponses_agent_loop extracted from /repo on every run: (1) ToolRunner::run carries the precondition permitted(tool name), so 'a tool excluded by the configured tool choice is never executed' is an obligation at both execution sites, discharged from the allows_function test; (2) tool_call_count <= DEFAULT_MAX_TOOL_CALLS is a loop invariant (bounded); (3) after the batch loop the outputs answer the drained calls one by one, by call id, in provider order, and the outer invariant plus the precondition of the follow-up builder show the very next request carries exactly those outputs; (4) in stateless mode the history a request is built from only ever grows. Holds for every provider behaviour (number/order/names of calls, errors) because the stubs are unconstrained. Partial: schema gate and collector JSON parsing are not under contract.",
  note="Trusted: ~40 stub items (provider streaming, tool runner, collector, request builders) with the assumed facts `allows_function == permitted`, `drain_function_calls` returns one provider batch in provider order, `function_call_output_item` answers the given call id; assumed std contracts for Result::unwrap_or_else, Vec::extend, Option::as_deref; rules R3 (async dropped), R4, R9. Not decided: that a request failing schema validation is never sent (stream_openresponses_request), 'executed at most once' across retries inside ToolRunner, sort stability in drain_function_calls.",
  technique="Verus loop invariants with effect-constraint preconditions and timeless facts on the mechanically extracted agent loop",
  ref="§4 C16"),
 'C17': dict(
  text="Unbounded deductive proofs (Verus/Z3) on the real capture and accounting code extracted from /repo on every run. TaskLogWriter::append: the stored file grows by exactly the chunk prefix that fits under the cap, bytes_stored/bytes_total/truncated are updated accordingly and the log reference in the output frame (offset_bytes, bytes) describes consecutive, non-overlapping ranges - for every chunk, cap, prior state and every way the OS splits or interrupts writes. pump_output_stream: every byte read from the process is handed to the writer once, in order, unmodified, for every chunking of the pipe. capture_stream / write_artifact_tail / finalize_artifact (foreground shell): loop invariant over the bytes produced so far - the inline preview is a prefix of the output within its limit; the artifact file and its hasher hold exactly the output prefix up to the cap; the artifact is named hex(sha256(hashed bytes)), bytes == stored, truncated == total > stored. truncate_utf8 (both copies): used <= limits, text decodes exactly the used prefix, a page of well-formed text is cut on a character boundary and decoded strictly (paging reproduces the text), progress on non-empty pages. Partial: task lifecycle ordering is not under contract.",
  note="Trusted: stub contracts of the byte sinks/sources (File::write/write_all with ghost content, AsyncRead::read with ghost `produced`, Sha256, hex::encode), the UTF-8 model (valid/dec/lossy/incomplete with from_utf8/Utf8Error stubs), 64-bit usize, rules R1,R2,R3 (async/await dropped: sequential execution of one task; &mut exclusivity excludes interference),R6 (json! to struct literal),R8,R9; loops with an EINTR-retry arm are proved partially correct only (no decreases). Artifact-prefix clauses hold unless a write to the artifact file failed (then the file is marked poisoned). Not decided: spawn/running/terminal status ordering, cancellation timing, pty pump, read_artifact_range arithmetic.",
  technique="Verus contracts with ghost views on byte sinks/sources and loop invariants on mechanically extracted capture code",
  ref="§4 C17"),
 'C20': dict(
  text="Unbounded deductive proof (Verus/Z3) over the real FrameStore code extracted from /repo on every run: representation invariant (1 <= capacity, len <= capacity) after every operation, exact view equation for push (evict-oldest-then-append), and lookup-by-seq returns a frame carrying exactly the requested seq or nothing, for every capacity, push history (gaps, repeats, any order) and queried seq; all arithmetic/index safety obligations discharged. Partial: the 40-arm TuiState::update fold and the CLI renderers are not under contract.",
  note="Trusted: assumed contracts of VecDeque::is_empty/get (assume_specification), vstd's VecDeque/Option specs, a stub Event with the real field names (only `seq` is read), extraction rules R1/R2, Verus+Z3+rustc. Not decided: TuiState::update, render/summary code, determinism beyond 'no clock/RNG stub is called'.",
  technique="Verus contracts (requires/ensures, type invariant as wf()) on mechanically extracted FrameStore methods",
  ref="§4 C20"),
}

NA = {
 'C02': "post-state of &self/file-system objects ('nothing was written', byte-prefix preservation) cannot be expressed by per-call contracts on this code; read-only capabilities are functions Verus rejects (built-in tuple Clone, filter_map chains)",
 'C03': "behaviour of serde-derive generated code and a hand-written Serialize over serde_json::Value: macro-generated third-party code is invisible to Verus and Kani runs out of memory on Value/BTreeMap drop glue",
 'C05': "crash points between file-system effects need a ghost file system with crash semantics; no contract within reach of Verus/Kani on this code expresses it",
 'C06': "schedule property of subscribe/snapshot vs publish/record; the dedupe logic is an inline closure in async stream combinators that Verus cannot accept and Kani has no thread support",
 'C07': "the lifecycle is the control flow of run_session, which uses a provided Iterator method (rev().find_map) for which this Verus accepts no specification; 'exactly one' also needs obligation-to-call reasoning per-call contracts only approximate",
 'C11': "semaphore exclusion across async tasks and guard lifetime at the side-effects append are not values a contract can name; no thread support in Kani, no permission types on this code in Verus",
 'C18': "inter-process TOCTOU over create_new/read/rename lock files plus unsafe FFI pid liveness: outside per-call contracts",
 'C19': "non-interference (secrecy) over all formatting/error/dump paths; neither tool has information-flow types",
}

def main():
    props = [json.loads(l) for l in open(os.path.join(VERIF, 'properties.jsonl'))]
    checks = []
    na = []
    for p in props:
        pid = p['id']
        if pid in CLAIMED:
            c = CLAIMED[pid]
            checks.append(dict(
                property_id=pid,
                quick_cmd="./check %s --tier quick" % pid,
                thorough_cmd="./check %s --tier thorough" % pid,
                evidence_file="/verif/evidence/%s.json" % pid,
                replay_cmd_template="./check %s --replay {path}" % pid,
                engine="vx",
                level_claimed=dict(category=c.get('category', 'proof'), text=c['text'], design_ref=c['ref']),
                level_note=c['note'],
                technique=c['technique']))
        else:
            na.append(dict(property_id=pid, reason=NA.get(pid, "check not built yet (see DESIGN.md §4 for the plan)")))
    m = dict(
        version=1,
        setup_cmd="true",
        hooks=dict(guard="rip_verif",
                   enable="no hooks: every check extracts function text from /repo's working tree at run time; nothing in /repo is built with a guard",
                   baseline_off_cmd="cd /repo && (cargo nextest run --workspace --no-fail-fast --test-threads 8 --offline || cargo test --workspace --no-fail-fast --offline)",
                   source_commits=[], add_only=True),
        engines=[dict(name="vx", path="/verif/vx", serves_properties=sorted(CLAIMED),
                      kind_free_text="contract-based deductive verification: Python extractor (vx/gen.py) copies the named functions from /repo's working tree, splices requires/ensures/invariants from units/<unit>/unit.rs, Verus 0.2026.09.13 (Z3) discharges every obligation; Kani/CBMC loop-free full-domain harnesses for integer kernels where listed")],
        checks=checks,
        notes="Exit codes of ./check: 0 all obligations discharged; 1 VIOLATION (an obligation discharged on the pinned tree fails); 2 undecided (lost anchor, unsupported construct, resource limit, vacuity probe) - never an alarm. known_findings.txt lists recorded findings and repaired defects.",
        not_applicable=na)
    json.dump(m, open(os.path.join(VERIF, 'MANIFEST.json'), 'w'), indent=1)
    print('claimed', sorted(CLAIMED), 'n/a', [x['property_id'] for x in na])

if __name__ == '__main__':
    main()
