"""Syntactic rules R1..R10 (DESIGN.md §3.1) and annotation splicing (R2, R5).

All anchors are computed on the *original* extracted text; edits are (start, end, text)
regions that never overlap, applied back to front.  Any anchor that cannot be found raises
ExtractError (lost anchor -> exit 2).
"""
import re
from rustsrc import mask, match_bracket, match_angle, skip_ws, ExtractError, IDENT

STD_DERIVES = {'Clone', 'Copy', 'PartialEq', 'Eq', 'Debug', 'Default', 'Hash', 'PartialOrd', 'Ord'}


# ------------------------------------------------------------------------------ R1
def strip_attrs_and_vis(text, keep_derives=True, drop_derives=(), plain=False):
    """Drop doc comments, visibility qualifiers and non-std attributes of an item (applied
    to the whole item text: also to struct fields / enum variants)."""
    m = mask(text)
    edits = []
    # attributes
    for mm in re.finditer(r'#\s*!?\s*\[', m):
        a = mm.start()
        b = match_bracket(m, mm.end() - 1) + 1
        body = text[mm.end():b - 1].strip()
        rep = ''
        dm = re.match(r'derive\s*\((.*)\)\s*$', body, re.S)
        if dm and keep_derives:
            names = [x.strip() for x in dm.group(1).split(',') if x.strip()]
            kept = [x for x in names if x.split('::')[-1] in STD_DERIVES and x.split('::')[-1] not in drop_derives]
            # Debug / Default / Hash / Ord are dropped unless asked: Verus handles Clone/Copy/PartialEq/Eq
            if not plain:
                kept = [x for x in kept if x.split('::')[-1] in ('Clone', 'Copy', 'PartialEq', 'Eq')]
            if kept:
                rep = '#[derive(%s)]' % ', '.join(kept)
        elif re.match(r'(inline|must_use|allow|default)\b', body):
            rep = ''
        edits.append((a, b, rep))
    # doc comments (they are blanked in the mask; find them in the raw text line-wise)
    for mm in re.finditer(r'^[ \t]*(///|//!).*$', text, re.M):
        # make sure it is a comment start, i.e. masked there
        if m[mm.start(1)] == ' ':
            edits.append((mm.start(), mm.end(), ''))
    # visibility
    for mm in re.finditer(r'\bpub\b(\s*\(\s*(crate|super|self|in\s+[^)]*)\s*\))?\s*', m):
        edits.append((mm.start(), mm.end(), ''))
    return apply_edits(text, edits)


def apply_edits(text, edits):
    edits = sorted(edits, key=lambda e: (e[0], e[1]))
    # overlap check
    last_end = -1
    for a, b, _ in edits:
        if a < last_end:
            raise ExtractError('overlapping edits at %d' % a)
        last_end = max(last_end, b)
    out = text
    for a, b, rep in reversed(edits):
        out = out[:a] + rep + out[b:]
    return out


# ------------------------------------------------------------------------------ structure of a fn
class FnShape:
    def __init__(self, text):
        self.text = text
        self.m = m = mask(text)
        mm = None
        for cand in re.finditer(r'\bfn\s+(%s)' % IDENT, m):
            mm = cand
            break
        if not mm:
            raise ExtractError('no fn keyword in extracted text')
        self.kw = mm.start()
        self.name = mm.group(1)
        self.name_span = (mm.start(1), mm.end(1))
        i = skip_ws(m, mm.end())
        if m[i] == '<':
            i = skip_ws(m, match_angle(m, i) + 1)
        if m[i] != '(':
            raise ExtractError('fn %s: no parameter list' % self.name)
        self.popen = i
        self.pclose = match_bracket(m, i)
        j = self.pclose + 1
        self.ret_span = None
        self.where_idx = None
        n = len(m)
        k = skip_ws(m, j)
        if m.startswith('->', k):
            rs = skip_ws(m, k + 2)
            # return type ends at top-level `where` or `{`
            e = rs
            while e < n:
                c = m[e]
                if c == '{':
                    break
                if c in '([':
                    e = match_bracket(m, e)
                elif c == '<':
                    e = match_angle(m, e)
                elif re.match(r'\bwhere\b', m[e:e + 6]) and not (m[e - 1].isalnum() or m[e - 1] == '_'):
                    break
                e += 1
            re_end = e
            while re_end > rs and m[re_end - 1].isspace():
                re_end -= 1
            self.ret_span = (rs, re_end)
            j = e
        while j < n and m[j] != '{':
            if m[j] in '([':
                j = match_bracket(m, j)
            elif m[j] == '<':
                try:
                    j = match_angle(m, j)
                except ExtractError:
                    pass
            j += 1
        self.bopen = j
        self.bclose = match_bracket(m, j)
        self.loops = self._find_loops()
        self.closures = self._find_closures()

    # ---- loops
    def _find_loops(self):
        m = self.m
        loops = []
        for mm in re.finditer(r'(?<![A-Za-z0-9_.])(for|while|loop)\b', m):
            a = mm.start()
            if not (self.bopen < a < self.bclose):
                continue
            kw = mm.group(1)
            i = mm.end()
            if kw == 'for' and m[skip_ws(m, i)] == '<':
                continue  # for<'a> ...
            # body brace: first '{' at depth 0
            j = i
            n = len(m)
            in_idx = None
            while j < n:
                c = m[j]
                if c == '{':
                    break
                if c in '([':
                    j = match_bracket(m, j)
                elif c == ';' or c == '}':
                    j = None
                    break
                elif kw == 'for' and in_idx is None and re.match(r'\bin\b', m[j:j + 3]) and not (m[j - 1].isalnum() or m[j - 1] == '_'):
                    in_idx = j
                j += 1
            if j is None or j >= n:
                continue
            if kw == 'for' and in_idx is None:
                continue
            # label `'outer: ` before keyword
            start = a
            lm = re.search(r"'%s\s*:\s*$" % IDENT, m[max(0, a - 40):a])
            if lm:
                start = max(0, a - 40) + lm.start()
            loops.append(dict(kw=kw, start=start, kw_idx=a, hdr_end=i, in_idx=in_idx,
                              open=j, close=match_bracket(m, j)))
        return loops

    # ---- closures
    def _find_closures(self):
        m = self.m
        res = []
        i = self.bopen + 1
        end = self.bclose
        while i < end:
            if m[i] != '|':
                i += 1
                continue
            # previous significant token
            p = i - 1
            while p >= 0 and m[p].isspace():
                p -= 1
            prev = m[p] if p >= 0 else ''
            prev2 = m[p - 1:p + 1] if p >= 1 else ''
            word = re.search(r'(%s)$' % IDENT, m[max(0, p - 20):p + 1])
            word = word.group(1) if word else ''
            is_start = prev in '(,={;[!' or prev2 == '=>' or word in ('move', 'return', 'else', 'in')
            if prev2 in ('==', '!=', '<=', '>=') and prev == '=':
                is_start = False
            if m[i:i + 2] == '||' and not is_start:
                i += 2
                continue
            if not is_start:
                i += 1
                continue
            cstart = i
            if word == 'move':
                cstart = max(0, p - 20) + re.search(r'(%s)$' % IDENT, m[max(0, p - 20):p + 1]).start()
            if m[i:i + 2] == '||':
                pa, pb = i + 1, i + 1
                after = i + 2
            else:
                # find closing '|' at depth 0
                j = i + 1
                while j < end and m[j] != '|':
                    if m[j] in '([{':
                        j = match_bracket(m, j)
                    elif m[j] == '<':
                        try:
                            j = match_angle(m, j)
                        except ExtractError:
                            pass
                    j += 1
                pa, pb = i + 1, j
                after = j + 1
            k = skip_ws(m, after)
            has_ret = m.startswith('->', k)
            if has_ret:
                # explicit return type: body must be a block
                b = k
                while m[b] != '{':
                    b += 1
                k = b
            if m[k] == '{':
                bs, be, block = k, match_bracket(m, k) + 1, True
            else:
                j = k
                while j < end:
                    c = m[j]
                    if c in '([{':
                        j = match_bracket(m, j)
                    elif c in ',;)]}':
                        break
                    elif c == '<' and m[j - 2:j] == '::':
                        j = match_angle(m, j)
                    j += 1
                bs, be, block = k, j, False
                while be > bs and m[be - 1].isspace():
                    be -= 1
            res.append(dict(start=cstart, bar=i, params=(pa, pb), body=(bs, be), block=block, has_ret=has_ret))
            i = after  # nested closures inside the body are found too
        return res

    def stmt_end_after(self, idx):
        """Index just after the statement that contains position idx: after its `;`, or after the
        closing brace of a block-like statement (`if c { .. } else { .. }`, `match`, `while`)."""
        m = self.m
        j = idx
        n = len(m)
        while j < n:
            c = m[j]
            if c in '([':
                j = match_bracket(m, j)
            elif c == '{':
                j = match_bracket(m, j)
                k = skip_ws(m, j + 1)
                if m.startswith('else', k):
                    j = k + 4
                    continue
                if k < n and m[k] in '.?':
                    j = k
                    continue
                if k < n and m[k] == ';':
                    return k + 1
                return j + 1
            elif c == ';':
                return j + 1
            elif c == '}':
                raise ExtractError('closure is in a tail expression: no statement end to anchor after')
            j += 1
        raise ExtractError('no statement end after %d' % idx)


# ------------------------------------------------------------------------------ R7
def for_to_while(sh, lp, ordinal, inv_text, body_prefix):
    """Rewrite `for P in E {` as an index loop (only slice / Vec iteration forms)."""
    t = sh.text
    pat = t[lp['hdr_end']:lp['in_idx']].strip()
    expr = t[lp['in_idx'] + 2:lp['open']].strip()
    s = '__s%d' % ordinal
    i = '__i%d' % ordinal
    if expr.startswith('&mut '):
        # mutable iteration over a Vec: `for P in &mut E { b }` ==> index loop with `let P = &mut E[i]`
        base_m = _paren(expr[5:].strip())
        label = t[lp['start']:lp['kw_idx']]
        return 'let mut %s: usize = 0; %swhile %s < %s.len() %s { let %s = &mut %s[%s]; %s += 1; %s' % (
            i, label, i, base_m, inv_text, pat, base_m, i, i, body_prefix)
    rev = False
    enum = False
    pre = ''
    e = expr
    mm = re.match(r'^([A-Za-z0-9_.]+)\s*\.\.\s*([A-Za-z0-9_.]+)$', e)
    if mm:
        # a half-open range of integers: `for P in A..B { b }` ==> `let e = B; let mut i = A; while i < e { let P = i; i += 1; b }`
        label = t[lp['start']:lp['kw_idx']]
        return 'let __e%d = %s; let mut %s = %s; %swhile %s < __e%d %s { let %s = %s; %s += 1; %s' % (
            ordinal, mm.group(2), i, mm.group(1), label, i, ordinal, inv_text, pat, i, i, body_prefix)
    mm = re.match(r'^(.*)\.iter\(\)\.rev\(\)$', e, re.S)
    if mm:
        rev, base = True, '&' + _paren(mm.group(1))
    else:
        mm = re.match(r'^(.*)\.iter\(\)\.enumerate\(\)$', e, re.S)
        if mm:
            enum, base = True, '&' + _paren(mm.group(1))
        else:
            mm = re.match(r'^(.*)\.iter\(\)$', e, re.S)
            if mm:
                base = '&' + _paren(mm.group(1))
            elif e.startswith('&') and not e.startswith('&mut'):
                base = e
            elif re.match(r'^[A-Za-z_][A-Za-z0-9_.]*$', e):
                base = e          # a plain place expression: must already be a reference to a slice / Vec (type-checked by `: &[_]`)
            elif re.match(r'^[A-Za-z_][A-Za-z0-9_.]*\(\)$', e):
                # a call without arguments yielding an owned collection (the stub's return type is a Vec): bind it, iterate by reference
                owned = '__o%d' % ordinal
                pre = 'let %s = %s; ' % (owned, e)
                base = '&' + owned
            else:
                raise ExtractError('R7: unsupported iteration expression %r' % expr)
    label = t[lp['start']:lp['kw_idx']]
    if rev:
        head = 'let %s: &[_] = %s; let mut %s: usize = %s.len(); %swhile %s > 0 %s { %s -= 1; let %s = &%s[%s]; %s' % (
            s, base, i, s, label, i, inv_text, i, pat, s, i, body_prefix)
    elif enum:
        pm = re.match(r'^\(\s*(%s)\s*,\s*(.*)\)$' % IDENT, pat, re.S)
        if not pm:
            raise ExtractError('R7: enumerate pattern %r' % pat)
        head = 'let %s: &[_] = %s; let mut %s: usize = 0; %swhile %s < %s.len() %s { let %s = %s; let %s = &%s[%s]; %s += 1; %s' % (
            s, base, i, label, i, s, inv_text, pm.group(1), i, pm.group(2), s, i, i, body_prefix)
    else:
        head = 'let %s: &[_] = %s; let mut %s: usize = 0; %swhile %s < %s.len() %s { let %s = &%s[%s]; %s += 1; %s' % (
            s, base, i, label, i, s, inv_text, pat, s, i, i, body_prefix)
    return pre + head


def _paren(e):
    e = e.strip()
    return e if re.match(r'^[A-Za-z0-9_.]+$', e) else '(' + e + ')'


# ------------------------------------------------------------------------------ R4
def closure_param_rewrite(sh, cl, ordinal):
    """Return (new_params_text, prologue) or (None, '') if no rewrite is needed."""
    t = sh.text
    pa, pb = cl['params']
    ptxt = t[pa:pb]
    if not ptxt.strip():
        return None, ''
    parts = _split_top(ptxt)
    new = []
    pro = []
    changed = False
    for n, p in enumerate(parts):
        ps = p.strip()
        ty = ''
        tm = _split_type(ps)
        if tm:
            ps, ty = tm
        if re.match(r'^(mut\s+)?%s$' % IDENT, ps) and ps != '_':
            new.append(p.strip())
            continue
        changed = True
        v = '__p%d_%d' % (ordinal, n)
        new.append(v + ((': ' + ty) if ty else ''))
        if ps == '_' or re.match(r'^_%s$' % IDENT, ps):
            if ps != '_':
                pro.append('let %s = %s;' % (ps, v))
        elif ps.startswith('&'):
            inner = ps[1:].strip()
            pro.append('let %s = *%s;' % (inner, v))
        else:
            pro.append('let %s = %s;' % (ps, v))
    if not changed:
        return None, ''
    return ', '.join(new), ' '.join(pro)


def _split_top(s):
    m = mask(s)
    parts = []
    depth = 0
    last = 0
    i = 0
    while i < len(m):
        c = m[i]
        if c in '([{':
            i = match_bracket(m, i)
        elif c == '<':
            try:
                i = match_angle(m, i)
            except ExtractError:
                pass
        elif c == ',':
            parts.append(s[last:i])
            last = i + 1
        i += 1
    if s[last:].strip():
        parts.append(s[last:])
    return parts


def _split_type(p):
    m = mask(p)
    i = 0
    while i < len(m):
        c = m[i]
        if c in '([{':
            i = match_bracket(m, i)
        elif c == ':' and m[i:i + 2] != '::' and (i == 0 or m[i - 1] != ':'):
            return p[:i].strip(), p[i + 1:].strip()
        i += 1
    return None


# ------------------------------------------------------------------------------ macros (R6, R9)
def macro_calls(sh, name):
    m = sh.m
    res = []
    for mm in re.finditer(r'(?<![A-Za-z0-9_])((?:[A-Za-z_][A-Za-z0-9_]*::)*%s)\s*!\s*([\(\[\{])' % re.escape(name), m):
        a = mm.start()
        if not (sh.bopen < a < sh.bclose):
            continue
        o = mm.end() - 1
        c = match_bracket(m, o)
        res.append((a, o, c + 1))
    # drop nested occurrences (inside another returned region)
    res.sort()
    out = []
    for r in res:
        if out and r[0] < out[-1][2]:
            continue
        out.append(r)
    return out


def json_to_struct(text):
    """R6: `json!({ "k": e, ... })` (one flat object) => `Value { k: vj(&(e)), ... }`."""
    m = mask(text)
    o = text.index('{')
    c = match_bracket(m, o)
    inner = text[o + 1:c]
    parts = _split_top(inner)
    fields = []
    for p in parts:
        pm = re.match(r'\s*"([A-Za-z0-9_]+)"\s*:\s*(.*)$', p, re.S)
        if not pm:
            raise ExtractError('R6: unsupported json! entry %r' % p[:40])
        fields.append('%s: vj(&(%s))' % (pm.group(1), pm.group(2).strip()))
    return 'Value { ' + ', '.join(fields) + ' }'


def json_to_opaque(text):
    m = mask(text)
    o = text.index('{')
    c = match_bracket(m, o)
    parts = _split_top(text[o + 1:c])
    out = 'jnil()'
    for p in reversed(parts):
        pm = re.match(r'\s*"([A-Za-z0-9_]+)"\s*:\s*(.*)$', p, re.S)
        if not pm:
            raise ExtractError('R6o: unsupported json! entry %r' % p[:40])
        val = pm.group(2).strip()
        if val.startswith('{') and re.match(r'\{\s*"', val):
            val = json_to_opaque(val)          # a nested object literal: its members are evaluated the same way
        out = 'jcons(vj(&(%s)), %s)' % (val, out)
    return out


# ------------------------------------------------------------------------------ driver
def transform_fn(text, spec):
    """spec: dict with keys
       rules: set of rule names (R1 always on)
       sig: str | None       entry: str | None
       loops: {n: dict(inv=str, iter=name|None)}   loopbody: {n: str}   afterloop: {n: str}
       closures: {n: str}    afterclosure: {n: str}
       rename: str | None    r7: set of loop ordinals to rewrite (or 'auto')
    Returns transformed text."""
    rules = spec.get('rules', set())
    text = strip_attrs_and_vis(text, plain=bool(spec.get('plain')))
    sh = FnShape(text)
    t, m = sh.text, sh.m
    edits = []
    await_edits = []      # R3 `.await` removals; one that lies inside the source text of an R11 rewrite is dropped (the rewrite wins)
    r11_spans = []

    # rename
    if spec.get('rename'):
        edits.append((sh.name_span[0], sh.name_span[1], spec['rename']))

    # R3
    if 'R3' in rules:
        am = re.search(r'\basync\s+$', m[:sh.kw])
        if am:
            edits.append((am.start(), sh.kw, ''))
        for mm in re.finditer(r'\s*\.\s*await\b', m):
            if sh.bopen < mm.start() < sh.bclose:
                await_edits.append((mm.start(), mm.end(), ''))

    # R1 (const lifetime): a function-local `const X: &str = ..` needs its elided lifetime spelled out for Verus
    if not spec.get('plain'):
        for mm in re.finditer(r'\bconst\s+[A-Za-z_][A-Za-z0-9_]*\s*:\s*(&)\s*str\b', m):
            if sh.bopen < mm.start() < sh.bclose:
                edits.append((mm.end(1), mm.end(1), "'static "))

    # R2: named return + contract
    sig = spec.get('sig') or ''
    retname = spec.get('retname', 'ret')
    if sh.ret_span and not spec.get('plain'):
        a, b = sh.ret_span
        rt = t[a:b]
        if not rt.strip().startswith('impl '):
            # two insertions (not a replacement), so that aliases may still rewrite paths inside the return type
            lead = len(rt) - len(rt.lstrip())
            edits.append((a + lead, a + lead, '(%s: ' % retname))
            edits.append((a + len(rt.rstrip()), a + len(rt.rstrip()), ')'))
    if sig.strip():
        edits.append((sh.bopen, sh.bopen, '\n' + sig.rstrip() + '\n'))
    entry = spec.get('entry')
    if entry:
        edits.append((sh.bopen + 1, sh.bopen + 1, '\n' + entry.rstrip() + '\n'))
    if spec.get('noreturn'):
        body_m = m[sh.bopen:sh.bclose]
        if re.search(r'\breturn\b', body_m) or re.search(r'\?\s*[;)\n]', body_m):
            raise ExtractError('fn %s: an early exit (`return` or `?`) appeared; the obligation at the end of the function would not cover it' % sh.name)
    if spec.get('fnend'):
        edits.append((sh.bclose, sh.bclose, '\n' + spec['fnend'].rstrip() + '\n'))
    tail = spec.get('tail')
    if tail:
        # before the tail expression: after the last `;` at the top level of the body
        j = sh.bopen + 1
        last = sh.bopen + 1
        while j < sh.bclose:
            c = m[j]
            if c in '([{':
                j = match_bracket(m, j)
            elif c == ';':
                last = j + 1
            j += 1
        edits.append((last, last, '\n' + tail.rstrip() + '\n'))

    # before the n-th `continue` / `break` / `return` keyword of the body
    for (kw, n), txt in spec.get('before', {}).items():
        occ = [mm.start() for mm in re.finditer(r'(?<![A-Za-z0-9_])%s\b' % kw, m) if sh.bopen < mm.start() < sh.bclose]
        if n >= len(occ):
            raise ExtractError('fn %s: %s ordinal %d not found (has %d)' % (sh.name, kw, n, len(occ)))
        # only statement position is supported: the keyword must start a statement
        p_ = occ[n] - 1
        while p_ >= 0 and m[p_].isspace():
            p_ -= 1
        if m[p_] not in '{};':
            raise ExtractError('fn %s: %s #%d is not in statement position' % (sh.name, kw, n))
        edits.append((occ[n], occ[n], txt.rstrip() + '\n'))

    # loops
    lspec = spec.get('loops', {})
    lbody = spec.get('loopbody', {})
    lafter = spec.get('afterloop', {})
    r7 = spec.get('r7', set())
    for n in list(lspec) + list(lbody) + list(lafter) + list(r7) + list(spec.get('r7v', set())) + list(spec.get('loopend', {})):
        if n >= len(sh.loops):
            raise ExtractError('fn %s: loop ordinal %d not found (has %d loops)' % (sh.name, n, len(sh.loops)))
    for n, lp in enumerate(sh.loops):
        ls = lspec.get(n, {})
        inv = (ls.get('inv') or '').rstrip()
        bp = (lbody.get(n) or '').rstrip()
        do_r7 = n in r7
        if n in spec.get('r7v', set()):
            # R7 (by value): `for P in E { b }` over an owned Vec ==> the Vec is reversed and popped:
            #   let mut __vN = E; let ghost __gN = __vN@; __vN.reverse(); while __vN.len() > 0 { let P = __vN.pop().unwrap(); b }
            # (the elements are visited in the same order and moved out one by one; `continue` becomes legal)
            if lp['kw'] != 'for':
                raise ExtractError('R7 on non-for loop %d' % n)
            t0 = sh.text
            pat = t0[lp['hdr_end']:lp['in_idx']].strip()
            expr = t0[lp['in_idx'] + 2:lp['open']].strip()
            if not re.match(r'^[A-Za-z_][A-Za-z0-9_.]*$', expr):
                raise ExtractError('R7 (by value): unsupported iteration expression %r' % expr)
            label = t0[lp['start']:lp['kw_idx']]
            head = 'let mut __v%d = %s; let ghost __g%d = __v%d@; __v%d.reverse(); %swhile __v%d.len() > 0 %s { let %s = __v%d.pop().unwrap(); %s' % (
                n, expr, n, n, n, label, n, ('\n' + inv + '\n') if inv else '', pat, n, ('\n' + bp + '\n') if bp else '')
            edits.append((lp['start'], lp['open'] + 1, head))
        elif do_r7:
            if lp['kw'] != 'for':
                raise ExtractError('R7 on non-for loop %d' % n)
            head = for_to_while(sh, lp, n, ('\n' + inv + '\n') if inv else '', ('\n' + bp + '\n') if bp else '')
            edits.append((lp['start'], lp['open'] + 1, head))
        else:
            if lp['kw'] == 'for' and ls.get('iter'):
                edits.append((lp['in_idx'] + 2, lp['in_idx'] + 2, ' %s:' % ls['iter']))
            if inv:
                edits.append((lp['open'], lp['open'], '\n' + inv + '\n'))
            if bp:
                edits.append((lp['open'] + 1, lp['open'] + 1, '\n' + bp + '\n'))
        if n in spec.get('loopend', {}):
            edits.append((lp['close'], lp['close'], '\n' + spec['loopend'][n].rstrip() + '\n'))
        if n in lafter:
            edits.append((lp['close'] + 1, lp['close'] + 1, '\n' + lafter[n].rstrip() + '\n'))

    # closures
    cspec = spec.get('closures', {})
    cafter = spec.get('afterclosure', {})
    for n in list(cspec) + list(cafter):
        if n >= len(sh.closures):
            if len(sh.closures) == 0:
                continue      # the function has no closure any more: a contract for one has nothing to attach to and nothing to say
            raise ExtractError('fn %s: closure ordinal %d not found (has %d closures)' % (sh.name, n, len(sh.closures)))
    for n, cl in enumerate(sh.closures):
        contract = (cspec.get(n) or '').strip()
        newp, pro = (None, '')
        if 'R4' in rules:
            newp, pro = closure_param_rewrite(sh, cl, n)
        bs, be = cl['body']
        if newp is not None:
            edits.append((cl['params'][0], cl['params'][1], newp))
        if contract and cl['has_ret'] and contract.lstrip().startswith('->'):
            raise ExtractError('closure %d already has a return type' % n)
        if cl['block']:
            if contract:
                edits.append((bs, bs, ' ' + contract + ' '))
            if pro:
                edits.append((bs + 1, bs + 1, ' ' + pro + ' '))
        else:
            if contract or pro:
                edits.append((bs, bs, (contract + ' ' if contract else '') + '{ ' + pro + ' '))
                edits.append((be, be, ' }'))
        if n in cafter:
            e = sh.stmt_end_after(cl['body'][1])
            edits.append((e, e, '\n' + cafter[n].rstrip() + '\n'))

    # R9
    if 'R9' in rules:
        for a, o, c in macro_calls(sh, 'format'):
            edits.append((a, c, 'vfmt()'))
    # R6
    if 'R6' in rules:
        for a, o, c in macro_calls(sh, 'json'):
            edits.append((a, c, json_to_struct(t[o:c])))
    # R6o: json!({ "k": e, ... }) => jcons(vj(&(e)), ... jnil()) : an opaque JSON value that still evaluates every member expression
    if 'R6o' in rules:
        for a, o, c in macro_calls(sh, 'json'):
            edits.append((a, c, json_to_opaque(t[o:c])))
    for key, val in spec.get('macros', {}).items():
        for a, o, c in macro_calls(sh, key):
            edits.append((a, c, val))

    # R8 aliases: a fully-qualified spelling is rebound to the stub name (path tokens only)
    for src, dst in spec.get('aliases', {}).items():
        for mm in re.finditer(r'(?<![A-Za-z0-9_:])%s(?![A-Za-z0-9_])' % re.escape(src), m):
            if sh.bopen < mm.start() < sh.bclose or sh.popen < mm.start() < sh.bopen:
                edits.append((mm.start(), mm.end(), dst))

    # R11 exact textual rewrites (inside the body only); an absent source text is a lost anchor
    opt_from = {a for a, _ in spec.get('rewrites_opt', [])}
    for frm, to in list(spec.get('rewrites', [])) + list(spec.get('rewrites_opt', [])):
        if frm in opt_from and '{id}' not in frm and t.find(frm, sh.bopen) < 0:
            continue        # `rewrite?`: nothing to do when the text does not occur
        if '{id}' in frm or '.' in frm or ' ' in frm:
            # `{id}` stands for one identifier (so that a renamed receiver does not lose the anchor)
            # method chains may be broken over lines and re-indented: white space is flexible between the tokens of the source text
            rx = re.compile(r'\s*'.join(re.escape(tok).replace(re.escape('{id}'), r'([A-Za-z_][A-Za-z0-9_]*)').replace(r'\.', r'\s*\.\s*')
                                         for tok in frm.split()))
            lo = sh.popen if frm.startswith('&') or frm.startswith('impl ') or '<' in frm else sh.bopen      # type texts may sit in the parameter list or be the return type
            hits = [mm for mm in rx.finditer(t) if lo < mm.start() < sh.bclose]
            if not hits and frm in opt_from:
                continue
            if not hits:
                raise ExtractError('R11: text to rewrite not found: %s' % frm)
            for mm in hits:
                edits.append((mm.start(), mm.end(), to.replace('{id}', mm.group(1)) if '{id}' in frm else to))
                r11_spans.append((mm.start(), mm.end()))
            continue
        start_at = sh.popen if frm.startswith('&') or frm.startswith('impl ') or '<' in frm else sh.bopen      # type texts may sit in the parameter list or be the return type
        pos = t.find(frm, start_at)
        if pos < 0 or pos > sh.bclose:
            raise ExtractError('R11: text to rewrite not found: %s' % frm)
        while 0 <= pos < sh.bclose:
            edits.append((pos, pos + len(frm), to))
            r11_spans.append((pos, pos + len(frm)))
            pos = t.find(frm, pos + len(frm))
    edits.extend(e for e in await_edits if not any(a < e[1] and e[0] < b for a, b in r11_spans))

    # R10
    if 'R10' in rules:
        edits.extend(split_guarded_or_arms(sh))

    return apply_edits(t, edits), sh


def split_guarded_or_arms(sh):
    """R10: `P1 | P2 if g => b` ==> `P1 if g => b, P2 if g => b` (match arms only).  The arm is
    located by a ` if ` guard following a top-level `|` pattern; bodies must end with ',' or be blocks."""
    m, t = sh.m, sh.text
    edits = []
    for mm in re.finditer(r'\bmatch\b', m):
        if not (sh.bopen < mm.start() < sh.bclose):
            continue
        j = mm.end()
        while m[j] != '{':
            if m[j] in '([':
                j = match_bracket(m, j)
            j += 1
        o, c = j, match_bracket(m, j)
        # iterate arms
        i = o + 1
        while i < c:
            i = skip_ws(m, i)
            if i >= c:
                break
            arm_start = i
            # pattern (+ guard) up to '=>' at depth 0
            k = i
            while k < c and m[k:k + 2] != '=>':
                if m[k] in '([{':
                    k = match_bracket(m, k)
                k += 1
            head = (arm_start, k)
            b = skip_ws(m, k + 2)
            if m[b] == '{':
                be = match_bracket(m, b) + 1
                nxt = skip_ws(m, be)
                if nxt < c and m[nxt] == ',':
                    nxt += 1
            else:
                e = b
                while e < c and m[e] != ',':
                    if m[e] in '([{':
                        e = match_bracket(m, e)
                    e += 1
                be = e
                nxt = e + 1
            htxt = t[head[0]:head[1]]
            hm = mask(htxt)
            gm = None
            # top-level ' if '
            d = 0
            q = 0
            while q < len(hm):
                if hm[q] in '([{':
                    q = match_bracket(hm, q)
                elif re.match(r'\bif\b', hm[q:q + 2]) and q > 0 and hm[q - 1].isspace():
                    gm = q
                    break
                q += 1
            if gm is not None:
                pat = htxt[:gm]
                guard = htxt[gm:]
                alts = []
                pmask = mask(pat)
                last = 0
                q = 0
                while q < len(pmask):
                    if pmask[q] in '([{':
                        q = match_bracket(pmask, q)
                    elif pmask[q] == '|':
                        alts.append(pat[last:q])
                        last = q + 1
                    q += 1
                alts.append(pat[last:])
                if len(alts) > 1:
                    body = t[b:be]
                    new = ',\n'.join('%s %s => %s' % (a.strip(), guard.strip(), body) for a in alts)
                    edits.append((arm_start, be, new))
            i = nxt
    return edits
