"""Template -> generated Verus file.

A unit is /verif/units/<unit>/unit.rs: a Verus source file with `//@@` directives that are
replaced, on every run, by text extracted from /repo's working tree (see DESIGN.md §3.1).
"""
import hashlib
import os
import re
from rustsrc import RustFile, ExtractError, mask
import transform

VERIF = os.path.dirname(os.path.dirname(os.path.abspath(__file__)))
REPO = os.environ.get('RIP_REPO', '/repo')

_file_cache = {}


def load(rel):
    p = os.path.join(REPO, rel)
    if p not in _file_cache:
        try:
            with open(p, encoding='utf-8') as f:
                _file_cache[p] = RustFile(rel, f.read())
        except OSError as e:
            raise ExtractError('cannot read %s: %s' % (rel, e))
    return _file_cache[p]


class FnRec:
    def __init__(self):
        self.qual = None
        self.file = None
        self.sha = None
        self.lets = []
        self.renamed = None
        self.raw = None
        self.gen_lines = None  # (first, last) 1-based in generated file
        self.rules = []
        self.has_contract = False
        self.mustfail = True
        self.n_loops = 0
        self.n_closures = 0


class Generated:
    def __init__(self):
        self.text = ''
        self.fns = []
        self.items = []
        self.properties = []
        self.unit = None
        self.rules_used = set()
        self.opts = {}
        self.auto_stubbed = []
        self.missing_fns = []


def parse_opts(words):
    o = {}
    for w in words:
        if '=' in w:
            k, v = w.split('=', 1)
            o[k] = v
        else:
            o[w] = True
    return o


def add_ensures_false(sig):
    m = mask(sig)
    mm = None
    for cand in re.finditer(r'\bensures\b', m):
        mm = cand
        break
    if mm:
        return sig[:mm.end()] + ' false, ' + sig[mm.end():]
    dm = re.search(r'\b(decreases|no_unwind|opens_invariants)\b', m)
    if dm:
        head = sig[:dm.start()].rstrip()
        if head and not head.endswith(','):
            head += ','
        return head + '\n    ensures false,\n    ' + sig[dm.start():]
    head = sig.rstrip()
    if head and not head.endswith(','):
        head += ','
    return head + '\n    ensures false,\n'


def generate(unit_dir, mustfail=False, mutate=None, variant=None, template='unit.rs', plain=False, auto_stubs=None):
    """mutate: (qual, find, replace) applied to the raw extracted text of that fn.
    variant: name of a scenario variant; lines between `//@@ variant <name>` and
    `//@@ endvariant` are kept only for that variant (lines under `//@@ variant default`
    only when variant is None)."""
    tpath = os.path.join(unit_dir, template)
    with open(tpath, encoding='utf-8') as f:
        lines = f.read().split('\n')
    lines = expand_includes(lines)
    FORBID[0] = None
    del FORBIDDEN_HIT[:]
    for l in lines[:3]:
        if l.startswith('//@@ unit '):
            FORBID[0] = parse_opts(l.split()[3:]).get('forbid')
    g = Generated()
    out = []
    i = 0
    n = len(lines)
    mutated = False
    top_free = []
    active_variant = None
    while i < n:
        line = lines[i]
        s = line.strip()
        if s.startswith('//@@ variant '):
            active_variant = s.split()[2]
            i += 1
            continue
        if s == '//@@ endvariant':
            active_variant = None
            i += 1
            continue
        if active_variant is not None:
            want = variant if variant is not None else 'default'
            if active_variant != want:
                i += 1
                continue
        if not s.startswith('//@@'):
            out.append(line)
            i += 1
            continue
        words = s.split()[1:]
        if not words:
            i += 1
            continue
        cmd = words[0]
        if cmd == 'unit':
            g.unit = words[1]
            o = parse_opts(words[2:])
            g.properties = o.get('properties', '').split(',') if o.get('properties') else []
            g.opts = o
            i += 1
        elif cmd == 'file':
            # whole source file (replay programs only): the test module is cut off, the rest is verbatim
            rel = words[1]
            o = parse_opts(words[2:])
            rf = load(rel)
            txt = rf.text
            mm = re.search(r'^#\[cfg\(test\)\]\s*\nmod tests \{', txt, re.M)
            if mm:
                txt = txt[:mm.start()]
            if o.get('mod'):
                # uses=a,b: names of the generated root made visible inside the module (stand-ins for extern crates)
                pre = ''.join('use super::%s; ' % n for n in o.get('uses', '').split(',') if n)
                txt = 'pub mod %s {\n%s\n%s\n}' % (o['mod'], pre, txt)
            out.extend(txt.split('\n'))
            g.items.append(dict(file=rel, kind='file', name=rel, sha=hashlib.sha256(txt.encode()).hexdigest()[:16], gen_lines=(0, 0)))
            i += 1
        elif cmd == 'forbidstub':
            # a writer this unit's functions must never reach: its real signature, stubbed with `requires false`
            rel, qual = words[1], words[2]
            st = dict(kind='method', file=rel, qual=qual)
            save = FORBID[0]
            FORBID[0] = '.*'
            try:
                stxt = stub_text(st, plain)
            finally:
                FORBID[0] = save
            indent = line[:len(line) - len(line.lstrip())]
            out.extend((indent + l if l.strip() else l) for l in stxt.split('\n'))
            g.auto_stubbed.append(qual)
            i += 1
        elif cmd == 'enum_samples':
            # replay programs only: one value per variant of an enum, fields filled by the template's `Sample` trait
            rel, name = words[1], words[2]
            o = parse_opts(words[3:])
            rf = load(rel)
            a, kw, b = rf.find_item('enum', name)
            raw = rf.text[a:b]
            m = mask(raw)
            from rustsrc import match_bracket
            ob = m.index('{', m.index(name))
            cb = match_bracket(m, ob)
            body, mbody = raw[ob + 1:cb], m[ob + 1:cb]
            vals, i2, depth = [], 0, 0
            # split variants at top-level commas
            parts, start = [], 0
            while i2 < len(mbody):
                ch = mbody[i2]
                if ch in '{([':
                    i2 = match_bracket(mbody, i2)
                elif ch == ',':
                    parts.append(body[start:i2]); start = i2 + 1
                i2 += 1
            parts.append(body[start:])
            for part in parts:
                t = re.sub(r'#\[[^\]]*\]', '', re.sub(r'//[^\n]*', '', part)).strip()
                if not t:
                    continue
                vm = re.match(r'(\w+)\s*(\{(.*)\})?\s*$', t, re.S)
                if not vm:
                    raise ExtractError('enum_samples: unsupported variant shape in %s: %s' % (name, t[:40]))
                if vm.group(2) is None:
                    vals.append('%s::%s' % (name, vm.group(1)))
                else:
                    fields = re.findall(r'(?:^|,)\s*(?:pub\s+)?(\w+)\s*:', re.sub(r'<[^<>]*(?:<[^<>]*>[^<>]*)*>', '', vm.group(3)))
                    vals.append('%s::%s { %s }' % (name, vm.group(1), ', '.join('%s: Sample::sample(k, "%s")' % (f, f) for f in fields)))
            out.append('pub fn %s(k: usize) -> Vec<%s> { vec![' % (o.get('fn', 'samples'), name))
            out.extend('    %s,' % v for v in vals)
            out.append('] }')
            g.items.append(dict(file=rel, kind='enum_samples', name=name, sha=hashlib.sha256(raw.encode()).hexdigest()[:16], gen_lines=(0, 0)))
            i += 1
        elif cmd == 'item':
            rel, kind, name = words[1], words[2], words[3]
            o = parse_opts(words[4:])
            rf = load(rel)
            a, kw, b = rf.find_item(kind, name)
            raw = rf.text[a:b]
            drop = tuple(o['dropderive'].split(',')) if o.get('dropderive') else ()
            txt = transform.strip_attrs_and_vis(raw, drop_derives=drop, plain=plain)
            if kind == 'const' and not plain:
                txt = re.sub(r':\s*&\s*str\b', ": &'static str", txt, count=1)      # R1: a const's elided lifetime is spelled out for Verus
            txt = publicize(txt, kind)
            if o.get('derive'):
                txt = '#[derive(%s)]\n' % o['derive'].replace(',', ', ') + re.sub(r'#\[derive\([^)]*\)\]\s*', '', txt)
            if o.get('rename'):
                txt = re.sub(r'\b%s\b' % re.escape(name), o['rename'], txt, count=1)
            indent = line[:len(line) - len(line.lstrip())]
            first = len(out) + 1
            out.extend((indent + l if l.strip() else l) for l in txt.split('\n'))
            g.items.append(dict(file=rel, kind=kind, name=name, sha=hashlib.sha256(raw.encode()).hexdigest()[:16],
                                gen_lines=(first, len(out))))
            g.rules_used.add('R1')
            i += 1
        elif cmd == 'fn':
            rel, qual = words[1], words[2]
            o = parse_opts(words[3:])
            spec = dict(rules=set(o.get('rules', '').split(',')) - {''}, loops={}, loopbody={}, afterloop={},
                        closures={}, afterclosure={}, macros={}, aliases={}, before={}, loopend={})
            if o.get('rename'):
                spec['rename'] = o['rename']
            if o.get('retname'):
                spec['retname'] = o['retname']
            if o.get('r7'):
                spec['r7'] = set(int(x) for x in o['r7'].split(','))
            if o.get('r7v'):
                spec['r7v'] = set(int(x) for x in o['r7v'].split(','))
                spec['rules'].add('R7')
            # sections
            i += 1
            cur = None
            buf = []
            sections = []
            while i < n and lines[i].strip() != '//@@ end':
                ls = lines[i].strip()
                if ls.startswith('//@@ '):
                    if cur:
                        sections.append((cur, buf))
                    cur = ls.split()[1:]
                    buf = []
                else:
                    if cur is None and ls and not ls.startswith('// ---- '):      # (markers of an expanded include are not text)
                        raise ExtractError('%s: text before first section in fn %s' % (tpath, qual))
                    buf.append(lines[i])
                i += 1
            if i >= n:
                raise ExtractError('%s: missing //@@ end for fn %s' % (tpath, qual))
            if cur:
                sections.append((cur, buf))
            i += 1  # skip end
            # a section `name@<variant>` replaces section `name` in that scenario variant only
            plain_secs = [(h, b) for h, b in sections if '@' not in h[0]]
            var_secs = [([h[0].split('@')[0]] + h[1:], b) for h, b in sections if '@' in h[0] and h[0].split('@')[1] == (variant or 'default')]
            for hdr, body in plain_secs + var_secs:
                k = hdr[0]
                txt = '\n'.join(body)
                if k == 'sig':
                    spec['sig'] = txt
                elif k == 'entry':
                    spec['entry'] = txt
                elif k == 'tail':
                    spec['tail'] = txt
                elif k == 'maxcalls':
                    # syntactic guard (like `noreturn`): at most N call sites of a callee, in a function without loops; with the
                    # postcondition that the call happened this gives `exactly once`; more sites / a loop => the unit is not decided
                    spec.setdefault('maxcalls', []).append((hdr[1], int(hdr[2])))
                elif k == 'noreturn':
                    spec['noreturn'] = True    # the function has no early exit (an obligation spliced at its end covers every path)
                elif k == 'fnend':
                    spec['fnend'] = txt        # before the closing brace of a function whose body ends with a statement
                elif k == 'loop':
                    oo = parse_opts(hdr[2:])
                    spec['loops'][int(hdr[1])] = dict(inv=txt, iter=oo.get('iter'))
                elif k == 'loopbody':
                    spec['loopbody'][int(hdr[1])] = txt
                elif k == 'loopend':
                    spec['loopend'][int(hdr[1])] = txt
                elif k == 'afterloop':
                    spec['afterloop'][int(hdr[1])] = txt
                elif k == 'closure':
                    spec['closures'][int(hdr[1])] = ' '.join(x.strip() for x in body if x.strip())
                elif k == 'afterclosure':
                    spec['afterclosure'][int(hdr[1])] = txt
                elif k == 'before':
                    spec['before'][(hdr[1], int(hdr[2]))] = txt
                elif k == 'alias':
                    spec['aliases'][hdr[1]] = hdr[2]
                    spec['rules'].add('R8')
                elif k in ('rewrite', 'rewrite?'):
                    # `rewrite?`: the same, but the source text need not occur (used for std constructors that panic on some arguments:
                    # if the code starts to use one, the call goes through a stand-in that states the panic condition)
                    # R11: an expression the verifier cannot take (char-pattern string methods) is replaced, textually and exactly,
                    # by a call of a contract-less stand-in: `//@@ rewrite <source text> => <replacement>`
                    joined = ' '.join(hdr[1:])
                    sep = ' ==>> ' if ' ==>> ' in joined else ' => '      # `==>>` when the source text itself contains `=>`
                    if sep not in joined:
                        raise ExtractError('%s: rewrite needs `<from> => <to>`' % tpath)
                    frm, to = joined.split(sep, 1)
                    to = to.replace('\\n', '\n')      # `\n` in the replacement text: a line break (so that a spliced clause can carry a label comment)
                    spec.setdefault('rewrites' if k == 'rewrite' else 'rewrites_opt', []).append((frm, to))
                    spec['rules'].add('R11')
                elif k == 'macro':
                    spec['macros'][hdr[1]] = ' '.join(x.strip() for x in body if x.strip())
                else:
                    raise ExtractError('%s: unknown section %s' % (tpath, k))
            rf = load(rel)
            try:
                a, kw, bo, bc = rf.find_fn(qual)
            except ExtractError as ex:
                if ': 0 candidates' in str(ex) and template == 'unit.rs' and not mutate:
                    # the function under contract no longer exists in the source: the rest of the unit is still checked (its former
                    # callers now carry the clauses alone); run.py reports the unit undecided unless one of them fails
                    g.missing_fns.append(o.get('name', qual))
                    i += 1
                    continue
                raise
            raw = rf.text[a:bc + 1]
            rec = FnRec()
            rec.qual, rec.file, rec.raw = o.get('name', qual), rel, raw
            rec.src_qual = qual
            rname = rec.qual
            rec.sha = hashlib.sha256(raw.encode()).hexdigest()[:16]
            rec.lets = let_names(raw)
            rec.renamed = None
            if not plain:
                # locals renamed since the text the contracts were written against (recorded in the baseline): the contracts follow
                rm = rename_map(baseline_lets(os.path.basename(unit_dir.rstrip('/')), rec.qual), rec.lets)
                if rm:
                    apply_renames(spec, rm)
                    rec.renamed = rm
            rec.rules = sorted(spec['rules'] | {'R1', 'R2'})
            rec.has_contract = bool((spec.get('sig') or '').strip())
            rec.mustfail = not o.get('nomustfail')
            g.rules_used |= set(rec.rules)
            src = raw
            if mutate and mutate[0] in (qual, rname):
                cnt = src.count(mutate[1])
                if cnt != 1:
                    raise ExtractError('mutant: %r occurs %d times in %s' % (mutate[1], cnt, qual))
                src = src.replace(mutate[1], mutate[2])
                mutated = True
            if mustfail and rec.mustfail and (mustfail is True or rname in mustfail):
                spec['sig'] = add_ensures_false(spec.get('sig') or '')
            if plain:
                spec = dict(rules=spec['rules'] & {'R3'}, plain=True, rename=spec.get('rename'), aliases=spec.get('aliases', {}))
            txt, sh = transform.transform_fn(src, spec)
            rec.n_loops, rec.n_closures = len(sh.loops), len(sh.closures)
            for callee, nmax in spec.get('maxcalls', []):
                cnt = len(re.findall(r'\b%s\s*\(' % re.escape(callee), mask(src)[sh.bopen:]))
                if cnt > nmax or sh.loops:
                    raise ExtractError('fn %s: %d call site(s) of %s (at most %d allowed%s)' % (rname, cnt, callee, nmax, ', and the function has a loop' if sh.loops else ''))
            if o.get('pub'):
                txt = 'pub ' + txt.lstrip()
            if o.get('attr'):
                txt = '#[%s]\n' % o['attr'] + txt
            indent = line[:len(line) - len(line.lstrip())]
            for st in (auto_stubs or {}).get(rname, []):
                encl = next((l.strip() for l in reversed(out) if l.strip() and not l.strip().startswith('//') and len(l) - len(l.lstrip()) < len(indent)), '')
                if st['kind'] == 'free' and indent and re.match(r'(pub\s+)?(unsafe\s+)?impl\b', encl):
                    # referenced from inside an impl block of the template: a free function goes to the top level
                    if st['qual'] not in [x['qual'] for x in top_free]:
                        top_free.append(st)
                    continue
                if st['kind'] in ('free', 'method'):
                    stxt = stub_text(st, plain)
                    out.extend((indent + l if l.strip() else l) for l in stxt.split('\n'))
                    g.auto_stubbed.append(st['qual'])
            first = len(out) + 1
            out.extend((indent + l if l.strip() else l) for l in txt.split('\n'))
            rec.gen_lines = (first, len(out))
            g.fns.append(rec)
        else:
            raise ExtractError('%s: unknown directive %s' % (tpath, cmd))
    if mutate and not mutated:
        raise ExtractError('mutant target %s not extracted by this unit' % mutate[0])
    if top_free:
        k = max(n for n, l in enumerate(out) if l.startswith('fn main()'))
        extra = []
        for st in top_free:
            if st['qual'] in g.auto_stubbed:
                continue
            extra.append('' if plain else 'verus! {')
            extra.extend(stub_text(st, plain).lstrip().split('\n'))
            extra.append('' if plain else '}')
            g.auto_stubbed.append(st['qual'])
        out[k:k] = extra
    consts = {}
    for lst in (auto_stubs or {}).values():
        for st in lst:
            if st['kind'] == 'const':
                consts[st['qual']] = st
    if consts:
        k = max(n for n, l in enumerate(out) if l.startswith('fn main()'))
        extra = []
        for st in consts.values():
            rf = load(st['file'])
            a, kw, b = rf.find_item(st['ckind'], st['qual'])
            txt = transform.strip_attrs_and_vis(rf.text[a:b], plain=plain)
            if not plain:
                txt = re.sub(r':\s*&\s*str\b', ": &'static str", txt, count=1)
            txt = publicize(txt, 'const')
            extra.append('' if plain else 'verus! {')
            extra.extend(txt.strip().split('\n'))
            extra.append('' if plain else '}')
            g.auto_stubbed.append('const ' + st['qual'])
        out[k:k] = extra
    mods = {}
    for lst in (auto_stubs or {}).values():
        for st in lst:
            if st['kind'] == 'module':
                mods.setdefault(st['module'], {})[st['qual']] = st
    impls = {}
    for lst in (auto_stubs or {}).values():
        for st in lst:
            if st['kind'] == 'impl':
                impls.setdefault(st['type'], {})[st['qual']] = st
    if impls:
        k = max(n for n, l in enumerate(out) if l.startswith('fn main()'))
        extra = []
        for ty, sts in impls.items():
            extra.append(('impl %s {' % ty) if plain else ('verus! { impl %s {' % ty))
            for st in sts.values():
                if st['qual'] in g.auto_stubbed:
                    continue      # already emitted next to a method of the same type
                stxt = stub_text(st, plain).lstrip()
                if stxt.startswith('#[verifier::external_body]'):
                    first, rest = stxt.split('\n', 1)
                    stxt = first + '\npub ' + rest.lstrip()
                else:
                    stxt = 'pub ' + stxt
                extra.extend(stxt.split('\n'))
                g.auto_stubbed.append(st['qual'])
            extra.append('}' if plain else '} }')
        out[k:k] = extra
    if mods:
        k = max(n for n, l in enumerate(out) if l.startswith('fn main()'))
        extra = []
        for mod, sts in mods.items():
            extra.append('pub mod %s { use super::*; %s' % (mod, '' if plain else 'use vstd::prelude::*; verus! {'))
            for st in sts.values():
                stxt = stub_text(st, plain).lstrip()
                if stxt.startswith('#[verifier::external_body]'):
                    first, rest = stxt.split('\n', 1)
                    stxt = first + '\npub ' + rest.lstrip()
                else:
                    stxt = 'pub ' + stxt
                extra.extend(stxt.split('\n'))
                g.auto_stubbed.append(mod + '::' + st['qual'])
            extra.append('}' if plain else '} }')
        out[k:k] = extra
    g.text = '\n'.join(out)
    g.auto_forbidden = list(FORBIDDEN_HIT)
    return g


_CALL = re.compile(r'(?:([A-Za-z_][A-Za-z0-9_]*)\s*(\.|::)\s*)?\b([a-z_][a-z0-9_]*)\s*(?:::\s*<[^()]*?>)?\s*\(')


def _defined_fns(rf, name):
    out = []
    for mm in re.finditer(r'\bfn\s+%s\b' % re.escape(name), rf.m):
        chain = rf.enclosing(mm.start())
        if any(rf._is_test_mod(h) for k, h, _ in chain):
            continue
        out.append(rf._fn_extent(mm.start()))
    return out


def reaches_forbidden(rf, raw, start):
    """Name-level reachability inside one source file.  Returns the chain of names from `start` to a forbidden function the file
    defines (or to `<..>event_log.append`), or None.  Only used to give a NEW callee of a `forbid=` unit its contract."""
    seen = {start}
    work = [(raw, [start])]
    while work:
        txt, chain = work.pop()
        m = mask(txt)
        o = m.find('{')
        for mm in _CALL.finditer(m, o if o >= 0 else 0):
            recv, sep, name = mm.group(1), mm.group(2), mm.group(3)
            if name in ('if', 'while', 'match', 'for', 'return', 'loop', 'fn'):
                continue
            defs = _defined_fns(rf, name)
            if re.search(FORBID[0], name) and (defs or (sep == '.' and recv and recv.endswith('log'))):
                return chain + [name]
            if defs and name not in seen:
                seen.add(name)
                for (a, kw, bo, bc) in defs:
                    work.append((rf.text[a:bc + 1], chain + [name]))
    return None


_LET = re.compile(r'\blet\s+(?:mut\s+)?([a-z_][a-z0-9_]*)\b(?!\s*\()')
_base_cache = [None]


def let_names(raw):
    """Ordered names bound by plain `let` statements of a function (the identifiers contracts can mention)."""
    return [mm.group(1) for mm in _LET.finditer(mask(raw))]


def baseline_lets(unit, qual):
    if _base_cache[0] is None:
        try:
            import json
            with open(os.path.join(VERIF, 'baseline_obligations.json')) as f:
                _base_cache[0] = json.load(f)
        except Exception:
            _base_cache[0] = {}
    return (_base_cache[0].get(unit, {}).get('lets') or {}).get(qual)


def rename_map(old, new):
    """old/new: let-name lists of the baseline text and of the current text.  If they differ only by a consistent renaming of
    locals (same number of bindings, a one-to-one map, no new name that was already in use) return {old: new}, else None."""
    if not old or old == new or len(old) != len(new):
        return None
    m = {}
    for a, b in zip(old, new):
        if m.setdefault(a, b) != b:
            return None
    m = {a: b for a, b in m.items() if a != b}
    if not m or len(set(m.values())) != len(m):
        return None
    kept = set(old) - set(m)
    if kept & set(m.values()):
        return None
    if set(old) & set(m.values()):
        return None      # a "new" name that the baseline text already bound: a moved `let`, not a renaming (seeded change C10-7)
    return m


def apply_renames(spec, m):
    rx = re.compile(r'(?<![A-Za-z0-9_.])(%s)(?![A-Za-z0-9_])' % '|'.join(re.escape(k) for k in sorted(m, key=len, reverse=True)))
    f = lambda t: rx.sub(lambda mm: m[mm.group(1)], t) if isinstance(t, str) else t
    for k in ('sig', 'entry', 'tail', 'fnend'):
        if spec.get(k):
            spec[k] = f(spec[k])
    for k in ('loopbody', 'loopend', 'afterloop', 'closures', 'afterclosure', 'before'):
        spec[k] = {kk: f(v) for kk, v in spec.get(k, {}).items()}
    spec['loops'] = {kk: dict(v, inv=f(v.get('inv'))) for kk, v in spec.get('loops', {}).items()}
    if spec.get('rewrites'):
        spec['rewrites'] = [(f(a), f(b)) for a, b in spec['rewrites']]
    if spec.get('rewrites_opt'):
        spec['rewrites_opt'] = [(f(a), f(b)) for a, b in spec['rewrites_opt']]


import threading


class _PerThread(threading.local):
    """Units are generated in parallel threads: what one generation sets must not be seen by another."""
    def __init__(self):
        self.forbid = None
        self.hit = []


_T = _PerThread()


class _ForbidCell:
    def __getitem__(self, i):
        return _T.forbid

    def __setitem__(self, i, v):
        _T.forbid = v


class _HitList:
    def append(self, x):
        _T.hit.append(x)

    def __delitem__(self, sl):
        _T.hit = []

    def __iter__(self):
        return iter(_T.hit)


FORBIDDEN_HIT = _HitList()  # quals of auto-stubbed callees that got `requires false` in this generation (per thread)
FORBID = _ForbidCell()      # regex set from the unit header (`forbid=<regex>`): callees a unit's functions must never reach (per thread)


def stub_text(st, plain):
    rf = load(st['file'])
    a, kw, bo, bc = rf.find_fn(st['qual'])
    raw = rf.text[a:bc + 1]
    if plain:
        return transform.strip_attrs_and_vis(raw, plain=True)
    head = transform.strip_attrs_and_vis(rf.text[a:bo])
    head = re.sub(r'\basync\s+', '', head)
    if FORBID[0] and re.search(FORBID[0], st['qual'].split('::')[-1]):
        st['forbidden'] = True
        FORBIDDEN_HIT.append(st['qual'])
        return ('#[verifier::external_body] // AUTO-STUB of a callee this unit forbids: reaching it is the violation\n' + head.rstrip()
                + '\n    requires false,      // [readonly.no_write_to_the_truth_log_is_reachable]\n{ unimplemented!() }')
    if FORBID[0]:
        # a unit that forbids callees is about what is REACHABLE: the text of a new callee is followed, by name, through the functions
        # its source file defines; if a forbidden function of the repository is reached the stub gets the same `requires false`
        chain = reaches_forbidden(rf, raw, st['qual'].split('::')[-1])
        if chain:
            st['forbidden'] = True
            FORBIDDEN_HIT.append(st['qual'])
            return ('#[verifier::external_body] // AUTO-STUB of a callee that reaches a forbidden one (%s): reaching it is the violation\n' % ' -> '.join(chain)
                    + head.rstrip() + '\n    requires false,      // [readonly.no_write_to_the_truth_log_is_reachable]\n{ unimplemented!() }')
    return '#[verifier::external_body] // AUTO-STUB: callee without a contract (new or not listed in the unit)\n' + head.rstrip() + ' { unimplemented!() }'


def publicize(txt, kind):
    """Items are emitted `pub` with `pub` named fields (visibility carries no meaning inside the
    single generated module; it only has to be uniform with the hand-written stubs)."""
    m = mask(txt)
    mm = re.search(r'\b%s\b' % kind, m)
    if not mm:
        return txt
    edits = [(mm.start(), mm.start(), 'pub ')]
    if kind == 'struct':
        o = m.find('{', mm.end())
        semi = m.find(';', mm.end())
        if o >= 0 and (semi < 0 or o < semi):
            from rustsrc import match_bracket
            c = match_bracket(m, o)
            depth = 0
            expect_field = True
            i = o + 1
            while i < c:
                ch = m[i]
                if ch in '([{<':
                    if ch == '<':
                        depth += 1
                    else:
                        i = match_bracket(m, i)
                elif ch == '>' and m[i - 1] != '-':
                    depth -= 1
                elif ch == ',' and depth == 0:
                    expect_field = True
                elif expect_field and (ch.isalpha() or ch == '_'):
                    edits.append((i, i, 'pub '))
                    expect_field = False
                elif expect_field and ch == '#':
                    # attribute on a field: skip it
                    j = m.find('[', i)
                    i = match_bracket(m, j)
                i += 1
    return transform.apply_edits(txt, edits)


def expand_includes(lines, depth=0):
    out = []
    for line in lines:
        s = line.strip()
        if s.startswith('//@@ include '):
            rel = s.split()[2]
            with open(os.path.join(VERIF, rel), encoding='utf-8') as f:
                inc = f.read().split('\n')
            if depth > 4:
                raise ExtractError('include depth')
            out.append('// ---- begin include %s' % rel)
            out.extend(expand_includes(inc, depth + 1))
            out.append('// ---- end include %s' % rel)
        else:
            out.append(line)
    return out


def unresolved_callees(g, diags):
    out = []
    lines = g.text.split('\n')
    for d in diags:
        if d.get('level') != 'error':
            continue
        code = (d.get('code') or {}).get('code')
        msg = d.get('message', '')
        prim = [sp for sp in d.get('spans', []) if sp.get('is_primary')]
        if not prim:
            continue
        ln = prim[0]['line_start']
        rec = next((r for r in g.fns if r.gen_lines[0] <= ln <= r.gen_lines[1]), None)
        m0 = re.match(r'cannot find value `([A-Z][A-Z0-9_]*)` in this scope', msg)
        if m0 and g.fns:
            # a module-level constant the source gained (used by the extracted text or by an auto-stubbed helper): take its real text
            hit = False
            for rel in ([rec.file] if rec else []) + sorted({r.file for r in g.fns}):
                for kind in ('const', 'static'):
                    try:
                        load(rel).find_item(kind, m0.group(1))
                    except ExtractError:
                        continue
                    out.append((g.fns[0].qual, dict(kind='const', ckind=kind, file=rel, qual=m0.group(1))))
                    hit = True
                    break
                if hit:
                    break
            continue
        if rec is None:
            continue
        rf = load(rec.file)
        m1 = re.match(r'cannot find function `(\w+)` in this scope', msg)
        m2 = re.match(r'no method named `(\w+)` found for', msg) or re.match(r'no function or associated item named `(\w+)` found for', msg)
        m3 = (re.match(r'failed to resolve: use of (?:undeclared|unresolved) (?:crate or )?module(?: or unlinked crate)? `(\w+)`', msg)
              or re.match(r'cannot find (?:module or crate|crate or module|module) `(\w+)` in this scope', msg))
        try:
            if m1:
                rf.find_fn(m1.group(1))
                out.append((rec.qual, dict(kind='free', file=rec.file, qual=m1.group(1))))
            elif m2:
                tm = re.search(r'found for (?:struct|enum|reference|mutable reference) `&?(?:mut )?([A-Za-z0-9_:]+)', msg)
                target = tm.group(1).split('::')[-1] if tm else None
                own = rec.qual.split('::')[0].split(' as ')[0] if '::' in rec.qual else None
                done = False
                if own and (target is None or target == own):
                    q = '%s::%s' % (own, m2.group(1))
                    try:
                        rf.find_fn(q)
                        out.append((rec.qual, dict(kind='method', file=rec.file, qual=q)))
                        done = True
                    except ExtractError:
                        pass
                if not done and target:
                    # a method of another (stubbed) type: look for it in the crate of the referencing file
                    q = '%s::%s' % (target, m2.group(1))
                    crate_src = rec.file.split('/src/')[0] + '/src'
                    roots = [os.path.join(REPO, crate_src)] + sorted(
                        os.path.join(REPO, 'crates', c, 'src') for c in os.listdir(os.path.join(REPO, 'crates'))
                        if os.path.join('crates', c, 'src') != crate_src)
                    for root, _dirs, files in (x for r_ in roots for x in os.walk(r_)):
                        for fn_ in sorted(files):
                            if not fn_.endswith('.rs'):
                                continue
                            rel = os.path.relpath(os.path.join(root, fn_), REPO)
                            try:
                                load(rel).find_fn(q)
                            except ExtractError:
                                continue
                            out.append((rec.qual, dict(kind='impl', type=target, file=rel, qual=q)))
                            done = True
                            break
                        if done:
                            break
            elif m3:
                mod = m3.group(1)
                src = lines[ln - 1]
                fm = re.search(r'\b%s::(\w+)\s*\(' % re.escape(mod), src[max(0, prim[0]['column_start'] - 1 - len('crate::')):])
                if not fm:
                    continue
                base = os.path.dirname(rec.file)
                for cand in (os.path.join(base, mod + '.rs'), os.path.join(base, mod, 'mod.rs')):
                    if os.path.exists(os.path.join(REPO, cand)):
                        load(cand).find_fn(fm.group(1))
                        out.append((rec.qual, dict(kind='module', module=mod, file=cand, qual=fm.group(1))))
                        break
        except ExtractError:
            continue
    return out




LABEL_RE = re.compile(r'//\s*\[([A-Za-z0-9_.:-]+)\]')


def labels_by_line(text):
    res = {}
    for n, l in enumerate(text.split('\n'), 1):
        mm = LABEL_RE.findall(l)
        if mm:
            res[n] = mm
    return res


TRUST_PATTERNS = [
    ('assume_specification', re.compile(r'\bassume_specification\b[^\[]*\[\s*([^\]]+?)\s*\]')),
    ('external_body', re.compile(r'external_body')),
    ('external_type_specification', re.compile(r'external_type_specification')),
    ('uninterp', re.compile(r'\buninterp\s+spec\s+fn\s+(\w+)')),
    ('axiom', re.compile(r'\baxiom\s+fn\s+(\w+)')),
    ('admit', re.compile(r'\badmit\s*\(')),
    ('assume', re.compile(r'\bassume\s*\(')),
    ('no_decreases', re.compile(r'exec_allows_no_decreases_clause')),
    ('verifier_external', re.compile(r'verifier::external\b(?!_)')),
]


def scan_trust(text):
    """Mechanical scan of the generated file for unchecked assumptions."""
    m = mask(text)
    found = []
    lines = text.split('\n')
    mlines = m.split('\n')
    pending_external_body = False
    for n, (l, ml) in enumerate(zip(lines, mlines), 1):
        for kind, rx in TRUST_PATTERNS:
            for mm in rx.finditer(ml):
                name = mm.group(1) if mm.groups() else ''
                if kind == 'external_body':
                    pending_external_body = True
                    continue
                found.append((kind, name.strip(), n))
        if pending_external_body:
            fm = re.search(r'\b(fn|struct|enum)\s+(\w+)', ml)
            if fm:
                found.append(('external_body', fm.group(2), n))
                pending_external_body = False
    return found
