"""Minimal, comment/string-aware view of a Rust source file.

Nothing here understands Rust semantics: it masks comments and literals, matches
brackets and locates items by name.  Everything it cannot locate unambiguously is
reported through ExtractError, which the driver turns into exit 2 (lost anchor), never
into a violation.
"""
import re


class ExtractError(Exception):
    pass


def mask(text):
    """Return a string of the same length in which comments and the *contents* of string /
    char literals are replaced by spaces (newlines kept).  Quotes stay, so literal extents
    remain visible."""
    out = list(text)
    n = len(text)
    i = 0

    def blank(a, b):
        for k in range(a, b):
            if out[k] != '\n':
                out[k] = ' '

    while i < n:
        c = text[i]
        if c == '/' and i + 1 < n and text[i + 1] == '/':
            j = text.find('\n', i)
            if j < 0:
                j = n
            blank(i, j)
            i = j
        elif c == '/' and i + 1 < n and text[i + 1] == '*':
            depth = 1
            j = i + 2
            while j < n and depth > 0:
                if text.startswith('/*', j):
                    depth += 1
                    j += 2
                elif text.startswith('*/', j):
                    depth -= 1
                    j += 2
                else:
                    j += 1
            blank(i, j)
            i = j
        elif c == '"' or (c in 'rb' and _raw_or_byte_string_start(text, i)):
            j = _skip_string(text, i)
            # keep the quotes (and prefix / hashes) for visibility, blank the contents
            s = text.find('"', i)
            e = j - 1
            while e > s and text[e] != '"':
                e -= 1
            blank(s + 1, e)
            i = j
        elif c == "'":
            j = _char_literal_end(text, i)
            if j is not None:
                blank(i + 1, j - 1)
                i = j
            else:
                i += 1  # lifetime
        else:
            i += 1
    return ''.join(out)


def _raw_or_byte_string_start(text, i):
    # previous char must not be identifier char
    if i > 0 and (text[i - 1].isalnum() or text[i - 1] == '_'):
        return False
    m = re.match(r'(br|rb|r|b)(#*)"', text[i:i + 40])
    if not m:
        return False
    if m.group(1) == 'b' and m.group(2):
        return False
    return True


def _skip_string(text, i):
    m = re.match(r'(br|rb|r|b)?(#*)"', text[i:i + 40])
    prefix = m.group(1) or ''
    hashes = m.group(2)
    j = i + m.end()
    if 'r' in prefix:
        end = '"' + hashes
        k = text.find(end, j)
        if k < 0:
            raise ExtractError('unterminated raw string')
        return k + len(end)
    n = len(text)
    while j < n:
        if text[j] == '\\':
            j += 2
        elif text[j] == '"':
            return j + 1
        else:
            j += 1
    raise ExtractError('unterminated string')


def _char_literal_end(text, i):
    """text[i] == "'".  Return index after closing quote if this is a char literal,
    None if it is a lifetime."""
    n = len(text)
    if i + 1 >= n:
        return None
    if text[i + 1] == '\\':
        j = i + 2
        # escape: \n, \', \x41, \u{...}
        if j < n and text[j] == 'u':
            k = text.find('}', j)
            if k < 0:
                return None
            j = k + 1
        elif j < n and text[j] == 'x':
            j += 3
        else:
            j += 1
        if j < n and text[j] == "'":
            return j + 1
        return None
    # 'c' where c is any single char (possibly multi-byte already one code point in py)
    if i + 2 < n and text[i + 2] == "'" and text[i + 1] != "'":
        return i + 3
    return None


OPEN = {'(': ')', '[': ']', '{': '}'}
CLOSE = {')': '(', ']': '[', '}': '{'}


def match_bracket(m, i):
    """m: masked text, m[i] is an opening bracket; return index of the matching closer."""
    stack = []
    n = len(m)
    j = i
    while j < n:
        c = m[j]
        if c in OPEN:
            stack.append(c)
        elif c in CLOSE:
            if not stack or stack[-1] != CLOSE[c]:
                raise ExtractError('unbalanced bracket at %d' % j)
            stack.pop()
            if not stack:
                return j
        j += 1
    raise ExtractError('unterminated bracket at %d' % i)


def match_angle(m, i):
    """m[i] == '<' opening a generic list; return index of matching '>' (ignores '->', '=>')."""
    depth = 0
    n = len(m)
    j = i
    while j < n:
        c = m[j]
        if c == '<':
            depth += 1
        elif c == '>':
            if j > 0 and m[j - 1] in '-=':
                pass
            else:
                depth -= 1
                if depth == 0:
                    return j
        elif c in '([{':
            j = match_bracket(m, j)
        elif c in ';':
            raise ExtractError('unterminated generics at %d' % i)
        j += 1
    raise ExtractError('unterminated generics at %d' % i)


def skip_ws(m, i):
    n = len(m)
    while i < n and m[i].isspace():
        i += 1
    return i


IDENT = r'[A-Za-z_][A-Za-z0-9_]*'


class Block:
    """A `{...}` block of an impl / mod / trait / fn at some nesting level."""

    def __init__(self, kind, header, open_idx, close_idx, start_idx):
        self.kind = kind          # 'impl' | 'mod' | 'trait' | 'fn' | 'other'
        self.header = header      # masked header text (from keyword to '{')
        self.open = open_idx
        self.close = close_idx
        self.start = start_idx    # index of first char of the item (incl. attributes)


class RustFile:
    def __init__(self, path, text):
        self.path = path
        self.text = text
        self.m = mask(text)

    # ---------------------------------------------------------------- item start
    def item_start(self, kw_idx):
        """Walk backwards from a keyword (`fn`, `struct`, ...) over qualifiers, attributes
        and doc comments; return the index of the first char belonging to the item."""
        m, text = self.m, self.text
        i = kw_idx
        # qualifiers on the same logical header
        while True:
            j = i
            while j > 0 and m[j - 1] in ' \t':
                j -= 1
            mm = re.search(r'(pub(\s*\([^)]*\))?|async|const|unsafe|extern(\s*"[^"]*")?|default)$', m[max(0, j - 40):j])
            if mm:
                i = max(0, j - 40) + mm.start()
                continue
            break
        # attributes / doc comments on preceding lines
        while True:
            ls = text.rfind('\n', 0, i)  # newline before current line start region
            # only whitespace between ls+1 and i ?
            if text[ls + 1:i].strip() != '':
                break
            if ls < 0:
                break
            pls = text.rfind('\n', 0, ls)
            prev = text[pls + 1:ls]
            ps = prev.strip()
            if ps.startswith('///') or ps.startswith('//!'):
                i = pls + 1 + (len(prev) - len(prev.lstrip()))
                continue
            if ps.endswith(']') and self._attr_line_start(pls + 1, ls) is not None:
                i = self._attr_line_start(pls + 1, ls)
                continue
            break
        return i

    def _attr_line_start(self, a, b):
        """If masked text [a,b) ends an attribute `#[...]` (possibly multi-line), return the
        index of its '#'."""
        m = self.m
        j = b
        while j > a and m[j - 1].isspace():
            j -= 1
        if j == 0 or m[j - 1] != ']':
            return None
        # find matching '['
        depth = 0
        k = j - 1
        while k >= 0:
            if m[k] == ']':
                depth += 1
            elif m[k] == '[':
                depth -= 1
                if depth == 0:
                    break
            k -= 1
        if k <= 0:
            return None
        h = k - 1
        if m[h] == '!':
            h -= 1
        if m[h] != '#':
            return None
        # must be first token on its line
        ls = self.text.rfind('\n', 0, h)
        if self.text[ls + 1:h].strip() != '':
            return None
        return h

    # ---------------------------------------------------------------- enclosing chain
    def enclosing(self, idx):
        """Return list of (kind, header) of the blocks that enclose position idx, outermost
        first.  Cheap scan from the file start."""
        m = self.m
        chain = []
        i = 0
        n = len(m)
        stack = []
        while i < idx and i < n:
            c = m[i]
            if c == '{':
                hdr = self._header_before(i)
                stack.append((hdr, i))
            elif c == '}':
                if stack:
                    stack.pop()
            i += 1
        for hdr, op in stack:
            chain.append((self._kind_of(hdr), hdr, op))
        return chain

    def _header_before(self, brace_idx):
        m = self.m
        # header = text after the previous ';', '{' or '}' at any level (cheap heuristic)
        j = brace_idx - 1
        depth = 0
        while j >= 0:
            c = m[j]
            if c in ')]':
                depth += 1
            elif c in '([':
                depth -= 1
            elif depth <= 0 and c in ';{}':
                break
            j -= 1
        return m[j + 1:brace_idx].strip()

    @staticmethod
    def _kind_of(hdr):
        h = re.sub(r'#\s*\[[^\]]*\]', ' ', hdr)
        h = h.strip()
        h = re.sub(r'^(pub(\s*\([^)]*\))?\s+)?(unsafe\s+)?(async\s+)?(const\s+)?', '', h)
        if re.match(r'impl\b', h):
            return 'impl'
        if re.match(r'mod\b', h):
            return 'mod'
        if re.match(r'trait\b', h):
            return 'trait'
        if re.match(r'fn\b', h):
            return 'fn'
        return 'other'

    # ---------------------------------------------------------------- fn lookup
    def find_fn(self, qual):
        """qual: 'name' (free fn, not inside impl/trait/fn and not inside a cfg(test) mod),
        'Type::name' (inherent or trait impl method of Type),
        'Type as Trait::name' (method in `impl Trait for Type`),
        'outer/inner' (fn nested in fn outer; outer may itself be qualified).
        Returns (start, fn_kw, body_open, body_close)."""
        nested = None
        if '/' in qual:
            qual, nested = qual.split('/', 1)
        trait = None
        ty = None
        name = qual
        if '::' in qual:
            ty, name = qual.rsplit('::', 1)
            if ' as ' in ty:
                ty, trait = [s.strip() for s in ty.split(' as ')]
        cands = []
        for mm in re.finditer(r'\bfn\s+%s\b' % re.escape(name), self.m):
            kw = mm.start()
            chain = self.enclosing(kw)
            kinds = [k for k, _, _ in chain]
            if any(self._is_test_mod(h) for k, h, _ in chain):
                continue
            if ty is None:
                if any(k in ('impl', 'trait', 'fn', 'other') for k in kinds):
                    continue
            else:
                if not chain or chain[-1][0] != 'impl':
                    continue
                if any(k in ('fn',) for k in kinds[:-1]):
                    continue
                hdr = chain[-1][1]
                if not self._impl_matches(hdr, ty, trait):
                    continue
            cands.append(kw)
        if len(cands) != 1:
            raise ExtractError('fn %s: %d candidates in %s' % (qual, len(cands), self.path))
        kw = cands[0]
        res = self._fn_extent(kw)
        if nested:
            inner = [mm.start() for mm in re.finditer(r'\bfn\s+%s\b' % re.escape(nested), self.m)
                     if res[2] < mm.start() < res[3]]
            if len(inner) != 1:
                raise ExtractError('nested fn %s/%s: %d candidates' % (qual, nested, len(inner)))
            return self._fn_extent(inner[0])
        return res

    def _is_test_mod(self, hdr):
        return bool(re.search(r'cfg\s*\(\s*test\s*\)', hdr)) or bool(re.search(r'\bmod\s+tests\b', hdr))

    @staticmethod
    def _impl_matches(hdr, ty, trait):
        h = re.sub(r'#\s*\[[^\]]*\]', ' ', hdr)
        mm = re.match(r'.*?\bimpl\b\s*(<.*?>\s*)?(.*)$', h, re.S)
        if not mm:
            return False
        rest = mm.group(2)
        rest = rest.split(' where ')[0].strip()
        if ' for ' in rest:
            tr, t = [s.strip() for s in rest.split(' for ', 1)]
        else:
            tr, t = None, rest
        tbase = re.match(r'(&\s*(mut\s+)?)?([A-Za-z0-9_:]+)', t)
        tbase = tbase.group(3).split('::')[-1] if tbase else t
        if tbase != ty:
            return False
        if trait is None:
            return True      # 'Type::name' names a method of Type in an inherent OR trait impl (ambiguity is reported by the caller)
        if tr is None:
            return False
        trbase = re.match(r'([A-Za-z0-9_:]+)', tr).group(1).split('::')[-1]
        return trbase == trait

    def _fn_extent(self, kw):
        m = self.m
        mm = re.match(r'fn\s+(%s)' % IDENT, m[kw:kw + 200])
        i = skip_ws(m, kw + mm.end())
        if m[i] == '<':
            i = match_angle(m, i) + 1
            i = skip_ws(m, i)
        if m[i] != '(':
            raise ExtractError('fn at %d: expected ( got %r' % (kw, m[i:i + 10]))
        pclose = match_bracket(m, i)
        # find body '{' at depth 0, or ';' (declaration without body)
        j = pclose + 1
        n = len(m)
        while j < n:
            c = m[j]
            if c == '{':
                break
            if c == ';':
                raise ExtractError('fn at %d has no body' % kw)
            if c in '([':
                j = match_bracket(m, j)
            elif c == '<':
                try:
                    j = match_angle(m, j)
                except ExtractError:
                    pass
            j += 1
        bopen = j
        bclose = match_bracket(m, bopen)
        return (self.item_start(kw), kw, bopen, bclose)

    # ---------------------------------------------------------------- other items
    def find_item(self, kind, name):
        """struct / enum / const / static / type / trait at module level (not in test mods)."""
        cands = []
        for mm in re.finditer(r'\b%s\s+%s\b' % (kind, re.escape(name)), self.m):
            kw = mm.start()
            chain = self.enclosing(kw)
            if any(self._is_test_mod(h) for k, h, _ in chain):
                continue
            if any(k in ('fn', 'impl', 'trait', 'other') for k, _, _ in chain):
                continue
            cands.append(kw)
        if len(cands) != 1:
            raise ExtractError('%s %s: %d candidates in %s' % (kind, name, len(cands), self.path))
        kw = cands[0]
        m = self.m
        j = kw
        n = len(m)
        while j < n:
            c = m[j]
            if c == ';':
                end = j + 1
                break
            if c == '{':
                end = match_bracket(m, j) + 1
                # tuple struct `struct X(..);` handled by ';' ; brace struct ends at '}'
                if kind in ('const', 'static', 'type'):
                    j = end
                    continue
                break
            if c in '([':
                j = match_bracket(m, j)
            j += 1
        else:
            raise ExtractError('%s %s: no end' % (kind, name))
        return (self.item_start(kw), kw, end)
