mod common;
use common::setup_registry;
use rip_tools::ToolInvocation;
use serde_json::json;
use tempfile::tempdir;

#[tokio::test]
async fn write_to_dot_creates_nothing_outside_the_root() {
    let outer = tempdir().expect("tmp");
    let root = outer.path().join("ws");
    std::fs::create_dir_all(&root).unwrap();
    let registry = setup_registry(&root);
    let write = registry.get("write").expect("write tool");
    for p in [".", ""] {
        let output = write(ToolInvocation { name: "write".to_string(), args: json!({"path": p, "content": "x"}), timeout_ms: None }).await;
        let siblings: Vec<String> = std::fs::read_dir(outer.path()).unwrap().flatten().map(|e| e.file_name().to_string_lossy().to_string()).collect();
        println!("path {:?}: exit_code {} stderr {:?}; entries next to the workspace root: {:?}", p, output.exit_code, output.stderr, siblings);
        assert_eq!(siblings, vec!["ws".to_string()], "a file was created outside the workspace root");
    }
}
