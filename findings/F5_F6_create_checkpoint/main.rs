use std::fs;
use std::path::PathBuf;
fn main() {
    let root = tempfile::tempdir().unwrap();
    let other = tempfile::tempdir().unwrap();
    let ws = rip_workspace::Workspace::new(root.path()).unwrap();
    // F5: relative path + cwd != root
    fs::write(root.path().join("note.txt"), b"ROOT VERSION").unwrap();
    fs::write(other.path().join("note.txt"), b"CWD VERSION").unwrap();
    std::env::set_current_dir(other.path()).unwrap();
    let cp = ws.create_checkpoint("s1", "l", &[PathBuf::from("note.txt")]).unwrap();
    fs::write(root.path().join("note.txt"), b"EDITED").unwrap();
    ws.rewind_to_checkpoint("s1", &cp.id).unwrap();
    let after = fs::read_to_string(root.path().join("note.txt")).unwrap();
    println!("F5: after rewind root/note.txt = {:?} (checkpoint was taken when it contained \"ROOT VERSION\")", after);
    // F6: refused request leaves a directory in the checkpoint store
    let before: Vec<_> = walk(&root.path().join(".rip/checkpoints"));
    let err = ws.create_checkpoint("s2", "l", &[PathBuf::from("/etc/hostname")]).unwrap_err();
    let after: Vec<_> = walk(&root.path().join(".rip/checkpoints"));
    println!("F6: refused with {:?}; store entries before = {}, after = {} (new: {:?})", err.to_string(), before.len(), after.len(),
        after.iter().filter(|p| !before.contains(p)).map(|p| p.strip_prefix(root.path()).unwrap().to_path_buf()).filter(|p| p.starts_with(".rip/checkpoints/s2")).take(2).collect::<Vec<_>>());
}
fn walk(p: &std::path::Path) -> Vec<PathBuf> {
    let mut out = vec![];
    if let Ok(rd) = fs::read_dir(p) { for e in rd.flatten() { out.push(e.path()); out.extend(walk(&e.path())); } }
    out
}
