//@@ unit c04_ordinal properties=C04
// The message-ordinal index (k-th message -> seq, id), which compaction cut points are read from.  Proved on the real text:
// message_count_v1 and read_message_by_ordinal_v1 serve a count / a record only from a file whose length is header + whole records, read
// exactly the record of the ordinal asked for, inside the file, without overflow; message_count_messages_runs_v1 serves the count only
// when the index's last record IS the last message of the messages+runs sidecar (a truncated or stale index is an error, which callers
// turn into a read of the truth log); message_by_ordinal_messages_runs_v1 serves a record only after the message index confirmed that id
// at that seq; the back-scan for the last message terminates.  Files and byte decoding are stubs; what a stub read is named by ghost
// functions so that the gates can be stated.
#![allow(unused_imports, dead_code, unused_variables, unused_mut)]
use vstd::prelude::*;
use vstd::std_specs::iter::IteratorSpec;

//@@ include prelude/strings.rs

verus! {
global size_of usize == 8;

pub mod io {
    use vstd::prelude::*;
    verus! {
    #[derive(PartialEq, Eq, Clone, Copy)]
    pub enum ErrorKind { NotFound, InvalidData, Other }
    pub struct Error { pub filler: u8 }
    impl Error {
        #[verifier::external_body] pub fn new<E>(kind: ErrorKind, e: E) -> Error { unimplemented!() }
        #[verifier::external_body] pub fn kind(&self) -> ErrorKind { unimplemented!() }
    }
    pub type Result<T> = std::result::Result<T, Error>;
    } // verus!
}
pub struct Path { pub of: Seq<char>, pub filler: u8 }          // a cache file of thread `of`
pub type PathBuf = Path;
pub enum SeekFrom { Start(u64) }
pub struct Metadata { pub len_: u64 }
impl Metadata { pub fn len(&self) -> (r: u64) ensures r == self.len_ { self.len_ } }
pub uninterp spec fn file_len_seen(of: Seq<char>, len: int) -> bool;      // timeless: a metadata call on this file returned `len`
pub struct File { pub len: u64, pub pos: u64, pub of: Seq<char>, pub filler: u8 }
impl File {
    #[verifier::external_body] pub fn open(p: &Path) -> (r: io::Result<File>) ensures r matches Ok(f) ==> f.of == p.of { unimplemented!() }
    #[verifier::external_body] pub fn metadata(&self) -> (r: io::Result<Metadata>) ensures r matches Ok(m) ==> m.len_ == self.len && file_len_seen(self.of, m.len_ as int) { unimplemented!() }
    #[verifier::external_body] pub fn seek(&mut self, s: SeekFrom) -> (r: io::Result<u64>)
        ensures final(self).len == old(self).len, final(self).of == old(self).of, r is Ok ==> (s matches SeekFrom::Start(p) && final(self).pos == p),
    { unimplemented!() }
}
pub struct Uuid { pub filler: u8 }
pub uninterp spec fn uuid_text(u: Uuid) -> Seq<char>;
impl Uuid { #[verifier::external_body] pub fn to_string(&self) -> (r: String) ensures r@ == uuid_text(*self) { unimplemented!() } }
//@@ item crates/ripd/src/message_ordinal_index.rs const HEADER_SIZE_V1
//@@ item crates/ripd/src/message_ordinal_index.rs const RECORD_SIZE_V1
//@@ item crates/ripd/src/message_ordinal_index.rs struct MessageOrdinalRecordV1 dropderive=Clone,Copy,PartialEq,Eq
#[verifier::external_body] pub fn validate_header_v1(file: &mut File) -> (r: io::Result<()>)
    ensures final(file).len == old(file).len, final(file).of == old(file).of,
{ unimplemented!() }
// the record bytes and their decoding (arrays, try_into, from_le_bytes) are replaced by these two stand-ins (R11); the read must lie
// inside the file: that is the obligation
pub struct RecordBuf { pub filler: u8 }
#[verifier::external_body] pub fn vrecord_buf() -> RecordBuf { unimplemented!() }
pub uninterp spec fn record_at(of: Seq<char>, offset: int) -> MessageOrdinalRecordV1;       // what the 24 bytes at `offset` decode to
#[verifier::external_body] pub fn vread_record(file: &mut File, buf: &mut RecordBuf) -> (r: io::Result<()>)
    requires old(file).pos + RECORD_SIZE_V1 <= old(file).len,      // [ordinal_index.record_read_lies_inside_the_file]
    ensures final(file).len == old(file).len, final(file).of == old(file).of, final(file).pos == old(file).pos,
{ unimplemented!() }
#[verifier::external_body] pub fn vdecode_record(file: &File, buf: &RecordBuf) -> (r: (u64, Uuid))
    ensures r.0 == record_at(file.of, file.pos as int).seq, r.1 == record_at(file.of, file.pos as int).id,
{ unimplemented!() }

//@@ fn crates/ripd/src/message_ordinal_index.rs message_count_v1
//@@ sig
    ensures
        ret matches Ok(Some(c)) ==> exists|len: int| #[trigger] file_len_seen(path.of, len) && len >= HEADER_SIZE_V1 && (len - HEADER_SIZE_V1) % (RECORD_SIZE_V1 as int) == 0
            && c == (len - HEADER_SIZE_V1) / (RECORD_SIZE_V1 as int),      // [ordinal_index.count_is_served_only_from_a_file_of_whole_records]
//@@ end

//@@ fn crates/ripd/src/message_ordinal_index.rs read_message_by_ordinal_v1
//@@ rewrite let mut buf = [0u8; RECORD_SIZE_V1 as usize]; ==>> let mut buf = vrecord_buf();
//@@ rewrite file.read_exact(&mut buf)?; ==>> vread_record(&mut file, &mut buf)?;
//@@ rewrite let seq = u64::from_le_bytes(buf[0..8].try_into().expect("slice")); let mut uuid_bytes = [0u8; 16]; uuid_bytes.copy_from_slice(&buf[8..24]); let id = Uuid::from_bytes(uuid_bytes); ==>> let (seq, id) = vdecode_record(&file, &buf);
//@@ sig
    ensures
        ret matches Ok(Some(rec)) ==> ordinal >= 1 && rec == record_at(path.of, HEADER_SIZE_V1 + (ordinal - 1) * RECORD_SIZE_V1),      // [ordinal_index.record_served_is_the_one_at_the_ordinal_asked_for]
//@@ end


// ---- the gates in front of the index (continuity_stream_cache.rs) ---------------------------------------------------------------
pub enum StreamKind { Session, Task, Continuity, Artifact }
pub struct Event { pub filler: u8 }
//@@ item crates/ripd/src/continuity_stream_cache.rs struct SidecarEventHeader
//@@ item crates/ripd/src/continuity_stream_cache.rs struct SidecarBackwardScan
//@@ item crates/ripd/src/continuity_stream_cache.rs enum ParseMode
pub uninterp spec fn ord_file(cid: Seq<char>) -> Seq<char>;          // the ordinal index file of a thread
pub uninterp spec fn idx_file(cid: Seq<char>) -> Seq<char>;          // the message index file of a thread
pub uninterp spec fn header_seen(cid: Seq<char>, seq: u64, id: Seq<char>, ty: Seq<char>) -> bool;     // timeless: a back-scan of the messages+runs sidecar returned this header
pub uninterp spec fn looked_up(file: Seq<char>, id: Seq<char>, seq: u64) -> bool;                      // timeless: the message index answered `seq` for `id`
#[verifier::external_body] pub fn scan_sidecar_backwards(file: &mut File, continuity_id: &str, max_events: usize, max_bytes: usize, mode: ParseMode, end_pos: Option<u64>) -> (r: io::Result<SidecarBackwardScan>)
    ensures r matches Ok(s) ==> forall|k: int| 0 <= k < s.headers@.len() ==> header_seen(continuity_id@, (#[trigger] s.headers@[k]).seq, s.headers@[k].id@, s.headers@[k].event_type@),
{ unimplemented!() }
#[verifier::external_body] pub fn lookup_message_v1(path: &Path, message_id: &str) -> (r: io::Result<Option<(u64, u64)>>)
    ensures r matches Ok(Some(x)) ==> looked_up(path.of, message_id@, x.0),
{ unimplemented!() }
#[verifier::external_body] pub fn rebuild_message_index_from_sidecar_v1(sidecar_path: &Path, index_path: &Path) -> io::Result<()> { unimplemented!() }

pub struct ContinuityStreamCache { pub filler: u8 }
impl ContinuityStreamCache {
    #[verifier::external_body] pub fn messages_runs_message_ordinal_index_path_v1(&self, id: &str) -> (r: PathBuf) ensures r.of == ord_file(id@) { unimplemented!() }
    #[verifier::external_body] pub fn messages_runs_message_index_path_v1(&self, id: &str) -> (r: PathBuf) ensures r.of == idx_file(id@) { unimplemented!() }
    #[verifier::external_body] pub fn ensure_messages_runs_sidecar_best_effort_v1(&self, id: &str) -> io::Result<Option<PathBuf>> { unimplemented!() }

    //@@ fn crates/ripd/src/continuity_stream_cache.rs ContinuityStreamCache::try_read_last_message_appended_messages_runs_v1
    //@@ sig
        ensures
            ret matches Ok(Some(x)) ==> header_seen(continuity_id@, x.0, x.1@, "continuity_message_appended"@),      // [ordinal_index.last_message_is_a_message_frame_the_back_scan_returned]
    //@@ loop 0
        invariant 64 * 1024 <= backscan_bytes <= 4 * 1024 * 1024,
        decreases 4 * 1024 * 1024 - backscan_bytes      // [ordinal_index.back_scan_for_the_last_message_terminates]
    //@@ loop 1 iter=it1
        invariant
            forall|k: int| 0 <= k < it1.snapshot@.remaining().len() ==> header_seen(continuity_id@, (#[trigger] it1.snapshot@.remaining()[k]).seq, it1.snapshot@.remaining()[k].id@, it1.snapshot@.remaining()[k].event_type@),
    //@@ loopbody 1
        broadcast use group_string_eq;
    //@@ end

    //@@ fn crates/ripd/src/continuity_stream_cache.rs ContinuityStreamCache::message_count_messages_runs_v1
    //@@ sig
        ensures
            // the count is served only when the index's last record is the last message of the messages+runs sidecar
            ret matches Ok(Some(count)) ==> count >= 1 && exists|seq: u64, id: Seq<char>| #[trigger] header_seen(continuity_id@, seq, id, "continuity_message_appended"@)
                && record_at(ord_file(continuity_id@), HEADER_SIZE_V1 + (count - 1) * RECORD_SIZE_V1).seq == seq
                && uuid_text(record_at(ord_file(continuity_id@), HEADER_SIZE_V1 + (count - 1) * RECORD_SIZE_V1).id) == id,      // [ordinal_index.count_served_only_if_its_last_record_is_the_sidecars_last_message]
    //@@ entry
        broadcast use group_string_eq;
    //@@ end

    //@@ fn crates/ripd/src/continuity_stream_cache.rs ContinuityStreamCache::message_by_ordinal_messages_runs_v1
    //@@ sig
        ensures
            ret matches Ok(Some(x)) ==> ordinal >= 1 && x.0 == record_at(ord_file(continuity_id@), HEADER_SIZE_V1 + (ordinal - 1) * RECORD_SIZE_V1).seq
                && x.1@ == uuid_text(record_at(ord_file(continuity_id@), HEADER_SIZE_V1 + (ordinal - 1) * RECORD_SIZE_V1).id)
                && looked_up(idx_file(continuity_id@), x.1@, x.0),      // [ordinal_index.record_served_only_after_the_message_index_confirmed_that_id_at_that_seq]
    //@@ end
}

} // verus!
fn main() {}
