// vx: label-insensitive
// Replay of the message-ordinal index readers on real files: the REAL text (R1 only) of message_count_v1, read_message_by_ordinal_v1 and
// validate_header_v1 over index files with 0..4 records, a whole / truncated / damaged header and 0, 1 or 23 stray bytes after the last
// record.  Expected: a count only from header + whole records; the record of the ordinal asked for, for every ordinal 1..=count; no
// answer (None) for ordinal 0 and past the count; a missing file is None; a short or damaged header is an error.
use std::fs::{self, File};
use std::io::{self, Read, Seek, SeekFrom};
use std::path::Path;

#[derive(Debug, Clone, Copy, PartialEq, Eq)]
pub struct Uuid([u8; 16]);
impl Uuid { pub fn from_bytes(b: [u8; 16]) -> Uuid { Uuid(b) } }

//@@ item crates/ripd/src/message_ordinal_index.rs const MAGIC_V1
//@@ item crates/ripd/src/message_ordinal_index.rs const VERSION_V1
//@@ item crates/ripd/src/message_ordinal_index.rs const HEADER_SIZE_V1
//@@ item crates/ripd/src/message_ordinal_index.rs const RECORD_SIZE_V1
//@@ item crates/ripd/src/message_ordinal_index.rs struct MessageOrdinalRecordV1
//@@ fn crates/ripd/src/message_ordinal_index.rs message_count_v1
//@@ end
//@@ fn crates/ripd/src/message_ordinal_index.rs read_message_by_ordinal_v1
//@@ end
//@@ fn crates/ripd/src/message_ordinal_index.rs validate_header_v1
//@@ end

fn main() {
    let base = std::env::temp_dir().join(format!("rip-verif-c04ord-{}", std::process::id()));
    let _ = fs::remove_dir_all(&base);
    fs::create_dir_all(&base).unwrap();
    let path = base.join("t.mr.msgord.v1.bin");
    // missing file
    if !matches!(message_count_v1(&path), Ok(None)) || !matches!(read_message_by_ordinal_v1(&path, 1), Ok(None)) {
        println!("WITNESS {{\"function\": \"message_count_v1\", \"file\": \"missing\", \"problem\": \"a missing index is not reported as absent\"}}");
        let _ = fs::remove_dir_all(&base); return;
    }
    for header in 0..4usize {        // 0: good, 1: truncated to 10 bytes, 2: bad magic, 3: record size field says 32
        for nrec in 0..=4u64 {
            for extra in [0usize, 1, 23] {
                let mut data: Vec<u8> = Vec::new();
                data.extend_from_slice(if header == 2 { b"RIPMORDX" } else { b"RIPMORD1" });
                data.extend_from_slice(&1u32.to_le_bytes());
                data.extend_from_slice(&(if header == 3 { 32u32 } else { 24u32 }).to_le_bytes());
                data.extend_from_slice(&[0u8; 16]);
                if header == 1 { data.truncate(10); }
                let mut want: Vec<(u64, [u8; 16])> = Vec::new();
                if header != 1 {
                    for k in 0..nrec { let seq = 100 + 7 * k; let id = [k as u8 + 1; 16]; data.extend_from_slice(&seq.to_le_bytes()); data.extend_from_slice(&id); want.push((seq, id)); }
                    data.extend_from_slice(&vec![0xEEu8; extra]);
                }
                fs::write(&path, &data).unwrap();
                let desc = format!("header variant {header}, {nrec} records, {extra} stray bytes");
                let count = message_count_v1(&path);
                let ok_count = match (&count, header, extra) {
                    (Ok(Some(c)), 0, 0) => *c == nrec,
                    (Err(_), 0, 0) => false,
                    (Ok(Some(_)), _, _) => false,           // damaged header or partial record: never a count
                    (Ok(None), _, _) => false,
                    (Err(_), _, _) => true,
                };
                if !ok_count {
                    println!("WITNESS {{\"function\": \"message_count_v1\", \"file\": {:?}, \"returned\": {:?}, \"problem\": \"a count must be served exactly from a good header followed by whole records\"}}", desc, count.map_err(|e| e.to_string()));
                    let _ = fs::remove_dir_all(&base); return;
                }
                for ordinal in 0..=nrec + 2 {
                    let got = read_message_by_ordinal_v1(&path, ordinal);
                    let ok = match (&got, header) {
                        (Ok(None), _) if ordinal == 0 => true,
                        (_, _) if ordinal == 0 => false,
                        (Ok(Some(r)), 0) => (ordinal as usize) <= want.len() && r.seq == want[ordinal as usize - 1].0 && r.id == Uuid(want[ordinal as usize - 1].1),
                        (Ok(None), 0) => (ordinal as usize) > want.len(),
                        (Err(_), 0) => false,
                        (Err(_), _) => true,
                        (Ok(_), _) => false,
                    };
                    if !ok {
                        println!("WITNESS {{\"function\": \"read_message_by_ordinal_v1\", \"file\": {:?}, \"ordinal\": {}, \"returned\": {:?}, \"problem\": \"the record served must be the one of the ordinal asked for, and only from a good header\"}}", desc, ordinal, got.map_err(|e| e.to_string()));
                        let _ = fs::remove_dir_all(&base); return;
                    }
                }
            }
        }
    }
    let _ = fs::remove_dir_all(&base);
}
