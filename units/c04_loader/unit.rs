//@@ unit c04_loader properties=C04,C08
#![allow(unused_imports, dead_code, unused_variables, unused_mut)]
use vstd::prelude::*;
use vstd::std_specs::iter::IteratorSpec;

//@@ include prelude/kernel_model.rs
//@@ include prelude/strings.rs

verus! {
global size_of usize == 8;

// ---- stubs (R8; trusted) ----------------------------------------------------------------------
pub assume_specification<T, F: FnOnce() -> Option<T>>[ Option::<T>::or_else ](o: Option<T>, f: F) -> (r: Option<T>)
    requires o is None ==> f.requires(()),
    ensures o is Some ==> r == o, o is None ==> f.ensures((), r);
pub assume_specification<T>[ Option::<Option<T>>::flatten ](o: Option<Option<T>>) -> (r: Option<T>)
    ensures r == (match o { Some(Some(v)) => Some(v), _ => None });
#[verifier::external_body] pub fn vfmt() -> String { unimplemented!() }        // R9
pub mod io { use vstd::prelude::*; verus! { pub struct Error { pub filler: u8 } pub type Result<T> = std::result::Result<T, Error>; } }
pub struct TailScan { pub events: Vec<Event>, pub complete: bool }
pub struct ContinuityWindow { pub events: Vec<Event>, pub from_seq: u64, pub from_message_id: Option<String> }
pub struct ContinuityStreamCache { pub filler: u8 }
impl ContinuityStreamCache {
    #[verifier::external_body] pub fn scan_tail_messages_runs_v1(&self, id: &str, max_events: usize, max_bytes: usize) -> (r: io::Result<Option<TailScan>>)
        ensures r matches Ok(Some(t)) ==> t.complete == tail_reaches_start(t.events@),
    { unimplemented!() }
    #[verifier::external_body] pub fn try_read_last_seq(&self, id: &str) -> io::Result<Option<u64>> { unimplemented!() }
    #[verifier::external_body] pub fn window_recent_messages_v1_from_message_id(&self, id: &str, anchor: &str, limit: usize) -> (r: io::Result<Option<ContinuityWindow>>)
        ensures r matches Ok(Some(w)) ==> from_window(w.events@),
    { unimplemented!() }
}
pub struct ContinuityStore { pub stream_cache: ContinuityStreamCache }
// whether a scanned tail reaches the start of the thread (the scan's `complete` flag), and timeless facts: these frames were handed out
// by the seekable window read / by a replay of the whole stream
pub uninterp spec fn tail_reaches_start(events: Seq<Event>) -> bool;
pub uninterp spec fn from_window(events: Seq<Event>) -> bool;
pub uninterp spec fn from_replay(events: Seq<Event>) -> bool;
// the (seq, id) pairs of the message frames among the first n frames
pub open spec fn msgs_of(events: Seq<Event>, n: int) -> Seq<(u64, String)>
    decreases n
{
    if n <= 0 { Seq::empty() } else if events[n - 1].kind is ContinuityMessageAppended { msgs_of(events, n - 1).push((events[n - 1].seq, events[n - 1].id)) } else { msgs_of(events, n - 1) }
}
//@@ item crates/ripd/src/continuities.rs struct ContextCompileInput dropderive=Clone
//@@ item crates/ripd/src/context_compiler.rs const RECENT_MESSAGES_V1_LIMIT
// the tail cut resolver and the full-stream resolver through their contracts (proved in unit c08_cutpoint)
#[verifier::external_body] pub fn resolve_cutpoint_from_tail(message_events: &Vec<(u64, String)>, head_seq: u64, anchor_message_id: &str) -> Option<(u64, u64)> { unimplemented!() }
#[verifier::external_body] pub fn resolve_context_compile_cutpoint_full(events: &Vec<Event>, anchor_message_id: &str) -> Result<(u64, Option<String>), String> { unimplemented!() }
// number of messages of the tail at or before the cut: what the compiler can take from this window
pub open spec fn count_upto(msgs: Seq<(u64, String)>, from_seq: u64, n: int) -> nat
    decreases n
{
    if n <= 0 { 0 } else { count_upto(msgs, from_seq, n - 1) + (if msgs[n - 1].0 <= from_seq { 1nat } else { 0nat }) }
}
#[verifier::external_body]
pub fn count_messages_upto(message_events: &Vec<(u64, String)>, from_seq: u64) -> (r: usize)
    ensures r == count_upto(message_events@, from_seq, message_events@.len() as int),
{ unimplemented!() }
impl ContinuityStore {
    #[verifier::external_body] pub fn replay_events(&self, id: &str) -> (r: io::Result<Vec<Event>>)
        ensures r matches Ok(evs) ==> from_replay(evs@),
    { unimplemented!() }

    //@@ fn crates/ripd/src/continuities.rs ContinuityStore::load_context_compile_input_recent_messages_v1 rules=R9
    //@@ rewrite {id}.iter().filter(|(seq, _)| *seq <= from_seq).count() => count_messages_upto(&{id}, from_seq)
    //@@ sig
        ensures
            // an input served from a tail that does not reach the start of the thread holds, at or before the cut, at least as many
            // messages as the compiler will take: a shorter tail is never served (the window read or the truth log answers instead)
            ret matches Ok(inp) ==> (!tail_reaches_start(inp.continuity_events@) ==> exists|cut: u64| cut <= inp.from_seq
                && count_upto(msgs_of(inp.continuity_events@, inp.continuity_events@.len() as int), cut, msgs_of(inp.continuity_events@, inp.continuity_events@.len() as int).len() as int) >= RECENT_MESSAGES_V1_LIMIT)
                || from_window(inp.continuity_events@) || from_replay(inp.continuity_events@),        // [loader.incomplete_tail_served_only_with_enough_messages_at_or_before_the_cut]
    //@@ loop 0
        invariant 256 * 1024 <= tail_bytes <= 8 * 1024 * 1024,
        decreases 8 * 1024 * 1024 - tail_bytes          // [loader.tail_window_loop_terminates]
    //@@ loop 1 iter=it1
        invariant
            it1.snapshot@.remaining().len() == tail.events@.len(),
            forall|k: int| 0 <= k < tail.events@.len() ==> *(#[trigger] it1.snapshot@.remaining()[k]) == tail.events@[k],
            message_events@ == msgs_of(tail.events@, it1.index@),
    //@@ end
}

} // verus!
fn main() {}
