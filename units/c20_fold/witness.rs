// vx: label-insensitive
// Bounded replay of the terminal UI fold and the headless frame summaries: the WHOLE real state.rs, frame_store.rs and summary.rs (test modules cut off, otherwise verbatim)
// consume enumerated frame sequences built from one or two sample frames of EVERY EventKind variant (generated from the
// real enum on every run), with arbitrary seq orders, mixed streams, unknown ids, terminal frames without a start and
// multi-byte text at the truncation boundaries.
use std::collections::BTreeMap;
//@@ include prelude/kernel_model_plain_json.rs
pub mod rip_kernel { pub use super::{CheckpointAction, Event, EventKind, ProviderEventStatus, ToolTaskExecutionMode, ToolTaskStatus, ToolTaskStream}; }
//@@ file crates/rip-tui/src/frame_store.rs mod=frame_store uses=rip_kernel
pub use frame_store::FrameStore;
//@@ file crates/rip-tui/src/state.rs mod=state uses=rip_kernel,serde_json
use state::TuiState;
//@@ file crates/rip-tui/src/summary.rs mod=summary uses=rip_kernel

pub trait Sample { fn sample(k: usize, field: &str) -> Self; }
fn texts() -> [String; 4] { ["a".to_string(), "h\u{e9}llo w\u{f6}rld \u{20ac}\u{1f600}!".to_string(), format!("{}\n1234567", "a\u{20ac}\u{1f600}\u{e9}".repeat(440)), String::new()] }   // the third is 4408 bytes of 1/3/4/2-byte characters, sized so that the 4096-byte tail of two copies starts inside a character: two of them pass the 8 KiB preview bound, cut inside a character
impl Sample for String { fn sample(k: usize, field: &str) -> Self {
    if field.ends_with("_id") || field == "id" { return format!("{}{}", &field[..1], k % 2); }      // two ids per id field: known and unknown ones mix
    if field == "artifact_id" || field == "summary_artifact_id" { return "0123456789abcdef0123456789abcdef0123456789abcdef0123456789abcdef".to_string(); }
    texts()[k % 4].clone() } }
impl Sample for bool { fn sample(k: usize, _f: &str) -> Self { k % 2 == 0 } }
impl Sample for u64 { fn sample(k: usize, _f: &str) -> Self { [0, 5, u64::MAX][k % 3] } }
impl Sample for u32 { fn sample(k: usize, _f: &str) -> Self { [0, 7, u32::MAX][k % 3] } }
impl Sample for u16 { fn sample(k: usize, _f: &str) -> Self { [0, 80, u16::MAX][k % 3] } }
impl Sample for i32 { fn sample(k: usize, _f: &str) -> Self { [0, -1, i32::MAX][k % 3] } }
impl<T: Sample> Sample for Option<T> { fn sample(k: usize, f: &str) -> Self { if k % 2 == 0 { Some(T::sample(k / 2, f)) } else { None } } }
impl<T: Sample> Sample for Vec<T> { fn sample(k: usize, f: &str) -> Self { (0..k % 3).map(|i| T::sample(k + i, f)).collect() } }
impl Sample for Value { fn sample(k: usize, _f: &str) -> Self { match k % 4 {
    0 => Value::Null, 1 => Value::String("0123456789abcdef0123456789abcdef0123456789abcdef0123456789abcdef".into()),
    2 => { let mut m = BTreeMap::new(); m.insert("log".to_string(), Value::Array(vec![Value::String("fedcba9876543210fedcba9876543210fedcba9876543210fedcba9876543210".into()), Value::Number(3), Value::Bool(true)])); Value::Object(m) }
    _ => Value::Array(vec![Value::Null, Value::Object(BTreeMap::new())]) } } }
impl Sample for ProviderEventStatus { fn sample(k: usize, _f: &str) -> Self { [ProviderEventStatus::Event, ProviderEventStatus::Done, ProviderEventStatus::InvalidJson][k % 3].clone() } }
impl Sample for ToolTaskExecutionMode { fn sample(k: usize, _f: &str) -> Self { [ToolTaskExecutionMode::Pipes, ToolTaskExecutionMode::Pty][k % 2] } }
impl Sample for ToolTaskStatus { fn sample(k: usize, _f: &str) -> Self { [ToolTaskStatus::Queued, ToolTaskStatus::Running, ToolTaskStatus::Exited, ToolTaskStatus::Cancelled, ToolTaskStatus::Failed][k % 5] } }
impl Sample for ToolTaskStream { fn sample(k: usize, _f: &str) -> Self { [ToolTaskStream::Stdout, ToolTaskStream::Stderr, ToolTaskStream::Pty][k % 3] } }
impl Sample for CheckpointAction { fn sample(k: usize, _f: &str) -> Self { [CheckpointAction::Create, CheckpointAction::Rewind][k % 2].clone() } }
impl Sample for CompactionPlannedCutPoint { fn sample(k: usize, _f: &str) -> Self { CompactionPlannedCutPoint { target_message_ordinal: k as u64, to_seq: k as u64, to_message_id: format!("m{k}") } } }
impl Sample for ContextSelectionCompactionCheckpointV1 { fn sample(k: usize, _f: &str) -> Self { ContextSelectionCompactionCheckpointV1 { checkpoint_id: format!("c{k}"), summary_kind: "k".into(), summary_artifact_id: "a".into(), to_seq: k as u64 } } }
impl Sample for ContextSelectionResetV1 { fn sample(k: usize, _f: &str) -> Self { ContextSelectionResetV1 { input: "i".into(), action: "a".into(), reason: "r".into(), ref_: None } } }
//@@ enum_samples crates/rip-kernel/src/lib.rs EventKind fn=kinds

fn snapshot(st: &TuiState) -> String {
    format!("{:?}|{:?}|{:?}|{:?}|{:?}|{:?}|{:?}|{:?}|{:?}|{:?}|{:?}|{:?}", st.frames.iter().map(|e| (e.seq, e.id.clone())).collect::<Vec<_>>(), st.session_id, st.output_text, st.output_truncated, st.tools, st.tasks, st.jobs, st.artifacts, st.context, st.last_error_seq, st.start_ms, st.end_ms)
}
fn check(frames: &[Event], max_frames: usize, max_out: usize) -> Option<String> {
    let run = |frames: &[Event]| -> Result<TuiState, String> {
        let fr = frames.to_vec();
        std::panic::catch_unwind(move || { let mut st = TuiState::new(max_frames, max_out); for e in fr { st.update(e);
            // the derived timings are read after every frame, as the surfaces do when they redraw: total for any order of time stamps
            let _ = (st.ttft_ms(), st.e2e_ms(), st.openresponses_headers_ms(), st.openresponses_first_byte_ms(), st.openresponses_first_provider_event_ms()); } st }).map_err(|e| e.downcast_ref::<String>().cloned().or_else(|| e.downcast_ref::<&str>().map(|s| s.to_string())).unwrap_or_else(|| "panic".into()))
    };
    // headless summaries of every frame: total and deterministic
    for e in frames {
        let e1 = e.clone();
        match std::panic::catch_unwind(move || (summary::event_type(&e1).to_string(), summary::event_summary(&e1))) {
            Err(p) => return Some(format!("event_summary panicked on a {} frame: {}", summary::event_type(e), p.downcast_ref::<String>().cloned().or_else(|| p.downcast_ref::<&str>().map(|s| s.to_string())).unwrap_or_default())),
            Ok(x) => if x != (summary::event_type(e).to_string(), summary::event_summary(e)) { return Some("event_summary gave two different texts for one frame".into()); }
        }
    }
    let a = match run(frames) { Ok(s) => s, Err(p) => return Some(format!("the fold panicked: {p}")) };
    let b = run(frames).unwrap();
    if snapshot(&a) != snapshot(&b) { return Some("the same frames gave two different states".into()); }
    if a.frames.len() > max_frames.max(1) { return Some(format!("{} frames held, the bound is {}", a.frames.len(), max_frames.max(1))); }
    if a.output_text.len() > max_out.max(1) + 4 { return Some(format!("output text holds {} bytes, the bound is {}", a.output_text.len(), max_out)); }
    let prev_bound = 8192 + 4;
    if a.tools.values().any(|t| t.stdout_preview.len() > prev_bound || t.stderr_preview.len() > prev_bound) || a.tasks.values().any(|t| t.stdout_preview.len() > prev_bound || t.stderr_preview.len() > prev_bound || t.pty_preview.len() > prev_bound) { return Some("a preview exceeds its bound".into()); }
    for q in frames.iter().map(|e| e.seq).chain([0, 1, 2, 9]) { if let Some(e) = a.frames.get_by_seq(q) { if e.seq != q { return Some(format!("get_by_seq({q}) returned the frame with seq {}", e.seq)); } } }
    None
}

fn main() {
    let thorough = std::env::var("VX_TIER").as_deref() == Ok("thorough");
    let hook = std::panic::take_hook(); std::panic::set_hook(Box::new(|_| {}));
    // the frame alphabet: every variant of the real enum, two or three field fillings each, on two streams
    let mut alphabet: Vec<(usize, EventKind)> = Vec::new();
    for k in 0..if thorough { 4 } else { 3 } { for kind in kinds(k) { alphabet.push((k, kind)); } }
    let n = alphabet.len();
    let mk = |i: usize, seq: u64| { let (k, kind) = &alphabet[i % n]; Event { id: format!("e{i}"), session_id: if i % 5 == 4 { "other".into() } else { "s".into() }, timestamp_ms: [0u64, 10, 5, u64::MAX][(i + *k) % 4], seq, kind: kind.clone() } };
    let report = |what: &str, idx: &[usize], seqs: &[u64], mf: usize, mo: usize| { println!("WITNESS {{\"function\": \"TuiState::update\", \"frame_kinds\": {:?}, \"frame_seqs\": {:?}, \"max_frames\": {}, \"max_output_bytes\": {}, \"problem\": {:?}}}", idx.iter().map(|i| format!("{:?}", alphabet[*i % n].1).split(|c: char| !c.is_alphanumeric()).next().unwrap_or("").to_string()).collect::<Vec<_>>(), seqs, mf, mo, what); std::process::exit(0) };
    // (1) every single frame and every ordered pair of frames, seqs ascending / equal / descending
    for (mf, mo) in [(0usize, 0usize), (2, 16), (64, 1 << 20)] {
        for i in 0..n { if let Some(p) = check(&[mk(i, 0)], mf, mo) { report(&p, &[i], &[0], mf, mo); }
            for j in 0..n { for (s1, s2) in [(0u64, 1u64), (1, 1), (7, 2)] { if let Some(p) = check(&[mk(i, s1), mk(j, s2)], mf, mo) { report(&p, &[i, j], &[s1, s2], mf, mo); } } } }
    }
    // (1b) after every start-like frame (started / spawned, every filling): each frame five times in a row, then every frame once -
    //      drives previews and output text past their bounds with multi-byte text and exercises frames for known and unknown ids
    let starts: Vec<usize> = (0..n).filter(|i| { let d = format!("{:?}", alphabet[*i].1); d.starts_with("ToolStarted") || d.starts_with("ToolTaskSpawned") || d.starts_with("SessionStarted") || d.contains("JobSpawned") }).collect();
    for (mf, mo) in [(2usize, 16usize), (64, 9000)] { for j in 0..n {
        let mut idx: Vec<usize> = starts.clone(); idx.extend(std::iter::repeat(j).take(5)); 
        let seqs: Vec<u64> = (0..idx.len() as u64).collect();
        let frames: Vec<Event> = idx.iter().zip(&seqs).map(|(i, s)| mk(*i, *s)).collect();
        if let Some(p) = check(&frames, mf, mo) { report(&p, &idx, &seqs, mf, mo); }
    } }
    // (2) longer pseudo-random sequences (fixed LCG, so every run explores the same cases): length 40, repeated text growth past the bounds
    let mut x: u64 = 0x9E3779B97F4A7C15;
    let mut next = || { x = x.wrapping_mul(6364136223846793005).wrapping_add(1442695040888963407); (x >> 33) as usize };
    for round in 0..if thorough { 4000 } else { 600 } {
        let len = 1 + next() % 40;
        let idx: Vec<usize> = (0..len).map(|_| next() % n).collect();
        let seqs: Vec<u64> = (0..len).map(|p| match round % 3 { 0 => p as u64, 1 => (next() % 6) as u64, _ => (len - p) as u64 }).collect();
        let frames: Vec<Event> = idx.iter().zip(&seqs).map(|(i, s)| mk(*i, *s)).collect();
        let (mf, mo) = [(1usize, 5usize), (3, 17), (8, 64), (1000, 100_000)][round % 4];
        if let Some(p) = check(&frames, mf, mo) { report(&p, &idx, &seqs, mf, mo); }
    }
    std::panic::set_hook(hook);
}
