//@@ unit c20_fold properties=C20 noverus bounded=fold.any_frame_sequence_is_consumed_without_crash_within_bounds_deterministically
// This unit carries no Verus obligations: TuiState::update is a 40-arm fold over BTreeMap/BTreeSet summaries, serde_json values and
// String slicing (Verus has no BTreeMap specification and rejects most of its idioms); its two bounded buffers (push_output,
// push_preview) and the FrameStore ARE proved in c20_buffers / c20_framestore.  The fold as a whole is checked here as a BOUNDED
// stand-in by units/c20_fold/witness.rs: the whole real state.rs and frame_store.rs run natively over (1) every single frame and
// every ordered pair of frames from an alphabet holding every EventKind variant (generated from the real enum on every run) in
// three (quick) / four (thorough) field fillings - known and unknown ids, two streams, extreme timestamps, JSON payloads with and
// without artifact ids, a 4.4 KB text of 1/2/3/4-byte characters sized to cut inside a character - with ascending / equal /
// descending seqs and three capacity settings; (2) after all start-like frames, each frame five times in a row; (3) 600 / 4000
// fixed pseudo-random sequences of up to 40 frames.  Every frame is also rendered by the real summary.rs (event_type / event_summary: total, same text twice).  Checked: no panic, frames <= max_frames, output text and previews within
// their bounds, two runs give the same state, get_by_seq returns a frame with that seq or nothing.  Never counted as proved.
fn main() {}
