//@@ unit c16_choice properties=C16
// Which tools the configured tool choice excludes (C16: "a tool excluded by the configured tool choice is never executed").  Unit c16_loop
// proves that the loop executes a call only if `allows_function` says so; here the real ToolChoiceEnforcement::from_value and
// allows_function are verified against a reading of the tool-choice value written from the OpenResponses meaning of the field:
// "none" excludes every tool; any other string (auto, required) excludes none; {type: function, name: n} excludes every tool but n;
// {type: allowed_tools, tools: [...]} excludes every tool that is not listed as a function with that (non-empty) name, and with
// mode "none" every tool; any other shape excludes none.  JSON values: an enum with an opaque member map (as in c16_gate); the name set
// (HashSet<String>) is an opaque set with insert / contains.
#![allow(unused_imports, dead_code, unused_variables, unused_mut)]
use vstd::prelude::*;

//@@ include prelude/strings.rs

verus! {
global size_of usize == 8;

pub struct JMap { pub filler: u8 }
pub enum Value { Null, Bool(bool), Number(u8), String(String), Array(Vec<Value>), Object(JMap) }
pub uninterp spec fn members(m: JMap) -> Map<Seq<char>, Value>;
pub open spec fn str_member(m: JMap, k: Seq<char>) -> Option<Seq<char>> {
    if members(m).contains_key(k) { match members(m)[k] { Value::String(s) => Some(s@), _ => None } } else { None }
}
pub open spec fn arr_member(m: JMap, k: Seq<char>) -> Option<Seq<Value>> {
    if members(m).contains_key(k) { match members(m)[k] { Value::Array(a) => Some(a@), _ => None } } else { None }
}
// `X.get(k).and_then(|value| value.as_str())` and `.as_array()` (R11)
#[verifier::external_body] pub fn vget_str<'a>(m: &'a JMap, k: &str) -> (r: Option<&'a str>)
    ensures r is Some == (str_member(*m, k@) is Some), r matches Some(s) ==> s@ == str_member(*m, k@)->Some_0 { unimplemented!() }
#[verifier::external_body] pub fn vget_array<'a>(m: &'a JMap, k: &str) -> (r: Option<&'a Vec<Value>>)
    ensures r is Some == (arr_member(*m, k@) is Some), r matches Some(a) ==> a@ == arr_member(*m, k@)->Some_0 { unimplemented!() }
impl Value {
    pub fn as_object(&self) -> (r: Option<&JMap>) ensures r == (match *self { Value::Object(m) => Some(&m), _ => None }) { match self { Value::Object(m) => Some(m), _ => None } }
}
pub struct NameSet { pub s: Set<Seq<char>>, pub filler: u8 }
impl NameSet {
    #[verifier::external_body] pub fn new() -> (r: NameSet) ensures r.s == Set::<Seq<char>>::empty() { unimplemented!() }
    #[verifier::external_body] pub fn insert(&mut self, n: String) -> (r: bool) ensures final(self).s == old(self).s.insert(n@) { unimplemented!() }
    #[verifier::external_body] pub fn contains(&self, n: &str) -> (r: bool) ensures r == self.s.contains(n@) { unimplemented!() }
}
pub enum ToolChoiceEnforcement { AllFunctions, NoTools, OnlyFunctions(NameSet) }      // the source's enum with HashSet<String> replaced
// std: `&str == &str` / Option<&str> == Option<&str> compare the character sequences (trusted)
#[verifier::external_body] pub fn vopt_is(o: Option<&str>, lit: &str) -> (r: bool) ensures r == (o matches Some(s) && s@ == lit@) { unimplemented!() }
#[verifier::external_body] pub fn vopt_is_not(o: Option<&str>, lit: &str) -> (r: bool) ensures r == !(o matches Some(s) && s@ == lit@) { unimplemented!() }
pub broadcast axiom fn axiom_str_view_injective(a: &str, b: &str)
    ensures #![trigger a@, b@] a@ == b@ ==> a == b;

// ---- the reading of the field, from the meaning of tool_choice ------------------------------------------------------------------------------
pub open spec fn listed(tools: Seq<Value>, name: Seq<char>, n: int) -> bool
    decreases n
{
    if n <= 0 { false } else {
        listed(tools, name, n - 1) || (tools[n - 1] matches Value::Object(t) && str_member(t, "type"@) == Some("function"@) && str_member(t, "name"@) == Some(name) && name.len() > 0)
    }
}
pub open spec fn excluded(v: Value, name: Seq<char>) -> bool {
    match v {
        Value::String(s) => s@ == "none"@,
        Value::Object(o) => match str_member(o, "type"@) {
            Some(t) => if t == "function"@ {
                    !(str_member(o, "name"@) == Some(name) && name.len() > 0)
                } else if t == "allowed_tools"@ {
                    str_member(o, "mode"@) == Some("none"@) || !(arr_member(o, "tools"@) matches Some(tools) && listed(tools, name, tools.len() as int))
                } else { false },
            None => false,
        },
        _ => false,
    }
}
pub open spec fn allows(e: ToolChoiceEnforcement, name: Seq<char>) -> bool {
    match e { ToolChoiceEnforcement::AllFunctions => true, ToolChoiceEnforcement::NoTools => false, ToolChoiceEnforcement::OnlyFunctions(s) => s.s.contains(name) }
}

impl ToolChoiceEnforcement {
    //@@ fn crates/ripd/src/session.rs ToolChoiceEnforcement::from_value r7=0
    //@@ rewrite obj.get("type").and_then(|value| value.as_str()) ==>> vget_str(obj, "type")
    //@@ rewrite {id}.get("name").and_then(|value| value.as_str()) ==>> vget_str({id}, "name")
    //@@ rewrite obj.get("mode").and_then(|value| value.as_str()) == Some("none") ==>> vopt_is(vget_str(obj, "mode"), "none")
    //@@ rewrite obj.get("tools").and_then(|value| value.as_array()) ==>> vget_array(obj, "tools")
    //@@ rewrite tool.get("type").and_then(|value| value.as_str()) != Some("function") ==>> vopt_is_not(vget_str(tool, "type"), "function")
    //@@ rewrite HashSet::new() ==>> NameSet::new()
    //@@ sig
        ensures
            forall|name: Seq<char>| #[trigger] allows(ret, name) == !excluded(*value, name),      // [tool_choice.a_tool_is_allowed_exactly_when_the_configured_choice_does_not_exclude_it]
    //@@ entry
        broadcast use axiom_str_view_injective;
        proof { reveal_strlit("none"); reveal_strlit("function"); reveal_strlit("allowed_tools"); reveal_strlit("type"); reveal_strlit("name"); reveal_strlit("mode"); reveal_strlit("tools"); }
    //@@ loop 0
        invariant __i0 <= __s0.len(), __s0@ == tools@,
            forall|name: Seq<char>| #[trigger] allowed.s.contains(name) == listed(tools@, name, __i0 as int),
        decreases __s0.len() - __i0
    //@@ end

    //@@ fn crates/ripd/src/session.rs ToolChoiceEnforcement::allows_function
    //@@ sig
        ensures ret == allows(*self, name@),      // [tool_choice.allows_function_reads_the_enforcement]
    //@@ end
}

} // verus!
fn main() {}
