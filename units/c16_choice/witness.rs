// vx: label-insensitive
// Replay of the tool-choice gate: the REAL text of ToolChoiceEnforcement::from_value / allows_function (R1 only) over a JSON value model with
// the real accessor names, for every tool-choice value of an enumerated family and the tool names "", "a", "b", "c", against the reading of
// the field ("none": nothing allowed; other strings: everything; named function: only it; allowed_tools: only the listed functions, nothing
// with mode none; other shapes: everything).
use std::collections::{BTreeMap, HashSet};
pub mod serde_json { #[derive(Clone, Debug, PartialEq)] pub enum Value { Null, Bool(bool), Number(i64), String(String), Array(Vec<Value>), Object(std::collections::BTreeMap<String, Value>) } }
pub use serde_json::Value;
impl Value {
    pub fn get(&self, key: &str) -> Option<&Value> { match self { Value::Object(m) => m.get(key), _ => None } }
    pub fn as_str(&self) -> Option<&str> { match self { Value::String(s) => Some(s.as_str()), _ => None } }
    pub fn as_array(&self) -> Option<&Vec<Value>> { match self { Value::Array(a) => Some(a), _ => None } }
    pub fn as_object(&self) -> Option<&BTreeMap<String, Value>> { match self { Value::Object(m) => Some(m), _ => None } }
}
//@@ item crates/ripd/src/session.rs enum ToolChoiceEnforcement
impl ToolChoiceEnforcement {
    //@@ fn crates/ripd/src/session.rs ToolChoiceEnforcement::from_value
    //@@ end
    //@@ fn crates/ripd/src/session.rs ToolChoiceEnforcement::allows_function
    //@@ end
}
fn s(x: &str) -> Value { Value::String(x.to_string()) }
fn obj(kv: &[(&str, Value)]) -> Value { Value::Object(kv.iter().map(|(k, v)| (k.to_string(), v.clone())).collect()) }
fn expected(v: &Value, name: &str) -> bool {      // allowed?
    match v {
        Value::String(x) => x != "none",
        Value::Object(o) => match o.get("type").and_then(|t| t.as_str()) {
            Some("function") => !name.is_empty() && o.get("name").and_then(|n| n.as_str()) == Some(name),
            Some("allowed_tools") => {
                if o.get("mode").and_then(|m| m.as_str()) == Some("none") { return false; }
                match o.get("tools").and_then(|t| t.as_array()) {
                    Some(ts) => !name.is_empty() && ts.iter().any(|t| t.get("type").and_then(|x| x.as_str()) == Some("function") && t.get("name").and_then(|x| x.as_str()) == Some(name) && t.as_object().is_some()),
                    None => false,
                }
            }
            _ => true,
        },
        _ => true,
    }
}
fn main() {
    let tool_entries = vec![
        obj(&[("type", s("function")), ("name", s("a"))]), obj(&[("type", s("function")), ("name", s("b"))]), obj(&[("type", s("function")), ("name", s(""))]),
        obj(&[("type", s("web_search")), ("name", s("c"))]), obj(&[("name", s("c"))]), obj(&[("type", s("function"))]), s("a"), Value::Null,
        obj(&[("type", s("function")), ("name", Value::Number(1))]),
    ];
    let mut choices: Vec<Value> = vec![s("none"), s("auto"), s("required"), s(""), Value::Null, Value::Bool(true), Value::Array(vec![s("none")]),
        obj(&[]), obj(&[("type", s("function"))]), obj(&[("type", s("function")), ("name", s("a"))]), obj(&[("type", s("function")), ("name", s(""))]),
        obj(&[("type", s("function")), ("name", Value::Number(3))]), obj(&[("type", Value::Number(1)), ("name", s("a"))]), obj(&[("type", s("mcp")), ("name", s("a"))]),
        obj(&[("type", s("allowed_tools"))]), obj(&[("type", s("allowed_tools")), ("tools", s("a"))]), obj(&[("type", s("allowed_tools")), ("mode", s("none"))])];
    for mode in [None, Some("auto"), Some("required"), Some("none")] {
        for mask in 0..(1usize << tool_entries.len()) {
            if mask.count_ones() > 3 { continue; }
            let ts: Vec<Value> = tool_entries.iter().enumerate().filter(|(i, _)| (mask >> i) & 1 == 1).map(|(_, t)| t.clone()).collect();
            let mut kv = vec![("type", s("allowed_tools")), ("tools", Value::Array(ts))];
            if let Some(m) = mode { kv.push(("mode", s(m))); }
            choices.push(obj(&kv));
        }
    }
    for v in &choices {
        let e = ToolChoiceEnforcement::from_value(v);
        for name in ["", "a", "b", "c"] {
            let got = e.allows_function(name); let want = expected(v, name);
            if got != want {
                println!("WITNESS {{\"function\": \"ToolChoiceEnforcement::from_value\", \"tool_choice\": {:?}, \"tool\": {:?}, \"allowed\": {}, \"the_configured_choice_allows_it\": {}}}", format!("{:?}", v), name, got, want);
                return;
            }
        }
    }
}
