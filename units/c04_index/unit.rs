//@@ unit c04_index properties=C04
#![allow(unused_imports, dead_code, unused_variables, unused_mut)]
use vstd::prelude::*;
use std::cmp::Ordering;

verus! {

global size_of usize == 8;

// assumed std contract: on a slice sorted with respect to the comparator, binary_search_by returns the
// position of an Equal element, or the insertion point that separates Less from Greater
pub assume_specification<'a, T, F: FnMut(&'a T) -> Ordering>[ <[T]>::binary_search_by ](s: &'a [T], f: F) -> (r: Result<usize, usize>)
    requires forall|x: &'a T| #[trigger] f.requires((x,)),
    ensures
        (forall|i: int, j: int, a: Ordering, b: Ordering| 0 <= i < j < s@.len() && f.ensures((&#[trigger] s@[i],), a) && f.ensures((&#[trigger] s@[j],), b)
            ==> !(a is Greater && !(b is Greater)) && !(a is Equal && b is Less)) ==> match r {
            Ok(i) => i < s@.len() && f.ensures((&s@[i as int],), Ordering::Equal),
            Err(i) => i <= s@.len()
                && (forall|j: int| 0 <= j < i ==> f.ensures((&#[trigger] s@[j],), Ordering::Less))
                && (forall|j: int| i <= j < s@.len() ==> f.ensures((&#[trigger] s@[j],), Ordering::Greater)),
        };

//@@ item crates/ripd/src/continuity_seek_index.rs struct SeqSeekIndexEntryV1 dropderive=Clone
//@@ item crates/ripd/src/continuity_seek_index.rs struct MsgIndexHeader
//@@ item crates/ripd/src/continuity_seek_index.rs const MSG_INDEX_HEADER_SIZE
//@@ item crates/ripd/src/continuity_seek_index.rs const MSG_INDEX_SLOT_SIZE

pub open spec fn seq_ascending(e: Seq<SeqSeekIndexEntryV1>) -> bool {
    forall|i: int, j: int| 0 <= i < j < e.len() ==> (#[trigger] e[i]).seq < (#[trigger] e[j]).seq
}

//@@ fn crates/ripd/src/continuity_seek_index.rs best_offset_for_seq
//@@ sig
    requires seq_ascending(entries@),
    ensures
        // offset of the last entry with seq <= target, or 0 when every entry lies beyond the target
        (forall|k: int| 0 <= k < entries@.len() ==> (#[trigger] entries@[k]).seq > target_seq) ==> ret == 0,                    // [best_offset.zero_when_no_entry_at_or_before_target]
        (exists|k: int| 0 <= k < entries@.len() && (#[trigger] entries@[k]).seq <= target_seq) ==>
            exists|k: int| 0 <= k < entries@.len() && (#[trigger] entries@[k]).seq <= target_seq && ret == entries@[k].offset
                && (k + 1 == entries@.len() || entries@[k + 1].seq > target_seq),                                                  // [best_offset.last_entry_at_or_before_target]
//@@ closure 0
    -> (o: Ordering) ensures o == (if entry.seq < target_seq { Ordering::Less } else if entry.seq == target_seq { Ordering::Equal } else { Ordering::Greater })
//@@ end

pub open spec fn smear(x: u64) -> u64 {
    let a = x | (x >> 1u64);
    let b = a | (a >> 2u64);
    let c = b | (b >> 4u64);
    let d = c | (c >> 8u64);
    let e = d | (d >> 16u64);
    e | (e >> 32u64)
}
// bit-vector fact: smearing the highest set bit downwards gives 2^k - 1 with 2^(k-1) <= x
pub proof fn lemma_smear(x: u64)
    requires x >= 1, x < 0x8000_0000_0000_0000u64,
    ensures
        smear(x) < u64::MAX,
        smear(x) >= x,
        (add(smear(x), 1) & smear(x)) == 0,
        add(smear(x), 1) / 2 <= x,
{
    assert(smear(x) < 0xffff_ffff_ffff_ffffu64 && smear(x) >= x && (add(smear(x), 1) & smear(x)) == 0 && add(smear(x), 1) / 2 <= x) by (bit_vector)
        requires x >= 1, x < 0x8000_0000_0000_0000u64;
}

//@@ fn crates/ripd/src/continuity_seek_index.rs next_power_of_two_u64
//@@ entry
    let ghost v0 = v;
    proof { assert((1u64 & sub(1u64, 1u64)) == 0) by (bit_vector); }
//@@ tail
    proof {
        if v0 <= 0x8000_0000_0000_0000u64 && v0 > 1 {
            assert(v == smear((v0 - 1) as u64));
            lemma_smear((v0 - 1) as u64);
        }
    }
//@@ sig
    ensures
        ret >= 1,                                                                                  // [next_pow2.positive]
        v <= 0x8000_0000_0000_0000u64 ==> (ret >= v && (ret & sub(ret, 1)) == 0),                  // [next_pow2.power_of_two_at_least_v]
        (1 < v && v <= 0x8000_0000_0000_0000u64) ==> ret / 2 < v,                                  // [next_pow2.least_such_power]
//@@ end

//@@ fn crates/ripd/src/continuity_seek_index.rs message_index_should_grow
//@@ sig
    ensures
        (header.len <= u64::MAX / 10 && header.capacity <= u64::MAX / 7) ==> ret == (header.len * 10 >= header.capacity * 7),   // [should_grow.load_factor_seven_tenths]
//@@ end

//@@ fn crates/ripd/src/continuity_seek_index.rs msg_index_slot_offset
//@@ sig
    ensures
        // never wraps: exact while representable, pinned to u64::MAX (beyond any file) otherwise
        ret == (if MSG_INDEX_HEADER_SIZE + slot * MSG_INDEX_SLOT_SIZE <= u64::MAX { (MSG_INDEX_HEADER_SIZE + slot * MSG_INDEX_SLOT_SIZE) as u64 } else { u64::MAX }),   // [slot_offset.exact_or_saturated]
//@@ end

// ---- file-backed message index: stubs with a ghost position / length (R8; trusted) -------------------
pub mod io {
    use vstd::prelude::*;
    verus! {
    #[derive(PartialEq, Eq)]
    pub enum ErrorKind { NotFound, InvalidData, UnexpectedEof, Other }
    pub struct Error { pub filler: u8 }
    impl Error {
        #[verifier::external_body] pub fn new(kind: ErrorKind, msg: &str) -> Error { unimplemented!() }
        #[verifier::external_body] pub fn kind(&self) -> ErrorKind { unimplemented!() }
    }
    pub type Result<T> = std::result::Result<T, Error>;
    } // verus!
}
pub enum SeekFrom { Start(u64) }
pub struct Path { pub filler: u8 }
pub struct File { pub filler: u8 }
impl File {
    pub uninterp spec fn pos(&self) -> int;
    pub uninterp spec fn len(&self) -> int;      // files are shorter than 2^63 bytes
    #[verifier::external_body]
    pub fn open(p: &Path) -> (r: io::Result<File>) ensures r matches Ok(f) ==> 0 <= f.len() < 0x8000_0000_0000_0000 { unimplemented!() }
    #[verifier::external_body]
    pub fn seek(&mut self, s: SeekFrom) -> (r: io::Result<u64>)
        ensures final(self).len() == old(self).len(), r is Ok ==> (s matches SeekFrom::Start(o) ==> final(self).pos() == o),
    { unimplemented!() }
    // read_exact succeeds only if the whole buffer lies inside the file
    #[verifier::external_body]
    pub fn read_exact(&mut self, buf: &mut [u8]) -> (r: io::Result<()>)
        ensures final(self).len() == old(self).len(), final(buf)@.len() == old(buf)@.len(),
            r is Ok ==> old(self).pos() + old(buf)@.len() <= old(self).len(),
    { unimplemented!() }
}
pub struct Uuid { pub filler: u8 }
pub struct UuidError { pub filler: u8 }
impl Uuid {
    #[verifier::external_body] pub fn parse_str(s: &str) -> Result<Uuid, UuidError> { unimplemented!() }
    #[verifier::external_body] pub fn into_bytes(self) -> [u8; 16] { unimplemented!() }
}
#[verifier::external_body]
pub fn read_msg_index_header(file: &mut File) -> (r: io::Result<MsgIndexHeader>)
    ensures final(file).len() == old(file).len(), r matches Ok(h) ==> h.capacity > 0,      // any capacity a (corrupted) header may claim
{ unimplemented!() }
#[verifier::external_body]
pub fn read_slot_payload(file: &mut File, offset: u64) -> (r: io::Result<(u64, u64)>)
    ensures final(file).len() == old(file).len(),
{ unimplemented!() }

//@@ fn crates/ripd/src/continuity_seek_index.rs hash_uuid_v1
//@@ sig
//@@ end

//@@ fn crates/ripd/src/continuity_seek_index.rs read_slot_state
//@@ sig
    requires 0 <= old(file).len() < 0x8000_0000_0000_0000,
    ensures final(file).len() == old(file).len(), ret is Ok ==> offset < final(file).len(),     // [read_slot_state.ok_only_inside_file]
//@@ end

//@@ fn crates/ripd/src/continuity_seek_index.rs read_slot_key
//@@ sig
    requires offset < u64::MAX,
    ensures final(file).len() == old(file).len(),
//@@ end

//@@ fn crates/ripd/src/continuity_seek_index.rs lookup_message_v1
//@@ sig
//@@ entry
    proof { assert(forall|h: u64, m: u64| #[trigger] (h & m) <= m) by (bit_vector); }
//@@ loopbody 0
    proof { assert(forall|h: u64, m: u64| #[trigger] (h & m) <= m) by (bit_vector); }
//@@ loop 0
    invariant
        cap > 0, mask == cap - 1, (cap & mask) == 0,
        slot <= mask,                                                                             // [lookup.probe_stays_inside_the_table]
        0 <= file.len() < 0x8000_0000_0000_0000,
//@@ end

} // verus!
fn main() {}
