// Replay enumerator for the index kernels: real function text, plain rustc (overflow checks on, as in dev/test builds).
use std::cmp::Ordering;
use std::io::{self, Read, Seek, SeekFrom, Write};
use std::fs::File;
use std::path::Path;
//@@ item crates/ripd/src/continuity_seek_index.rs struct SeqSeekIndexEntryV1
//@@ item crates/ripd/src/continuity_seek_index.rs struct MsgIndexHeader
//@@ item crates/ripd/src/continuity_seek_index.rs const MSG_INDEX_HEADER_SIZE
//@@ item crates/ripd/src/continuity_seek_index.rs const MSG_INDEX_SLOT_SIZE
//@@ item crates/ripd/src/continuity_seek_index.rs const MSG_INDEX_MAGIC_V1
//@@ item crates/ripd/src/continuity_seek_index.rs const MSG_INDEX_VERSION_V1
//@@ fn crates/ripd/src/continuity_seek_index.rs best_offset_for_seq
//@@ end
//@@ fn crates/ripd/src/continuity_seek_index.rs next_power_of_two_u64
//@@ end
//@@ fn crates/ripd/src/continuity_seek_index.rs message_index_should_grow
//@@ end
//@@ fn crates/ripd/src/continuity_seek_index.rs msg_index_slot_offset
//@@ end
//@@ fn crates/ripd/src/continuity_seek_index.rs hash_uuid_v1
//@@ end
//@@ fn crates/ripd/src/continuity_seek_index.rs read_msg_index_header
//@@ end
//@@ fn crates/ripd/src/continuity_seek_index.rs read_slot_state
//@@ end
//@@ fn crates/ripd/src/continuity_seek_index.rs read_slot_key
//@@ end
//@@ fn crates/ripd/src/continuity_seek_index.rs read_slot_payload
//@@ end
//@@ fn crates/ripd/src/continuity_seek_index.rs lookup_message_v1
//@@ end
pub struct Uuid([u8; 16]);
impl Uuid {
    pub fn parse_str(s: &str) -> Result<Uuid, ()> { let mut b = [0u8; 16]; for (i, c) in s.bytes().take(16).enumerate() { b[i] = c; } Ok(Uuid(b)) }
    pub fn into_bytes(self) -> [u8; 16] { self.0 }
}

fn main() {
    let args: Vec<String> = std::env::args().collect();
    let label = args.get(1).cloned().unwrap_or_default();
    std::panic::set_hook(Box::new(|_| {}));
    if label.starts_with("best_offset") {
        // ascending entries over seqs 0..8 (any subset), every target 0..9
        for mask in 0u32..256 {
            let entries: Vec<SeqSeekIndexEntryV1> = (0..8u64).filter(|i| (mask >> i) & 1 == 1).map(|i| SeqSeekIndexEntryV1 { version: 1, stride: 1, seq: i, offset: 100 + i }).collect();
            for target in 0..9u64 {
                let want = entries.iter().filter(|e| e.seq <= target).last().map(|e| e.offset).unwrap_or(0);
                let got = best_offset_for_seq(&entries, target);
                if got != want {
                    println!("WITNESS {{\"function\": \"best_offset_for_seq\", \"entry_seqs\": {:?}, \"target_seq\": {}, \"returned_offset\": {}, \"expected_offset\": {}, \"note\": \"offset = 100 + seq of the entry; 0 = scan from the start\"}}",
                        entries.iter().map(|e| e.seq).collect::<Vec<_>>(), target, got, want);
                    return;
                }
            }
        }
    } else if label.starts_with("next_pow2") {
        let mut cands: Vec<u64> = (0..=1030).collect();
        for k in 1..64u32 { for d in [-1i64, 0, 1] { cands.push(((1u128 << k) as i128 + d as i128) as u64); } }
        for v in cands {
            if v > (1u64 << 63) { continue; }
            let r = std::panic::catch_unwind(|| next_power_of_two_u64(v));
            let ok = match r { Ok(r) => r >= 1 && r >= v && r.is_power_of_two() && (v <= 1 || r / 2 < v), Err(_) => false };
            if !ok { println!("WITNESS {{\"function\": \"next_power_of_two_u64\", \"v\": {}, \"returned\": {:?}}}", v, r.ok()); return; }
        }
    } else if label.starts_with("lookup") || label.starts_with("slot_offset") || label.contains("msg_index_slot_offset") || label.starts_with("precondition_not_satisfied") {
        // corrupted headers: any power-of-two capacity a header may claim, file otherwise empty
        let dir = std::env::temp_dir().join(format!("rip-verif-w-{}", std::process::id()));
        let _ = std::fs::create_dir_all(&dir);
        let path = dir.join("msg.idx");
        for k in 0..64u32 {
            let cap: u64 = 1u64 << k;
            let mut buf = vec![0u8; 32];
            buf[0..8].copy_from_slice(MSG_INDEX_MAGIC_V1);
            buf[8..12].copy_from_slice(&MSG_INDEX_VERSION_V1.to_le_bytes());
            buf[16..24].copy_from_slice(&cap.to_le_bytes());
            std::fs::write(&path, &buf).unwrap();
            for id in ["aaaaaaaaaaaaaaaa", "zzzzzzzzzzzzzzzz", "0123456789abcdef"] {
                let p = path.clone();
                let r = std::panic::catch_unwind(move || lookup_message_v1(&p, id).map(|_| ()).map_err(|e| e.to_string()));
                if r.is_err() {
                    println!("WITNESS {{\"function\": \"lookup_message_v1\", \"index_header_capacity\": \"2^{}\", \"message_id_bytes\": {:?}, \"outcome\": \"panic (arithmetic overflow computing the slot offset) instead of an error that lets the caller fall back to the truth log\"}}", k, id);
                    let _ = std::fs::remove_dir_all(&dir);
                    return;
                }
            }
        }
        let _ = std::fs::remove_dir_all(&dir);
    }
}
