//@@ unit c08_select properties=C08
#![allow(unused_imports, dead_code, unused_variables, unused_mut)]
use vstd::prelude::*;
use vstd::std_specs::iter::IteratorSpec;
use std::collections::HashMap;

//@@ include prelude/kernel_model.rs

verus! {

pub assume_specification<T>[ <[T]>::reverse ](s: &mut [T])
    ensures final(s)@ == old(s)@.reverse();

//@@ item crates/ripd/src/context_compiler.rs struct SelectedMessage dropderive=Clone

// ---- specification, taken from the property statement --------------------------------------
// a frame is eligible iff it is a message frame at or before the cut and after the checkpoint
// (`after` = -1: no checkpoint selected)
pub open spec fn elig(e: Event, from: u64, after: int) -> bool {
    e.kind is ContinuityMessageAppended && e.seq <= from && after < e.seq
}

// eligible frames of events[lo..], in stream order
pub open spec fn elig_from(events: Seq<Event>, lo: int, from: u64, after: int) -> Seq<Event>
    decreases events.len() - lo
{
    if lo < 0 || lo >= events.len() {
        Seq::empty()
    } else if elig(events[lo], from, after) {
        seq![events[lo]] + elig_from(events, lo + 1, from, after)
    } else {
        elig_from(events, lo + 1, from, after)
    }
}

// the selected message carries the frame's fields unchanged
pub open spec fn repr(m: SelectedMessage, e: Event) -> bool {
    &&& m.seq == e.seq
    &&& m.event_id@ == e.id@
    &&& e.kind matches EventKind::ContinuityMessageAppended { actor_id, origin, content }
    &&& m.actor_id@ == actor_id@
    &&& m.origin@ == origin@
    &&& m.content@ == content@
}

// result = the last min(limit, n) eligible frames, oldest first
pub open spec fn is_recent_selection(ret: Seq<SelectedMessage>, events: Seq<Event>, from: u64, after: int, limit: usize) -> bool {
    let all = elig_from(events, 0, from, after);
    &&& ret.len() == (if limit <= all.len() { limit as int } else { all.len() as int })
    &&& forall|k: int| 0 <= k < ret.len() ==> repr(#[trigger] ret[k], all[all.len() - ret.len() + k])
}

// elig_from(events, lo) is a suffix of elig_from(events, 0)
pub proof fn lemma_suffix(events: Seq<Event>, lo: int, from: u64, after: int)
    requires 0 <= lo <= events.len(),
    ensures
        elig_from(events, lo, from, after).len() <= elig_from(events, 0, from, after).len(),
        forall|j: int| 0 <= j < elig_from(events, lo, from, after).len() ==>
            #[trigger] elig_from(events, lo, from, after)[j]
                == elig_from(events, 0, from, after)[elig_from(events, 0, from, after).len() - elig_from(events, lo, from, after).len() + j],
    decreases lo
{
    if lo > 0 {
        lemma_suffix(events, lo - 1, from, after);
        let a = elig_from(events, lo - 1, from, after);
        let b = elig_from(events, lo, from, after);
        if elig(events[lo - 1], from, after) {
            assert(a == seq![events[lo - 1]] + b);
            assert forall|j: int| 0 <= j < b.len() implies #[trigger] b[j] == a[j + 1] by {}
        } else {
            assert(a == b);
        }
    }
}

//@@ fn crates/ripd/src/context_compiler.rs select_recent_messages r7=0
//@@ sig
    ensures
        is_recent_selection(ret@, continuity_events@, from_seq, -1, limit),        // [select_recent_messages.most_recent_upto_limit_at_or_before_cut_oldest_first]
//@@ loop 0
    invariant_except_break
        selected_rev@.len() < limit,
    invariant
        __s0@ == continuity_events@,
        __i0 <= __s0@.len(),
        limit > 0,
        selected_rev@.len() == elig_from(continuity_events@, __i0 as int, from_seq, -1).len(),   // [select_recent_messages.loop.selected_count_equals_eligible_suffix]
        forall|j: int| 0 <= j < selected_rev@.len() ==> repr(#[trigger] selected_rev@[j],
            elig_from(continuity_events@, __i0 as int, from_seq, -1)[selected_rev@.len() - 1 - j]),   // [select_recent_messages.loop.selected_are_the_eligible_suffix_reversed]
    ensures
        selected_rev@.len() <= limit,
        selected_rev@.len() < limit ==> __i0 == 0,
    decreases __i0
//@@ afterloop 0
    proof {
        lemma_suffix(continuity_events@, __i0 as int, from_seq, -1);
    }
//@@ end

//@@ fn crates/ripd/src/context_compiler.rs select_recent_messages_after_seq r7=0
//@@ sig
    ensures
        is_recent_selection(ret@, continuity_events@, from_seq, after_seq as int, limit),   // [select_recent_messages_after_seq.most_recent_after_checkpoint_upto_limit_oldest_first]
//@@ loop 0
    invariant_except_break
        selected_rev@.len() < limit,
    invariant
        __s0@ == continuity_events@,
        __i0 <= __s0@.len(),
        limit > 0,
        selected_rev@.len() == elig_from(continuity_events@, __i0 as int, from_seq, after_seq as int).len(),   // [select_recent_messages_after_seq.loop.selected_count_equals_eligible_suffix]
        forall|j: int| 0 <= j < selected_rev@.len() ==> repr(#[trigger] selected_rev@[j],
            elig_from(continuity_events@, __i0 as int, from_seq, after_seq as int)[selected_rev@.len() - 1 - j]),   // [select_recent_messages_after_seq.loop.selected_are_the_eligible_suffix_reversed]
    ensures
        selected_rev@.len() <= limit,
        selected_rev@.len() < limit ==> __i0 == 0,
    decreases __i0
//@@ afterloop 0
    proof {
        lemma_suffix(continuity_events@, __i0 as int, from_seq, after_seq as int);
    }
//@@ end

// ---- reply text of a run: the concatenation of its text deltas, in stream order -------------------------------
pub open spec fn deltas_upto(ev: Seq<Event>, n: int) -> Seq<char>
    decreases n
{
    if n <= 0 { Seq::empty() } else {
        let rest = deltas_upto(ev, n - 1);
        match ev[n - 1].kind { EventKind::OutputTextDelta { delta } => rest + delta@, _ => rest }
    }
}
//@@ fn crates/ripd/src/context_compiler.rs aggregate_output_text_from_events
//@@ sig
    ensures ret@ == deltas_upto(events@, events@.len() as int),          // [aggregate_output_text.exact_concatenation_of_deltas_in_order]
//@@ loop 0 iter=it0
    invariant
        it0.snapshot@.remaining().len() == events@.len(),
        forall|k: int| 0 <= k < events@.len() ==> *(#[trigger] it0.snapshot@.remaining()[k]) == events@[k],
        out@ == deltas_upto(events@, it0.index@),
//@@ end

// ---- which run answered which message, as far as the cut point ---------------------------------------------
// trusted: String keys behave in std's HashMap (Hash and Eq of String are deterministic and consistent)
pub broadcast axiom fn axiom_string_obeys_key_model() ensures #[trigger] vstd::std_specs::hash::obeys_key_model::<String>();
// fold over the first k frames: a later run-ended frame for the same message replaces an earlier one
pub open spec fn ended_upto(events: Seq<Event>, k: int) -> Map<String, String>
    decreases k
{
    if k <= 0 { Map::empty() } else {
        let m = ended_upto(events, k - 1);
        match events[k - 1].kind {
            EventKind::ContinuityRunEnded { run_session_id, message_id, .. } => m.insert(message_id, run_session_id),
            _ => m,
        }
    }
}
// k = number of leading frames at or before the cut point (the first frame after the cut ends the scan)
pub open spec fn cut_prefix(events: Seq<Event>, from: u64, k: int) -> bool {
    &&& 0 <= k <= events.len()
    &&& forall|i: int| 0 <= i < k ==> (#[trigger] events[i]).seq <= from
    &&& (k < events.len() ==> events[k].seq > from)
}
//@@ fn crates/ripd/src/context_compiler.rs ended_runs_by_message_id r7=0
//@@ sig
    ensures
        // exactly the run-ended frames at or before the cut point decide the replies; frames after it have no influence
        exists|k: int| cut_prefix(continuity_events@, from_seq, k) && ret@ == ended_upto(continuity_events@, k),     // [ended_runs.exactly_the_run_ended_frames_at_or_before_the_cut_last_one_wins]
//@@ entry
    broadcast use vstd::std_specs::hash::group_hash_axioms; broadcast use axiom_string_obeys_key_model;
//@@ loop 0
    invariant_except_break
        forall|j: int| 0 <= j < __i0 ==> (#[trigger] continuity_events@[j]).seq <= from_seq,
        ended@ == ended_upto(continuity_events@, __i0 as int),
    invariant
        __s0@ == continuity_events@,
        __i0 <= continuity_events@.len(),
    ensures
        exists|k: int| cut_prefix(continuity_events@, from_seq, k) && ended@ == ended_upto(continuity_events@, k),
    decreases continuity_events@.len() - __i0
//@@ loopbody 0
    broadcast use vstd::std_specs::hash::group_hash_axioms; broadcast use axiom_string_obeys_key_model;
//@@ before break 0
    proof { assert(cut_prefix(continuity_events@, from_seq, __i0 - 1)); }
//@@ afterloop 0
//@@ end

} // verus!
fn main() {}
