// Replay enumerator for the message-selection kernels: real function text, plain rustc.
use std::collections::HashMap;
//@@ include prelude/kernel_model_plain.rs
//@@ item crates/ripd/src/context_compiler.rs struct SelectedMessage
//@@ fn crates/ripd/src/context_compiler.rs select_recent_messages
//@@ end
//@@ fn crates/ripd/src/context_compiler.rs select_recent_messages_after_seq
//@@ end

fn msg(seq: u64) -> Event {
    Event { id: format!("m{seq}"), session_id: "t".into(), timestamp_ms: 0, seq,
            kind: EventKind::ContinuityMessageAppended { actor_id: "u".into(), origin: "o".into(), content: format!("c{seq}") } }
}
fn other(seq: u64) -> Event {
    Event { id: format!("r{seq}"), session_id: "t".into(), timestamp_ms: 0, seq,
            kind: EventKind::ContinuityRunSpawned { run_session_id: "s".into(), message_id: "m".into(), actor_id: None, origin: None } }
}

fn main() {
    let args: Vec<String> = std::env::args().collect();
    let func = args.get(2).cloned().unwrap_or_default();
    let after_variant = func.contains("after_seq");
    // streams of length <= 6 (seq = index), every frame either a message or another continuity frame
    for n in 0..=6usize {
        for code in 0..(1usize << n) {
            let events: Vec<Event> = (0..n).map(|i| if (code >> i) & 1 == 1 { msg(i as u64) } else { other(i as u64) }).collect();
            for from in 0..=(n as u64) {
                for limit in 0..=3usize {
                    let afters: Vec<Option<u64>> = if after_variant { (0..=(n as u64)).map(Some).collect() } else { vec![None] };
                    for after in afters {
                        let got: Vec<u64> = match after {
                            None => select_recent_messages(&events, from, limit).iter().map(|m| m.seq).collect(),
                            Some(a) => select_recent_messages_after_seq(&events, from, a, limit).iter().map(|m| m.seq).collect(),
                        };
                        let all: Vec<u64> = events.iter().filter(|e| matches!(e.kind, EventKind::ContinuityMessageAppended { .. })
                            && e.seq <= from && after.map(|a| e.seq > a).unwrap_or(true)).map(|e| e.seq).collect();
                        let want: Vec<u64> = all[all.len().saturating_sub(limit)..].to_vec();
                        if got != want {
                            println!("WITNESS {{\"function\": \"{}\", \"message_frame_seqs\": {:?}, \"stream_len\": {}, \"from_seq\": {}, \"after_seq\": {:?}, \"limit\": {}, \"selected\": {:?}, \"expected\": {:?}}}",
                                if after_variant { "select_recent_messages_after_seq" } else { "select_recent_messages" },
                                events.iter().filter(|e| matches!(e.kind, EventKind::ContinuityMessageAppended { .. })).map(|e| e.seq).collect::<Vec<_>>(),
                                n, from, after, limit, got, want);
                            return;
                        }
                    }
                }
            }
        }
    }
}
