// vx: label-insensitive
// The selection kernels, ended_runs_by_message_id and the reply-text aggregation are replayed by the compiler enumerator (shared with unit c08_compile).
//@@ include units/c08_compile/witness.rs
