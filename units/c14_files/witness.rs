// Replay enumerator for files_for_invocation: real text (R1 only); serde_json::from_value and Patch are small executable
// stand-ins (a value is a pair of optional strings; a patch names the paths after "Update:" markers).
use std::path::PathBuf;
#[derive(Clone, Debug)]
pub struct Value { pub path: Option<String>, pub patch: Option<String> }
pub trait FromValue: Sized { fn from_value(v: Value) -> Result<Self, String>; }
pub mod serde_json { pub fn from_value<T: super::FromValue>(v: super::Value) -> Result<T, String> { T::from_value(v) } }
//@@ item crates/rip-tools/src/runtime.rs struct WriteArgs
//@@ item crates/rip-tools/src/runtime.rs struct ApplyPatchArgs
impl FromValue for WriteArgs { fn from_value(v: Value) -> Result<Self, String> { v.path.map(|path| WriteArgs { path }).ok_or_else(|| "missing field `path`".to_string()) } }
impl FromValue for ApplyPatchArgs { fn from_value(v: Value) -> Result<Self, String> { v.patch.map(|patch| ApplyPatchArgs { patch }).ok_or_else(|| "missing field `patch`".to_string()) } }
pub mod rip_workspace {
    use std::path::PathBuf;
    pub struct Patch { pub paths: Vec<PathBuf> }
    impl Patch {
        pub fn parse(s: &str) -> Result<Patch, String> { if s.starts_with("bad") { return Err("bad patch".into()); } Ok(Patch { paths: s.split(';').filter(|p| !p.is_empty()).map(PathBuf::from).collect() }) }
        pub fn affected_paths(&self) -> Vec<PathBuf> { self.paths.clone() }
    }
}
//@@ item crates/rip-tools/src/runtime.rs struct ToolInvocation
//@@ fn crates/rip-tools/src/runtime.rs files_for_invocation
//@@ end
// the two sides that must agree: where the write tool writes (builtins::resolve_path) and what the checkpoint of that path covers
// (Workspace::to_relative, then root.join)
use std::path::{Component, Path};
use std::io;
pub mod tool { use std::path::{Component, Path, PathBuf};
    //@@ fn crates/rip-tools/src/builtins/mod.rs resolve_path pub
    //@@ end
}
pub struct Workspace { pub root: PathBuf }
impl Workspace {
    //@@ fn crates/rip-workspace/src/lib.rs Workspace::to_relative pub
    //@@ end
    //@@ fn crates/rip-workspace/src/lib.rs Workspace::safe_join pub
    //@@ end
}
fn agreement_clause() -> bool {
    let root = PathBuf::from("/ws/root"); let ws = Workspace { root: root.clone() };
    let norm = |p: &Path| p.components().filter(|c| !matches!(c, Component::CurDir)).map(|c| c.as_os_str().to_owned()).collect::<Vec<_>>();
    for p in ["a.txt", "./a.txt", "d/b.txt", "d//b.txt", "d/./b.txt", ".env", "notes.txt ", " notes.txt", "notes.txt\n", "\tx", "a b.txt", "d/ b.txt", "d /b.txt", "..", "../x", "/abs", "", "."] {
        let inv = ToolInvocation { name: "write".into(), args: Value { path: Some(p.to_string()), patch: None }, timeout_ms: None };
        let Ok(target) = tool::resolve_path(&root, p) else { continue };          // the tool refuses: nothing can change
        let covered: Option<PathBuf> = match files_for_invocation(&inv) { Ok(Some(f)) if f.len() == 1 => ws.to_relative(&f[0]).ok().map(|rel| root.join(rel)), _ => None };
        if covered.as_ref().map(|c| norm(c)) != Some(norm(&target)) {
            println!("WITNESS {{\"function\": \"files_for_invocation\", \"tool\": \"write\", \"path_argument\": {:?}, \"file_the_tool_writes\": {:?}, \"file_the_automatic_checkpoint_covers\": {:?}, \"problem\": \"the automatic checkpoint does not cover the file the tool can change\"}}", p, target, covered);
            return true;
        }
    }
    false
}

fn main() {
    if agreement_clause() { return; }
    let names = ["write", "apply_patch", "read", "ls", "bash", "Write", ""];
    let paths = ["a.txt", "./a.txt", ".env", ".config/app.toml", "..", "../x", "/abs/file", "dir/./f", "dir//f", "", ".", "...", "a b", "./.hidden"];
    for name in names { for p in paths.iter().map(|p| Some(p.to_string())).chain([None]) { for patch in [None, Some("bad"), Some("x.txt"), Some(".env;dir/f"), Some("")] {
        let inv = ToolInvocation { name: name.to_string(), args: Value { path: p.clone(), patch: patch.map(|s| s.to_string()) }, timeout_ms: None };
        let got = files_for_invocation(&inv);
        // from the property statement: an automatic checkpoint covers exactly the files the tool can change
        let want: Result<Option<Vec<PathBuf>>, ()> = match name {
            "write" => match &p { Some(s) => Ok(Some(vec![PathBuf::from(s)])), None => Err(()) },
            "apply_patch" => match patch { Some("bad") | None => Err(()), Some(s) => Ok(Some(s.split(';').filter(|p| !p.is_empty()).map(PathBuf::from).collect())) },
            _ => Ok(None),
        };
        // same files = same components once `.` components are dropped (./a.txt and a.txt name one file)
        let norm = |v: &Vec<PathBuf>| v.iter().map(|p| p.components().filter(|c| !matches!(c, std::path::Component::CurDir)).map(|c| c.as_os_str().to_owned()).collect::<Vec<_>>()).collect::<Vec<_>>();
        let same = match (&got, &want) { (Ok(a), Ok(b)) => a.as_ref().map(norm) == b.as_ref().map(norm), (Err(_), Err(())) => true, _ => false };
        if !same {
            println!("WITNESS {{\"function\": \"files_for_invocation\", \"tool\": {:?}, \"path_argument\": {:?}, \"patch_argument\": {:?}, \"files_to_checkpoint\": {:?}, \"files_the_tool_can_change\": {:?}}}", name, p, patch, format!("{:?}", got), format!("{:?}", want));
            return;
        }
    } } }
}
