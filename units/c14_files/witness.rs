// Replay enumerator for files_for_invocation: real text (R1 only); serde_json::from_value and Patch are small executable
// stand-ins (a value is a pair of optional strings; a patch names the paths after "Update:" markers).
use std::path::PathBuf;
#[derive(Clone, Debug)]
pub struct Value { pub path: Option<String>, pub patch: Option<String> }
pub trait FromValue: Sized { fn from_value(v: Value) -> Result<Self, String>; }
pub mod serde_json { pub fn from_value<T: super::FromValue>(v: super::Value) -> Result<T, String> { T::from_value(v) } }
//@@ item crates/rip-tools/src/runtime.rs struct WriteArgs
//@@ item crates/rip-tools/src/runtime.rs struct ApplyPatchArgs
impl FromValue for WriteArgs { fn from_value(v: Value) -> Result<Self, String> { v.path.map(|path| WriteArgs { path }).ok_or_else(|| "missing field `path`".to_string()) } }
impl FromValue for ApplyPatchArgs { fn from_value(v: Value) -> Result<Self, String> { v.patch.map(|patch| ApplyPatchArgs { patch }).ok_or_else(|| "missing field `patch`".to_string()) } }
pub mod rip_workspace {
    use std::path::PathBuf;
    pub struct Patch { pub paths: Vec<PathBuf> }
    impl Patch {
        pub fn parse(s: &str) -> Result<Patch, String> { if s.starts_with("bad") { return Err("bad patch".into()); } Ok(Patch { paths: s.split(';').filter(|p| !p.is_empty()).map(PathBuf::from).collect() }) }
        pub fn affected_paths(&self) -> Vec<PathBuf> { self.paths.clone() }
    }
}
//@@ item crates/rip-tools/src/runtime.rs struct ToolInvocation
//@@ fn crates/rip-tools/src/runtime.rs files_for_invocation
//@@ end

fn main() {
    let names = ["write", "apply_patch", "read", "ls", "bash", "Write", ""];
    let paths = ["a.txt", "./a.txt", ".env", ".config/app.toml", "..", "../x", "/abs/file", "dir/./f", "dir//f", "", ".", "...", "a b", "./.hidden"];
    for name in names { for p in paths.iter().map(|p| Some(p.to_string())).chain([None]) { for patch in [None, Some("bad"), Some("x.txt"), Some(".env;dir/f"), Some("")] {
        let inv = ToolInvocation { name: name.to_string(), args: Value { path: p.clone(), patch: patch.map(|s| s.to_string()) }, timeout_ms: None };
        let got = files_for_invocation(&inv);
        // from the property statement: an automatic checkpoint covers exactly the files the tool can change
        let want: Result<Option<Vec<PathBuf>>, ()> = match name {
            "write" => match &p { Some(s) => Ok(Some(vec![PathBuf::from(s)])), None => Err(()) },
            "apply_patch" => match patch { Some("bad") | None => Err(()), Some(s) => Ok(Some(s.split(';').filter(|p| !p.is_empty()).map(PathBuf::from).collect())) },
            _ => Ok(None),
        };
        // same files = same components once `.` components are dropped (./a.txt and a.txt name one file)
        let norm = |v: &Vec<PathBuf>| v.iter().map(|p| p.components().filter(|c| !matches!(c, std::path::Component::CurDir)).map(|c| c.as_os_str().to_owned()).collect::<Vec<_>>()).collect::<Vec<_>>();
        let same = match (&got, &want) { (Ok(a), Ok(b)) => a.as_ref().map(norm) == b.as_ref().map(norm), (Err(_), Err(())) => true, _ => false };
        if !same {
            println!("WITNESS {{\"function\": \"files_for_invocation\", \"tool\": {:?}, \"path_argument\": {:?}, \"patch_argument\": {:?}, \"files_to_checkpoint\": {:?}, \"files_the_tool_can_change\": {:?}}}", name, p, patch, format!("{:?}", got), format!("{:?}", want));
            return;
        }
    } } }
}
