//@@ unit c14_files properties=C14 bounded=files.checkpoint_covers_the_file_the_write_tool_changes
#![allow(unused_imports, dead_code, unused_variables, unused_mut)]
use vstd::prelude::*;

verus! {

// ---- stubs (R8; trusted) ----------------------------------------------------------------------
#[verifier::external_body] pub fn vfmt() -> String { unimplemented!() }       // R9
// trusted: two strs with the same characters are the same value (Rust's str equality is content equality)
pub broadcast axiom fn axiom_str_view_injective(a: &str, b: &str)
    ensures #![trigger a@, b@] a@ == b@ ==> a == b;

pub struct PathBuf { pub filler: u8 }
pub uninterp spec fn path_of_string(s: Seq<char>) -> PathBuf;     // the path a string spells, verbatim
impl PathBuf {
    #[verifier::external_body]
    pub fn from(s: String) -> (r: PathBuf) ensures r == path_of_string(s@) { unimplemented!() }
}

// serde_json: an opaque argument value and its typed decodings (uninterpreted: whatever serde decides, both the
// checkpoint planner here and the tool itself decode the SAME value with the SAME derive)
pub struct Value { pub filler: u8 }
impl Clone for Value {
    #[verifier::external_body]
    fn clone(&self) -> (r: Value) ensures r == *self { unimplemented!() }
}
pub trait Decodable: Sized { spec fn decoded(v: Value) -> Option<Self>; }
pub mod serde_json {
    use super::*;
    pub struct Error { pub filler: u8 }
    #[verifier::external_body]
    pub fn from_value<T: Decodable>(v: Value) -> (r: Result<T, Error>)
        ensures r matches Ok(t) ==> T::decoded(v) == Some(t), r is Err ==> T::decoded(v) is None,
    { unimplemented!() }
}
//@@ item crates/rip-tools/src/runtime.rs struct WriteArgs
//@@ item crates/rip-tools/src/runtime.rs struct ApplyPatchArgs
pub uninterp spec fn decode_write(v: Value) -> Option<WriteArgs>;
pub uninterp spec fn decode_patch(v: Value) -> Option<ApplyPatchArgs>;
impl Decodable for WriteArgs { open spec fn decoded(v: Value) -> Option<Self> { decode_write(v) } }
impl Decodable for ApplyPatchArgs { open spec fn decoded(v: Value) -> Option<Self> { decode_patch(v) } }

// rip-workspace: parse and affected_paths through their contracts (affected_paths is proved in unit c14_checkpoint,
// parse is exercised by the bounded patch clauses of c12_patch)
pub mod rip_workspace {
    use super::*;
    pub struct PatchParseError { pub filler: u8 }
    pub struct Patch { pub filler: u8 }
    pub uninterp spec fn parse_spec(s: Seq<char>) -> Option<Patch>;
    pub uninterp spec fn affected_of(p: Patch) -> Seq<PathBuf>;
    impl Patch {
        #[verifier::external_body]
        pub fn parse(s: &String) -> (r: Result<Patch, PatchParseError>)
            ensures r matches Ok(p) ==> parse_spec(s@) == Some(p), r is Err ==> parse_spec(s@) is None,
        { unimplemented!() }
        #[verifier::external_body]
        pub fn affected_paths(&self) -> (r: Vec<PathBuf>) ensures r@ == affected_of(*self) { unimplemented!() }
    }
}
//@@ item crates/rip-tools/src/runtime.rs struct ToolInvocation dropderive=Clone

// which files an invocation can change, from the property statement: the write tool changes the file its `path` argument
// spells (verbatim: the tool resolves that very string), apply_patch changes the paths its patch names, nothing else edits files
pub open spec fn files_of(inv: ToolInvocation) -> Option<Seq<PathBuf>> {
    if inv.name@ == "write"@ {
        match decode_write(inv.args) { Some(a) => Some(seq![path_of_string(a.path@)]), None => None }
    } else if inv.name@ == "apply_patch"@ {
        match decode_patch(inv.args) {
            Some(a) => match rip_workspace::parse_spec(a.patch@) { Some(p) => Some(rip_workspace::affected_of(p)), None => None },
            None => None,
        }
    } else { None }
}

//@@ fn crates/rip-tools/src/runtime.rs files_for_invocation rules=R9
//@@ sig
    ensures
        ret matches Ok(Some(f)) ==> files_of(*invocation) == Some(f@),                              // [files_for_invocation.exactly_the_files_the_tool_can_change]
        ret matches Ok(None) ==> !(invocation.name@ == "write"@ || invocation.name@ == "apply_patch"@),   // [files_for_invocation.none_only_for_tools_that_edit_nothing]
        ret is Err ==> files_of(*invocation) is None,                                              // [files_for_invocation.error_only_for_undecodable_arguments]
//@@ entry
    broadcast use axiom_str_view_injective;
    proof { reveal_strlit("write"); reveal_strlit("apply_patch"); }
//@@ closure 0
    ensures true
//@@ closure 1
    ensures true
//@@ closure 2
    ensures true
//@@ end

} // verus!
fn main() {}
