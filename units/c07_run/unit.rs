//@@ unit c07_run properties=C07
#![allow(unused_imports, dead_code, unused_variables, unused_mut, unused_assignments)]
use vstd::prelude::*;

//@@ include prelude/kernel_model.rs
//@@ include prelude/strings.rs

verus! {

// ---- stubs (R8; trusted) ------------------------------------------------------------------------
#[verifier::external_body] pub fn vfmt() -> String { unimplemented!() }      // R9
#[verifier::external_body] pub fn now_ms() -> u64 { unimplemented!() }
pub struct J { pub filler: u8 }
#[verifier::external_body] pub fn vj<T>(t: &T) -> J { unimplemented!() }       // R6o
#[verifier::external_body] pub fn jnil() -> Value { unimplemented!() }
#[verifier::external_body] pub fn jcons(j: J, rest: Value) -> Value { unimplemented!() }
pub struct Uuid { pub filler: u8 }
impl Uuid { #[verifier::external_body] pub fn new_v4() -> Uuid { unimplemented!() } #[verifier::external_body] pub fn to_string(&self) -> String { unimplemented!() } }
pub mod rip_kernel { pub use super::{EventKind, ContextSelectionCompactionCheckpointV1, ContextSelectionResetV1}; }
pub struct PathBuf { pub filler: u8 }
pub struct Path { pub filler: u8 }
pub struct SnapDir { pub filler: u8 }
impl SnapDir { #[verifier::external_body] pub fn as_ref(&self) -> &SnapDir { unimplemented!() } #[verifier::external_body] pub fn as_path(&self) -> &Path { unimplemented!() } }
#[verifier::external_body] pub fn paths_from(files: Vec<String>) -> Vec<PathBuf> { unimplemented!() }
// the scripted kernel session through the contract proved in unit c01_emit: None only once the session is done, and it is done only
// after its end frame was handed out
pub struct Session { pub filler: u8 }
impl Session {
    pub uninterp spec fn ended(&self) -> bool;      // the kernel session machine is done (stage Done in rip-kernel)
    pub uninterp spec fn fresh(&self) -> bool;      // nothing handed out yet (stage Start)
    #[verifier::external_body] pub fn id(&self) -> &String { unimplemented!() }
    #[verifier::external_body] pub fn seq(&self) -> u64 { unimplemented!() }
    #[verifier::external_body] pub fn set_seq(&mut self, s: u64) ensures final(self).ended() == old(self).ended(), !final(self).fresh() { unimplemented!() }
    // as proved in unit c01_emit (Session::next_event): a finished session hands out nothing, None only when finished, and the frame that
    // finishes the session is its end frame (so the machine hands out exactly one end frame, last).
    // ASSUMED (read off rip-kernel, not proved: the authority builds its Runtime with Runtime::new(), which registers no hook, so no
    // hook can abort a session): the first frame of a fresh session is its start frame, not an end frame.
    #[verifier::external_body] pub fn next_event(&mut self) -> (r: Option<Event>)
        ensures
            r is None <==> old(self).ended(),
            r is None ==> final(self).ended(),
            r matches Some(e) ==> (e.kind is SessionEnded <==> final(self).ended()),
            old(self).fresh() ==> (r is Some && !final(self).ended()),
            !final(self).fresh(),
    { unimplemented!() }
}
// the session stream as this function writes it: how many end frames were written so far
pub tracked struct SessStream { pub ghost end_frames: int }
pub struct Runtime { pub filler: u8 }
impl Runtime { #[verifier::external_body] pub fn start_session_with_id(&self, id: String, input: String) -> (s: Session) ensures s.fresh() && !s.ended() { unimplemented!() } }
pub struct ToolInvocation { pub name: String, pub args: Value, pub timeout_ms: Option<u64> }
pub struct ToolRunner { pub filler: u8 }
impl ToolRunner {
    #[verifier::external_body] pub fn as_ref(&self) -> &ToolRunner { unimplemented!() }
    #[verifier::external_body] pub fn run(&self, sid: &String, seq: &mut u64, inv: ToolInvocation) -> Vec<Event> { unimplemented!() }
    #[verifier::external_body] pub fn create_checkpoint(&self, sid: &String, seq: &mut u64, label: String, files: Vec<PathBuf>) -> Vec<Event> { unimplemented!() }
    #[verifier::external_body] pub fn rewind_checkpoint(&self, sid: &String, seq: &mut u64, id: &String) -> Vec<Event> { unimplemented!() }
}
pub struct LockGuard { pub filler: u8 }
pub struct WorkspaceLock { pub filler: u8 }
impl WorkspaceLock { #[verifier::external_body] pub fn as_ref(&self) -> &WorkspaceLock { unimplemented!() } #[verifier::external_body] pub fn acquire(&self) -> LockGuard { unimplemented!() } }
#[verifier::external_body] pub fn requires_workspace_lock(name: &String) -> bool { unimplemented!() }
pub struct HttpClient { pub filler: u8 }
pub struct OpenResponsesConfig { pub endpoint: String, pub model: Option<String> }
pub struct Sender { pub filler: u8 }
pub struct EventsGuard { pub filler: u8 }
pub struct Events { pub filler: u8 }
impl Events { #[verifier::external_body] pub fn lock(&self) -> EventsGuard { unimplemented!() } }
#[verifier::external_body] pub fn last_end_reason(g: &EventsGuard) -> String { unimplemented!() }
pub struct EventLog { pub filler: u8 }
impl EventLog { #[verifier::external_body] pub fn as_ref(&self) -> &EventLog { unimplemented!() } }
#[verifier::external_body] pub fn write_snapshot(dir: &SnapDir, id: &String, g: &EventsGuard) -> Result<(), String> { unimplemented!() }
// every writer of the session stream: nothing is written after the end frame, and an end frame is counted
#[verifier::external_body] pub fn emit_event(Tracked(st): Tracked<&mut SessStream>, e: Event, s: &Sender, ev: &Events, log: &EventLog)
    requires old(st).end_frames == 0,                         // [session_stream.nothing_is_written_after_the_end_frame]
    ensures final(st).end_frames == old(st).end_frames + (if e.kind is SessionEnded { 1int } else { 0int }),
{ unimplemented!() }
// tool / checkpoint frames (ToolRunner::run and the checkpoint calls hand back tool frames only: assumed, their kinds are not looked at here)
#[verifier::external_body] pub fn emit_events(Tracked(st): Tracked<&mut SessStream>, e: Vec<Event>, s: &Sender, ev: &Events, log: &EventLog)
    requires old(st).end_frames == 0,                         // [session_stream.nothing_is_written_after_the_end_frame]
    ensures final(st).end_frames == old(st).end_frames,
{ unimplemented!() }
#[derive(Clone, Copy)]
pub struct EventSink<'a> { pub sender: &'a Sender, pub buffer: &'a Events, pub event_log: &'a EventLog }
pub struct ItemParam { pub filler: u8 }
//@@ item crates/ripd/src/continuities.rs struct ContinuityRunLink dropderive=Clone
//@@ item crates/ripd/src/continuities.rs struct ToolSideEffects dropderive=Clone
//@@ item crates/ripd/src/continuities.rs struct ContextCompiledPayload dropderive=Clone
//@@ item crates/ripd/src/continuities.rs struct ContextSelectionDecidedPayload dropderive=Clone
//@@ item crates/ripd/src/continuities.rs struct ProviderCursorUpdatedPayload dropderive=Clone
//@@ item crates/ripd/src/context_compiler.rs const CONTEXT_COMPILER_ID_V1
//@@ item crates/ripd/src/session.rs struct ToolCommand
//@@ item crates/ripd/src/session.rs enum CheckpointCommand
//@@ item crates/ripd/src/session.rs enum InputAction
//@@ item crates/ripd/src/session.rs struct CompiledContextForRun
//@@ item crates/ripd/src/session.rs struct ContextSelectionDecisionForRun
//@@ item crates/ripd/src/session.rs struct ContextCompileOutcomeForRun
//@@ item crates/ripd/src/session.rs struct OpenResponsesLoopOutcome
pub struct ContinuityStore { pub filler: u8 }
impl ContinuityStore {
    #[verifier::external_body] pub fn as_ref(&self) -> &ContinuityStore { unimplemented!() }
    #[verifier::external_body] pub fn append_tool_side_effects(&self, run: &ContinuityRunLink, sid: &String, e: ToolSideEffects) -> Result<String, String> { unimplemented!() }
    #[verifier::external_body] pub fn append_context_selection_decided(&self, id: &String, p: ContextSelectionDecidedPayload) -> Result<String, String> { unimplemented!() }
    #[verifier::external_body] pub fn append_context_compiled(&self, id: &String, p: ContextCompiledPayload) -> Result<String, String> { unimplemented!() }
    #[verifier::external_body] pub fn append_provider_cursor_updated(&self, id: &String, p: ProviderCursorUpdatedPayload) -> Result<String, String> { unimplemented!() }
    #[verifier::external_body] pub fn append_run_ended(&self, id: &String, mid: &String, sid: &String, reason: String, actor: String, origin: String) -> Result<String, String> { unimplemented!() }
}
#[verifier::external_body] pub fn parse_action(input: &String) -> InputAction { unimplemented!() }
#[verifier::external_body] pub fn summarize_continuity_tool_side_effects(events: &Vec<Event>) -> Option<ToolSideEffects> { unimplemented!() }
#[verifier::external_body] pub fn compile_context_bundle_for_run(c: &ContinuityStore, log: &EventLog, dir: &Path, run: &ContinuityRunLink, sid: &String) -> Result<ContextCompileOutcomeForRun, String> { unimplemented!() }
pub struct OpenResponsesRunContext<'a> {
    pub http: &'a HttpClient, pub config: &'a OpenResponsesConfig, pub tool_runner: &'a ToolRunner, pub workspace_lock: &'a WorkspaceLock, pub continuities: &'a ContinuityStore,
    pub continuity_run: Option<&'a ContinuityRunLink>, pub session_id: &'a String, pub initial_items: Option<Vec<ItemParam>>, pub prompt: &'a String, pub seq: &'a mut u64, pub sink: EventSink<'a>,
}
// the agent loop writes provider / tool frames through the sink and leaves the end frame to its caller (assumed; the loop is under contract in c16_loop)
#[verifier::external_body] pub fn run_openresponses_agent_loop(Tracked(st): Tracked<&mut SessStream>, ctx: OpenResponsesRunContext<'_>) -> OpenResponsesLoopOutcome
    requires old(st).end_frames == 0,                         // [session_stream.nothing_is_written_after_the_end_frame]
    ensures final(st).end_frames == old(st).end_frames,
{ unimplemented!() }
pub struct SessionContext {
    pub runtime: Runtime, pub tool_runner: ToolRunner, pub workspace_lock: WorkspaceLock, pub http_client: HttpClient, pub openresponses: Option<OpenResponsesConfig>,
    pub sender: Sender, pub events: Events, pub event_log: EventLog, pub snapshot_dir: SnapDir, pub continuities: ContinuityStore,
    pub continuity_run: Option<ContinuityRunLink>, pub server_session_id: String, pub input: String,
}
pub assume_specification<T: std::ops::Deref>[ std::option::Option::<T>::as_deref ](o: &Option<T>) -> (r: Option<&T::Target>);

// ---- the run lifecycle on the thread, as ghost state spliced in at the call sites (rule R11: each writer call is preceded by the
// assertion of its place in the order and the stage update) -----------------------------------------------------------------------
// stage: 0 nothing yet, 1 context selection recorded, 2 context compiled, 3 the model / tool phase ran (side effects are recorded inside
// it), 4 cursor updated
//@@ fn crates/ripd/src/session.rs run_session rules=R3,R6o,R9 attr=verifier::exec_allows_no_decreases_clause
//@@ alias crate::continuities::ProviderCursorUpdatedPayload ProviderCursorUpdatedPayload
//@@ rewrite files.into_iter().map(PathBuf::from).collect() => paths_from(files)
//@@ rewrite guard.iter().rev().find_map(|event| match &event.kind { EventKind::SessionEnded { reason } => Some(reason.clone()), _ => None, }).unwrap_or_else(|| "unknown".to_string()) ==>> last_end_reason(&guard)
//@@ rewrite &*snapshot_dir => &snapshot_dir
//@@ rewrite drop(guard); => ;
//@@ rewrite let _ = continuities.append_context_selection_decided( => proof { assert(stage == 0); stage = 1; } let _ = continuities.append_context_selection_decided(
//@@ rewrite let _ = continuities.append_context_compiled( => proof { assert(stage == 1); stage = 2; } let _ = continuities.append_context_compiled(
//@@ rewrite let _ = continuities.append_tool_side_effects( => proof { assert(stage == 0); stage = 3; } let _ = continuities.append_tool_side_effects(
//@@ rewrite let outcome = run_openresponses_agent_loop( => proof { assert(stage == 0 || stage == 2); stage = 3; } let outcome = run_openresponses_agent_loop(Tracked(&mut st), 
//@@ rewrite let _ = continuities.append_provider_cursor_updated( => proof { assert(stage == 3); stage = 4; } let _ = continuities.append_provider_cursor_updated(
//@@ rewrite skip_runtime_loop = true; => skip_runtime_loop = true; proof { session_end = true; }
//@@ rewrite let _ = continuities.append_run_ended( => proof { assert(session_end && ended == 0); ended = ended + 1; } let _ = continuities.append_run_ended(
//@@ rewrite emit_event( => emit_event(Tracked(&mut st), 
//@@ rewrite emit_events( => emit_events(Tracked(&mut st), 
//@@ sig
//@@ entry
    let tracked mut st = SessStream { end_frames: 0 };
    let ghost mut stage: int = 0;
    let ghost mut ended: int = 0;
    let ghost mut session_end: bool = false;
    let ghost linked: bool = context.continuity_run is Some;
//@@ loop 0
    invariant !skip_runtime_loop,
        st.end_frames == (if session.ended() { 1int } else { 0int }),      // [run_session.the_session_stream_ends_with_exactly_one_end_frame]
    ensures session.ended(), st.end_frames == 1,
//@@ afterloop 0
    proof { session_end = true; }
//@@ noreturn
//@@ fnend
    proof { assert(ended == (if linked { 1int } else { 0int })); }      // [run_session.exactly_one_run_ended_frame_after_the_terminal_session_frame]
    proof { assert(st.end_frames == 1); }      // [run_session.the_session_stream_ends_with_exactly_one_end_frame]
//@@ end

} // verus!
fn main() {}
