//@@ unit c13_resolvers properties=C13,C12
#![allow(unused_imports, dead_code, unused_variables, unused_mut)]
use vstd::prelude::*;

//@@ include prelude/path_model.rs

verus! {

pub mod io {
    use vstd::prelude::*;
    verus! {
    pub struct Error { pub filler: u8 }
    pub enum ErrorKind { NotFound, InvalidInput, Other }
    impl Error {
        #[verifier::external_body]
        pub fn new(kind: ErrorKind, msg: &str) -> Error { unimplemented!() }
    }
    pub type Result<T> = std::result::Result<T, Error>;
    } // verus!
}

pub assume_specification [str::trim] (s: &str) -> &str;

// clean relative path: no RootDir/Prefix, no ParentDir
pub open spec fn rel_clean(p: Path) -> bool { !is_abs(p) && clean(comps(p)) }

pub proof fn lemma_clean_from_checks(p: Path)
    requires
        forall|i: int| 0 <= i < comps(p).len() ==> !(#[trigger] comps(p)[i] is RootDir || comps(p)[i] is Prefix),
        no_parent(comps(p)),
    ensures clean(comps(p)),
{
    assert forall|i: int| 0 <= i < comps(p).len() implies (#[trigger] comps(p)[i] is Normal || comps(p)[i] is CurDir) by {
        assert(!(comps(p)[i] is RootDir || comps(p)[i] is Prefix));
        assert(!(comps(p)[i] is ParentDir));
    }
}

// ---- rip-tools/src/builtins/mod.rs ----------------------------------------------------------
pub mod builtins {
    use super::*;
    verus! {
    //@@ fn crates/rip-tools/src/builtins/mod.rs resolve_path name=builtins::resolve_path
    //@@ sig
        ensures
            ret matches Ok(p) ==> within(p, *root),                                   // [builtins.resolve_path.within_root]
            ret matches Ok(p) ==> rel_clean(path_of_str(raw@)),                        // [builtins.resolve_path.refuses_abs_and_parent]
    //@@ closure 0
        -> (r: bool) ensures r == (c is ParentDir)
    //@@ afterclosure 0
        proof { lemma_clean_from_checks(path); }
    //@@ end
    } // verus!
}

// ---- ripd/src/tasks/logs.rs -----------------------------------------------------------------
pub mod tasks_logs {
    use super::*;
    verus! {
    //@@ fn crates/ripd/src/tasks/logs.rs resolve_path name=tasks_logs::resolve_path
    //@@ alias std::path::Component Component
    //@@ sig
        ensures
            ret matches Ok(p) ==> within(p, *root),                                   // [tasks.resolve_path.within_root]
            ret matches Ok(p) ==> rel_clean(path_of_str(raw@)),                        // [tasks.resolve_path.refuses_abs_and_parent]
    //@@ closure 0
        -> (r: bool) ensures r == (component is ParentDir)
    //@@ afterclosure 0
        proof { lemma_clean_from_checks(path); }
    //@@ end
    } // verus!
}

// ---- rip-workspace/src/patch.rs -------------------------------------------------------------
pub struct PatchParseError { pub message: String }

//@@ fn crates/rip-workspace/src/patch.rs parse_rel_path
//@@ sig
    ensures
        ret matches Ok(p) ==> rel_clean(p),                                            // [parse_rel_path.refuses_abs_and_parent]
//@@ closure 0
    -> (r: bool) ensures r == (c is ParentDir)
//@@ afterclosure 0
    proof { lemma_clean_from_checks(path); }
//@@ end

// ---- rip-workspace/src/lib.rs ---------------------------------------------------------------
pub struct Workspace { pub root: PathBuf, pub checkpoints_dir: PathBuf }

impl Workspace {
    //@@ fn crates/rip-workspace/src/lib.rs Workspace::safe_join
    //@@ sig
        ensures
            ret matches Ok(p) ==> within(p, self.root),                                // [safe_join.within_root]
            ret matches Ok(p) ==> rel_clean(*rel),                                     // [safe_join.refuses_abs_and_parent]
    //@@ closure 0
        -> (r: bool) ensures r == (component is ParentDir)
    //@@ afterclosure 0
        proof { lemma_clean_from_checks(*rel); }
    //@@ end

    //@@ fn crates/rip-workspace/src/lib.rs Workspace::to_relative rules=R4
    //@@ sig
        requires comps(self.root).len() > 0,
        ensures
            ret matches Ok(rel) ==> rel_clean(rel),                                    // [to_relative.clean_relative]
    //@@ closure 1
        -> (r: bool) ensures r == (component is ParentDir)
    //@@ afterclosure 1
        proof { lemma_clean_from_checks(*rel); }
    //@@ end
}

} // verus!
fn main() {}
