// Replay enumerator for the path resolvers: real function text against the REAL std::path.
use std::io;
use std::path::{Component, Path, PathBuf};
pub struct PatchParseError { pub message: String }
pub struct Workspace { pub root: PathBuf }
mod builtins { use super::*;
    //@@ fn crates/rip-tools/src/builtins/mod.rs resolve_path pub
    //@@ end
}
mod tasks_logs { use super::*;
    //@@ fn crates/ripd/src/tasks/logs.rs resolve_path pub
    //@@ end
}
//@@ fn crates/rip-workspace/src/patch.rs parse_rel_path
//@@ end
impl Workspace {
    //@@ fn crates/rip-workspace/src/lib.rs Workspace::safe_join
    //@@ end
    //@@ fn crates/rip-workspace/src/lib.rs Workspace::to_relative
    //@@ end
}

// lexical normalisation: does p stay below root once `..` is resolved?
fn escapes(p: &Path, root: &Path) -> bool {
    let mut stack: Vec<std::ffi::OsString> = Vec::new();
    for c in p.components() {
        match c {
            Component::RootDir | Component::Prefix(_) => { stack.clear(); stack.push("/".into()); }
            Component::CurDir => {}
            Component::ParentDir => { if stack.pop().is_none() { return true; } }
            Component::Normal(n) => stack.push(n.to_os_string()),
        }
    }
    let mut rs: Vec<std::ffi::OsString> = Vec::new();
    for c in root.components() {
        match c { Component::RootDir => rs.push("/".into()), Component::Normal(n) => rs.push(n.to_os_string()), _ => {} }
    }
    // a path that still contains a backslash-separated `..` is judged by its native (separator-mapped) form too
    !(stack.len() >= rs.len() && stack[..rs.len()] == rs[..])
}
fn dirty(rel: &Path) -> bool {
    rel.is_absolute() || rel.components().any(|c| matches!(c, Component::ParentDir | Component::RootDir | Component::Prefix(_)))
}

fn inputs() -> Vec<String> {
    let toks = ["/", "\\", "..", ".", "a", " "];
    let mut out = vec![String::new()];
    let mut frontier = vec![String::new()];
    for _ in 0..6 {
        let mut next = Vec::new();
        for s in &frontier { for t in toks { let mut x = s.clone(); x.push_str(t); next.push(x); } }
        out.extend(next.iter().cloned());
        frontier = next;
    }
    out
}

fn main() {
    let args: Vec<String> = std::env::args().collect();
    let label = args.get(1).cloned().unwrap_or_default();
    let func = args.get(2).cloned().unwrap_or_default();
    let root = PathBuf::from("/ws/root");
    let ws = Workspace { root: root.clone() };
    for raw in inputs() {
        let report = |what: &str, got: String| {
            println!("WITNESS {{\"function\": \"{}\", \"root\": \"/ws/root\", \"input\": {:?}, \"result\": {:?}, \"problem\": \"{}\"}}", func, raw, got, what);
        };
        if label.starts_with("builtins.resolve_path") {
            if let Ok(p) = builtins::resolve_path(&root, &raw) { if escapes(&p, &root) || dirty(Path::new(&raw)) { report("accepted path resolves outside the root or has absolute/parent segments", p.display().to_string()); return; } }
        } else if label.starts_with("tasks.resolve_path") {
            if let Ok(p) = tasks_logs::resolve_path(&root, &raw) { if escapes(&p, &root) || dirty(Path::new(&raw)) { report("accepted path resolves outside the root or has absolute/parent segments", p.display().to_string()); return; } }
        } else if label.starts_with("parse_rel_path") {
            if let Ok(p) = parse_rel_path(&raw) { if dirty(&p) || escapes(&root.join(&p), &root) { report("accepted patch path is absolute, has parent segments or escapes", p.display().to_string()); return; } }
        } else if label.starts_with("safe_join") {
            if let Ok(p) = ws.safe_join(Path::new(&raw)) { if escapes(&p, &root) || dirty(Path::new(&raw)) { report("accepted path resolves outside the root or has absolute/parent segments", p.display().to_string()); return; } }
        } else if label.starts_with("to_relative") {
            for base in [String::new(), "/ws/root/".to_string(), "/ws/root".to_string()] {
                let full = format!("{}{}", base, raw);
                if let Ok(rel) = ws.to_relative(Path::new(&full)) {
                    if dirty(&rel) || escapes(&root.join(&rel), &root) {
                        println!("WITNESS {{\"function\": \"Workspace::to_relative\", \"root\": \"/ws/root\", \"input\": {:?}, \"result\": {:?}, \"problem\": \"accepted relative path has parent/absolute segments: root.join(rel) leaves the root\"}}", full, rel.display().to_string());
                        return;
                    }
                }
            }
        }
    }
}
