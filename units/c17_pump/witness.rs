// Replay enumerator for the task output pump: real text (R3: async dropped) of pump_output_stream, TaskLogWriter::append and
// truncate_utf8 (ripd copy) with a scripted reader (chunk sizes, EINTR, error, EOF) and an in-memory log file.
use std::cell::RefCell;
#[derive(Clone, Copy, Debug, PartialEq)]
pub enum Rd { Data(usize), Intr, Fail }
pub struct IoError { kind: std::io::ErrorKind }
impl IoError { pub fn kind(&self) -> std::io::ErrorKind { self.kind } }
pub struct Reader { pub src: Vec<u8>, pub pos: usize, pub script: Vec<Rd>, pub step: usize, pub handed: Vec<u8>, pub reads: Vec<Vec<u8>> }
impl Reader {
    pub fn read(&mut self, buf: &mut [u8]) -> Result<usize, IoError> {
        let st = if self.step < self.script.len() { self.script[self.step] } else { Rd::Data(usize::MAX) };
        self.step += 1;
        match st {
            Rd::Intr => Err(IoError { kind: std::io::ErrorKind::Interrupted }),
            Rd::Fail => Err(IoError { kind: std::io::ErrorKind::Other }),
            Rd::Data(n) => { let k = n.min(self.src.len() - self.pos).min(buf.len()); buf[..k].copy_from_slice(&self.src[self.pos..self.pos + k]); self.handed.extend_from_slice(&self.src[self.pos..self.pos + k]); if k > 0 { self.reads.push(self.src[self.pos..self.pos + k].to_vec()); } self.pos += k; Ok(k) }
        }
    }
}
pub struct File { pub data: Vec<u8> }
impl File { pub fn write(&mut self, b: &[u8]) -> Result<usize, IoError> { let k = b.len().min(3).max(if b.is_empty() { 0 } else { 1 }); self.data.extend_from_slice(&b[..k]); Ok(k) } }   // short writes of <= 3 bytes
pub mod tokio { pub mod fs { pub use super::super::File; } pub mod io { pub trait AsyncRead { fn read(&mut self, buf: &mut [u8]) -> Result<usize, super::super::IoError>; } impl<'a> AsyncRead for &'a mut super::super::Reader { fn read(&mut self, buf: &mut [u8]) -> Result<usize, super::super::IoError> { super::super::Reader::read(self, buf) } } } }
use tokio::io::AsyncRead;
#[derive(Debug, Clone, PartialEq)]
pub enum Value { Log { offset_bytes: u64, bytes: usize, bytes_total: u64, bytes_stored: u64, truncated: bool }, Wrap(Box<Value>) }
macro_rules! json {
    ({ "id": $a:expr, "path": $b:expr, "offset_bytes": $c:expr, "bytes": $d:expr, "bytes_total": $e:expr, "bytes_stored": $f:expr, "truncated": $g:expr $(,)? }) => { Value::Log { offset_bytes: $c, bytes: $d, bytes_total: $e, bytes_stored: $f, truncated: $g } };
    ({ "log": $v:expr }) => { Value::Wrap(Box::new($v)) };
}
#[derive(Clone, Copy, Debug)] pub enum ToolTaskStream { Stdout, Stderr, Pty }
pub enum EventKind { ToolTaskOutputDelta { task_id: String, stream: ToolTaskStream, chunk: String, artifacts: Option<Value> } }
pub struct TaskEmitter { pub out: RefCell<Vec<(String, Option<Value>)>> }
impl TaskEmitter { pub fn emit(&self, k: EventKind) { let EventKind::ToolTaskOutputDelta { chunk, artifacts, .. } = k; self.out.borrow_mut().push((chunk, artifacts)); } }
pub const OUTPUT_EVENT_MAX_BYTES: usize = 8 * 1024;
pub mod logs {
    //@@ fn crates/ripd/src/tasks/logs.rs truncate_utf8 pub
    //@@ end
}
//@@ item crates/ripd/src/tasks/logs.rs struct TaskLogWriter
impl TaskLogWriter {
    //@@ fn crates/ripd/src/tasks/logs.rs TaskLogWriter::append rules=R3 pub
    //@@ end
}
//@@ fn crates/ripd/src/tasks/pipes.rs pump_output_stream rules=R3
//@@ alias super::logs::truncate_utf8 logs::truncate_utf8
//@@ alias super::OUTPUT_EVENT_MAX_BYTES OUTPUT_EVENT_MAX_BYTES
//@@ end

fn main() {
    let texts: [&[u8]; 4] = [b"abcdefgh", "a\u{e9}\u{20ac}b\u{1f600}c".as_bytes(), &[0x61, 0xFF, 0x80, 0x62, 0xC3, 0x28, 0x63], b""];
    let steps = [Rd::Data(1), Rd::Data(2), Rd::Data(3), Rd::Data(usize::MAX), Rd::Intr, Rd::Fail];
    for src in texts { for cap in [0u64, 1, 3, 5, 7, 64] { for preview in [0usize, 1, 2, 4, 64] { for slen in 0..=4usize { for code in 0..steps.len().pow(slen as u32) {
        let mut c = code; let script: Vec<Rd> = (0..slen).map(|_| { let s = steps[c % steps.len()]; c /= steps.len(); s }).collect();
        let mut reader = Reader { src: src.to_vec(), pos: 0, script: script.clone(), step: 0, handed: vec![], reads: vec![] };
        let em = TaskEmitter { out: RefCell::new(vec![]) };
        let mut w = TaskLogWriter { artifact_id: "id".into(), rel_path: "p".into(), file: File { data: vec![] }, max_bytes: cap, bytes_total: 0, bytes_stored: 0, truncated: false };
        pump_output_stream(Some(&mut reader), ToolTaskStream::Stdout, "t", &em, &mut w, preview);
        let handed = reader.handed.clone();
        let stored_want = &handed[..(cap as usize).min(handed.len())];
        let mut problem: Option<String> = None;
        if w.file.data != stored_want { problem = Some(format!("stored log {:?} is not the prefix of what the process wrote up to the cap {:?}", w.file.data, stored_want)); }
        else if w.bytes_total != handed.len() as u64 || w.bytes_stored != w.file.data.len() as u64 || w.truncated != (handed.len() as u64 > cap) { problem = Some("bytes_total / bytes_stored / truncated do not describe the stream".into()); }
        else {
            // ranges referenced by the output frames are consecutive, non-overlapping and lie inside the stored log
            let mut next = 0u64;
            for (chunk, art) in em.out.borrow().iter() {
                if chunk.is_empty() { problem = Some("an output frame with an empty preview was emitted".into()); break; }
                // the preview decodes a prefix, within the preview limit, of one chunk the process wrote
                let lim = preview.min(OUTPUT_EVENT_MAX_BYTES);
                if !reader.reads.iter().any(|r| (0..=r.len().min(lim)).any(|k| String::from_utf8_lossy(&r[..k]) == chunk.as_str())) { problem = Some(format!("preview {:?} is not the decoding of a prefix (within the limit {}) of any chunk the process wrote", chunk, lim)); break; }
                if let Some(Value::Wrap(b)) = art { if let Value::Log { offset_bytes, bytes, bytes_stored, .. } = **b {
                    if offset_bytes < next || offset_bytes + bytes as u64 > bytes_stored || bytes_stored > w.bytes_stored { problem = Some(format!("frame range ({offset_bytes}, {bytes}) overlaps an earlier range or leaves the stored log")); break; }
                    // the preview is a prefix (lossy) of the bytes this frame refers to, when they were all stored
                    next = offset_bytes + bytes as u64;
                } }
            }
        }
        if let Some(p) = problem {
            println!("WITNESS {{\"function\": \"pump_output_stream\", \"process_output\": {:?}, \"read_script\": {:?}, \"log_cap\": {}, \"preview_limit\": {}, \"stored\": {:?}, \"problem\": {:?}}}", src, format!("{:?}", script), cap, preview, w.file.data, p);
            return;
        }
    } } } } }
}
