//@@ unit c17_pump properties=C17
#![allow(unused_imports, dead_code, unused_variables, unused_mut)]
use vstd::prelude::*;

verus! {

// ---- stubs (R8; trusted) ----------------------------------------------------------------------
#[derive(PartialEq, Eq)]
pub enum ErrorKind { Interrupted, Other }
pub struct IoError { pub filler: u8 }
impl IoError {
    #[verifier::external_body]
    pub fn kind(&self) -> ErrorKind { unimplemented!() }
}

// the process side of a pipe: ghost `produced` = every byte handed out by read() so far
pub trait AsyncRead: Sized {
    spec fn produced(&self) -> Seq<u8>;
    // AsyncReadExt::read: fills a prefix of buf; Ok(0) = end of stream
    fn read(&mut self, buf: &mut Vec<u8>) -> (r: Result<usize, IoError>)
        ensures
            final(buf)@.len() == old(buf)@.len(),
            match r {
                Ok(n) => n <= old(buf)@.len() && final(self).produced() == old(self).produced() + final(buf)@.subrange(0, n as int),
                Err(_) => final(self).produced() == old(self).produced(),
            };
}

pub struct J { pub filler: u8 }
pub struct Value { pub log: J }
#[verifier::external_body]
pub fn vj(v: &Value) -> J { unimplemented!() }

// the log writer, seen through its contract only (TaskLogWriter::append is proved in unit c17_logwriter).
// Ghost `fed` = concatenation of every chunk ever passed to append (an effect trace, definitional).
pub struct TaskLogWriter { pub filler: u8 }
impl TaskLogWriter {
    pub uninterp spec fn fed(&self) -> Seq<u8>;
    #[verifier::external_body]
    pub fn append(&mut self, chunk: &[u8]) -> (r: Result<Value, ()>)
        ensures final(self).fed() == old(self).fed() + chunk@,
    { unimplemented!() }
}

#[derive(Clone, Copy)]
pub enum ToolTaskStream { Stdout, Stderr, Pty }
pub enum EventKind {
    ToolTaskOutputDelta { task_id: String, stream: ToolTaskStream, chunk: String, artifacts: Option<Value> },
}
pub struct TaskEmitter { pub filler: u8 }
impl TaskEmitter {
    #[verifier::external_body]
    pub fn emit(&self, kind: EventKind) { unimplemented!() }
}
pub const OUTPUT_EVENT_MAX_BYTES: usize = 8 * 1024;
pub mod logs {
    use vstd::prelude::*;
    verus! {
    #[verifier::external_body]
    pub fn truncate_utf8(bytes: &[u8], max_bytes: usize) -> (String, bool, usize) { unimplemented!() }
    } // verus!
}

//@@ fn crates/ripd/src/tasks/pipes.rs pump_output_stream rules=R3,R6 attr=verifier::exec_allows_no_decreases_clause
//@@ alias std::io::ErrorKind ErrorKind
//@@ alias tokio::io::AsyncRead AsyncRead
//@@ alias super::logs::truncate_utf8 logs::truncate_utf8
//@@ alias super::OUTPUT_EVENT_MAX_BYTES OUTPUT_EVENT_MAX_BYTES
//@@ entry
    let ghost p0: Seq<u8> = if stream is Some { stream->Some_0.produced() } else { Seq::empty() };
    let ghost f0: Seq<u8> = writer.fed();
//@@ loop 0
    invariant
        buf@.len() == 8192,
        // every byte read from the process so far has been handed to the log writer, once, in order, unmodified
        stream matches Some(s) ==> (s.produced().len() >= p0.len() && s.produced().subrange(0, p0.len() as int) == p0
            && writer.fed() == f0 + s.produced().subrange(p0.len() as int, s.produced().len() as int)),   // [pump.every_chunk_read_is_appended_in_order]
        stream is None ==> writer.fed() == f0,                                                              // [pump.no_stream_no_append]
//@@ afterloop 0
    proof {
        assert(stream matches Some(s) ==> writer.fed() == f0 + s.produced().subrange(p0.len() as int, s.produced().len() as int));   // [pump.every_chunk_read_is_appended_in_order]
    }
//@@ end

} // verus!
fn main() {}
