//@@ unit c02_readonly properties=C02 nodegrade forbid=^(append|append_[a-z_]+|create_continuity(_locked)?|rebuild_truth|truncate|set_len|remove_file|write|write_all)$
// Read-only capabilities add nothing to the truth log: in the real text of compaction_status_v1 and context_selection_status_v1 (the same
// extraction as unit c04_tails) and of the compile-input loader no call of a truth-log writer is reachable.  Every callee of these
// functions is either a stub listed here (a reader) or, if the source gains a new call, is stubbed mechanically from the repository:
// a callee whose name matches the `forbid` pattern (EventLog::append, the twelve ContinuityStore::append_* writers, create_continuity)
// gets the contract `requires false`, so reaching it fails a named obligation; any other new callee leaves the unit UNDECIDED
// (`nodegrade`: a replay that passes says nothing about an effect that was not enumerated).  The payload types of the writers are
// extracted so that such a call type-checks.
#![allow(unused_imports, dead_code, unused_variables, unused_mut)]
use vstd::prelude::*;
use vstd::std_specs::iter::IteratorSpec;
use std::collections::HashMap;

//@@ include prelude/kernel_model.rs
//@@ include prelude/strings.rs

verus! {
global size_of usize == 8;

#[verifier::external_body] pub fn vfmt() -> String { unimplemented!() }        // R9
pub assume_specification [str::trim] (s: &str) -> &str;
pub assume_specification<T: std::ops::Deref>[ std::option::Option::<T>::as_deref ](o: &Option<T>) -> (r: Option<&T::Target>);
pub mod io { use vstd::prelude::*; verus! { pub struct Error { pub filler: u8 } pub type Result<T> = std::result::Result<T, Error>; } }
pub struct TailScan { pub events: Vec<Event>, pub complete: bool }
pub struct ContinuityStreamCache { pub filler: u8 }
impl ContinuityStreamCache {
    #[verifier::external_body] pub fn try_replay(&self, id: &str) -> io::Result<Option<Vec<Event>>> { unimplemented!() }
    // the sidecar file name is formed from the caller's thread id (`<dir>/<id>.jsonl`, no sanitising): a rebuild is only ever made for a
    // thread that has frames in the truth log, i.e. an id the store itself minted
    #[verifier::external_body] pub fn rebuild_best_effort(&self, id: &str, events: &Vec<Event>)
        requires events@.len() > 0,      // [readonly.sidecar_rebuilt_only_for_threads_with_frames_in_the_truth_log]
    { unimplemented!() }
    #[verifier::external_body] pub fn scan_tail_messages_runs_v1(&self, id: &str, max_events: usize, max_bytes: usize) -> io::Result<Option<TailScan>> { unimplemented!() }
    #[verifier::external_body] pub fn try_read_last_seq(&self, id: &str) -> io::Result<Option<u64>> { unimplemented!() }
    #[verifier::external_body] pub fn window_recent_messages_v1_from_message_id(&self, id: &str, anchor: &str, limit: usize) -> io::Result<Option<ContinuityWindow>> { unimplemented!() }
    #[verifier::external_body] pub fn scan_tail(&self, id: &str, max_events: usize, max_bytes: usize) -> io::Result<Option<TailScan>> { unimplemented!() }
    #[verifier::external_body] pub fn latest_compaction_checkpoint_before_or_at_seq_v1(&self, id: &str, max_to_seq: u64) -> io::Result<Option<Event>> { unimplemented!() }
}
pub struct ContinuityMeta { pub filler: u8 }
pub struct ContinuityWindow { pub events: Vec<Event>, pub from_seq: u64, pub from_message_id: Option<String> }
//@@ item crates/ripd/src/continuities.rs struct ContextCompileInput dropderive=Clone
//@@ item crates/ripd/src/context_compiler.rs const RECENT_MESSAGES_V1_LIMIT
#[verifier::external_body] pub fn resolve_cutpoint_from_tail(message_events: &Vec<(u64, String)>, head_seq: u64, anchor_message_id: &str) -> Option<(u64, u64)> { unimplemented!() }
#[verifier::external_body] pub fn resolve_context_compile_cutpoint_full(events: &Vec<Event>, anchor_message_id: &str) -> Result<(u64, Option<String>), String> { unimplemented!() }
#[verifier::external_body] pub fn count_messages_upto(message_events: &Vec<(u64, String)>, from_seq: u64) -> usize { unimplemented!() }
pub assume_specification<T, F: FnOnce() -> Option<T>>[ Option::<T>::or_else ](o: Option<T>, f: F) -> (r: Option<T>)
    requires o is None ==> f.requires(()),
    ensures o is Some ==> r == o, o is None ==> f.ensures((), r);
pub assume_specification<T>[ Option::<Option<T>>::flatten ](o: Option<Option<T>>) -> (r: Option<T>)
    ensures r == (match o { Some(Some(v)) => Some(v), _ => None });
pub enum StreamKind { Session, Task, Continuity }
pub struct EventLog { pub filler: u8 }
impl EventLog {
    #[verifier::external_body] pub fn replay_stream(&self, kind: StreamKind, id: &str) -> io::Result<Vec<Event>> { unimplemented!() }
}
pub struct ContinuityStore { pub stream_cache: ContinuityStreamCache, pub event_log: EventLog }
//@@ item crates/ripd/src/continuities.rs struct ProviderCursorUpdatedPayload dropderive=Clone
//@@ item crates/ripd/src/continuities.rs struct JobEndedPayload
//@@ item crates/ripd/src/continuities.rs struct CompactionCheckpointCreatedPayload
//@@ item crates/ripd/src/continuities.rs struct ContextCompiledPayload dropderive=Clone
//@@ item crates/ripd/src/continuities.rs struct ContextSelectionDecidedPayload dropderive=Clone
//@@ item crates/ripd/src/continuities.rs struct CompactionAutoScheduleDecidedPayload
//@@ item crates/ripd/src/continuities.rs struct ContinuityRunLink dropderive=Clone
//@@ item crates/ripd/src/continuities.rs struct ToolSideEffects dropderive=Clone
pub mod rip_kernel { pub use super::{CompactionPlannedCutPoint, ContextSelectionCompactionCheckpointV1, ContextSelectionResetV1}; }
//@@ item crates/ripd/src/continuities.rs struct CompactionStatusV1Request dropderive=Clone
//@@ item crates/ripd/src/continuities.rs struct CompactionStatusV1Response dropderive=Clone
//@@ item crates/ripd/src/continuities.rs struct CompactionStatusCheckpointV1 dropderive=Clone
//@@ item crates/ripd/src/continuities.rs struct CompactionStatusScheduleDecisionV1 dropderive=Clone
//@@ item crates/ripd/src/continuities.rs struct CompactionStatusJobOutcomeV1 dropderive=Clone
//@@ item crates/ripd/src/continuities.rs struct CompactionPlannedCutPointV1 dropderive=Clone
//@@ item crates/ripd/src/continuities.rs struct CompactionAutoResultCheckpointV1 dropderive=Clone
//@@ item crates/ripd/src/continuities.rs struct CompactionCutPointsV1Request dropderive=Clone
//@@ item crates/ripd/src/continuities.rs struct CompactionCutPointsV1Response dropderive=Clone
//@@ item crates/ripd/src/continuities.rs struct CompactionCutPointV1 dropderive=Clone
//@@ item crates/ripd/src/continuities.rs const COMPACTION_JOB_KIND_SUMMARIZER_V1
#[verifier::external_body] pub fn parse_compaction_job_created_checkpoints(result: &Option<Value>) -> Vec<CompactionAutoResultCheckpointV1> { unimplemented!() }
//@@ item crates/ripd/src/continuities.rs struct ContextSelectionStatusV1Request dropderive=Clone
//@@ item crates/ripd/src/continuities.rs struct ContextSelectionStatusCheckpointV1 dropderive=Clone
//@@ item crates/ripd/src/continuities.rs struct ContextSelectionStatusResetV1 dropderive=Clone
//@@ item crates/ripd/src/continuities.rs struct ContextSelectionStatusDecisionV1 dropderive=Clone
//@@ item crates/ripd/src/continuities.rs struct ContextSelectionStatusV1Response dropderive=Clone
//@@ include prelude/provider_cursor_status_types.rs
impl ContinuityStore {
    #[verifier::external_body] pub fn get(&self, id: &str) -> Option<ContinuityMeta> { unimplemented!() }
    // the truth-log writers of the store: present with their real signatures, unreachable by contract
    //@@ forbidstub crates/ripd/src/continuities.rs ContinuityStore::append_message
    //@@ forbidstub crates/ripd/src/continuities.rs ContinuityStore::append_run_spawned
    //@@ forbidstub crates/ripd/src/continuities.rs ContinuityStore::append_run_ended
    //@@ forbidstub crates/ripd/src/continuities.rs ContinuityStore::append_context_selection_decided
    //@@ forbidstub crates/ripd/src/continuities.rs ContinuityStore::append_context_compiled
    //@@ forbidstub crates/ripd/src/continuities.rs ContinuityStore::append_provider_cursor_updated
    //@@ forbidstub crates/ripd/src/continuities.rs ContinuityStore::append_compaction_checkpoint_created
    //@@ forbidstub crates/ripd/src/continuities.rs ContinuityStore::append_compaction_auto_schedule_decided
    //@@ forbidstub crates/ripd/src/continuities.rs ContinuityStore::append_job_spawned
    //@@ forbidstub crates/ripd/src/continuities.rs ContinuityStore::append_job_ended
    //@@ forbidstub crates/ripd/src/continuities.rs ContinuityStore::append_tool_side_effects
    //@@ forbidstub crates/ripd/src/continuities.rs ContinuityStore::create_continuity
    #[verifier::external_body] pub fn compaction_cut_points_v1(&self, id: &str, req: CompactionCutPointsV1Request) -> Result<CompactionCutPointsV1Response, String> { unimplemented!() }
    #[verifier::external_body] pub fn find_inflight_compaction_job_id_best_effort_v1(&self, id: &str) -> Option<String> { unimplemented!() }

    //@@ fn crates/ripd/src/continuities.rs ContinuityStore::replay_events
    //@@ sig
    //@@ end

    //@@ fn crates/ripd/src/continuities.rs ContinuityStore::compaction_status_v1 rules=R9 r7=1,2
    //@@ sig
    //@@ loop 0
        invariant 256 * 1024 <= tail_bytes <= 8 * 1024 * 1024,
        decreases 8 * 1024 * 1024 - tail_bytes          // [readonly.compaction_status]
    //@@ loop 1
        invariant __i1 <= __s1.len(), 256 * 1024 <= tail_bytes <= 8 * 1024 * 1024,
        decreases __i1
    //@@ loop 2
        invariant __i2 <= __s2.len(),
        decreases __s2.len() - __i2
    //@@ end

    //@@ include prelude/provider_cursor_status_rewrites.rs
    //@@ sig
    //@@ loop 0
        invariant 256 * 1024 <= tail_bytes <= 8 * 1024 * 1024,
        decreases 8 * 1024 * 1024 - tail_bytes          // [readonly.provider_cursor_status]
    //@@ loop 1
        invariant __i1 <= __s1.len(), 256 * 1024 <= tail_bytes <= 8 * 1024 * 1024,
        decreases __i1
    //@@ loop 2
        invariant __i2 <= __s2.len(),
        decreases __i2
    //@@ end

    //@@ fn crates/ripd/src/continuities.rs ContinuityStore::context_selection_status_v1 rules=R9 r7=1,2
    //@@ sig
    //@@ loop 0
        invariant 256 * 1024 <= tail_bytes <= 8 * 1024 * 1024,
        decreases 8 * 1024 * 1024 - tail_bytes          // [readonly.context_selection_status]
    //@@ loop 1
        invariant __i1 <= __s1.len(), 256 * 1024 <= tail_bytes <= 8 * 1024 * 1024,
        decreases __i1
    //@@ loop 2
        invariant __i2 <= __s2.len(),
        decreases __i2
    //@@ end

    //@@ fn crates/ripd/src/continuities.rs ContinuityStore::load_context_compile_input_recent_messages_v1 rules=R9
    //@@ rewrite {id}.iter().filter(|(seq, _)| *seq <= from_seq).count() => count_messages_upto(&{id}, from_seq)
    //@@ sig
    //@@ loop 0
        invariant 256 * 1024 <= tail_bytes <= 8 * 1024 * 1024,
        decreases 8 * 1024 * 1024 - tail_bytes          // [readonly.compile_input_loader]
    //@@ end
}

} // verus!
fn main() {}
