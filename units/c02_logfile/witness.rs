// vx: label-insensitive
// Replay of the truth log's file handling: the REAL text of EventLog::new / EventLog::append (R1 only) against the real std::fs in a scratch
// directory. Several handles on the same events.jsonl (a restarted engine whose previous log object is still alive, a CLI next to a server)
// append in every order of <= 6 appends over up to three handles, the third opened half way: after every append the file is the
// previous content, byte for byte, followed by exactly that frame's line and a newline.
use std::fs::{self, File, OpenOptions};
use std::io::{self, BufRead, BufReader, BufWriter, Read, Seek, SeekFrom, Write};
use std::path::{Path, PathBuf};
use std::sync::Mutex;
pub struct Event { pub line: String }
pub mod serde_json { pub fn to_string(e: &super::Event) -> Result<String, String> { Ok(e.line.clone()) } }
//@@ item crates/rip-log/src/lib.rs struct EventLog
impl EventLog {
    //@@ fn crates/rip-log/src/lib.rs EventLog::new
    //@@ end
    //@@ fn crates/rip-log/src/lib.rs EventLog::append
    //@@ end
}
fn main() {
    let base = std::env::temp_dir().join(format!("rip-verif-c02-{}", std::process::id()));
    let _ = fs::remove_dir_all(&base);
    let mut case = 0u32;
    for n in 1..=6usize { for code in 0..3usize.pow(n as u32) {
        let mut c = code; let order: Vec<usize> = (0..n).map(|_| { let o = c % 3; c /= 3; o }).collect();
        case += 1;
        let path = base.join(format!("c{case}")).join("events.jsonl");
        let mut handles: Vec<Option<EventLog>> = vec![None, None, None];
        let mut expect: Vec<u8> = Vec::new();
        for (k, h) in order.iter().enumerate() {
            if handles[*h].is_none() { match EventLog::new(&path) { Ok(l) => handles[*h] = Some(l), Err(e) => { println!("WITNESS {{\"function\": \"EventLog::new\", \"problem\": \"cannot open the log: {}\"}}", e); let _ = fs::remove_dir_all(&base); return; } } }
            let line = format!("{{\"frame\":{k},\"written_through_handle\":{h},\"padding\":\"{}\"}}", "x".repeat(7 * (k % 3)));
            let res = handles[*h].as_ref().unwrap().append(&Event { line: line.clone() });
            expect.extend_from_slice(line.as_bytes()); expect.push(b'\n');
            let got = fs::read(&path).unwrap_or_default();
            if res.is_err() || got != expect {
                println!("WITNESS {{\"function\": \"EventLog::new + EventLog::append\", \"handles_used_in_order\": {:?}, \"append_number\": {}, \"file_after\": {:?}, \"previous_content_plus_this_frame\": {:?}, \"problem\": \"after an append the file is not its previous content followed by exactly the new frame's line and a newline\"}}",
                    order, k, String::from_utf8_lossy(&got), String::from_utf8_lossy(&expect));
                let _ = fs::remove_dir_all(&base); return;
            }
        }
        drop(handles);
        let _ = fs::remove_dir_all(path.parent().unwrap());
    } }
    // one log object shared by several writers (sessions, tasks and thread appends all go through one EventLog): eight threads, 1500
    // frames each, of lengths around and above the writer's buffer size - afterwards the file consists of whole frames only, each
    // exactly once. A schedule search, not an enumeration: it can only ever show a torn or interleaved frame, never prove their absence.
    {
        let path = base.join("shared").join("events.jsonl");
        let log = match EventLog::new(&path) { Ok(l) => std::sync::Arc::new(l), Err(_) => { let _ = fs::remove_dir_all(&base); return; } };
        let mut joins = Vec::new();
        for t in 0..8usize { let log = log.clone(); joins.push(std::thread::spawn(move || {
            for k in 0..1500usize {
                let pad = match k % 5 { 0 => 10, 1 => 300, 2 => 4000, 3 => 9000, _ => 60 };
                let line = format!("{{\"writer\":{t},\"frame\":{k},\"padding\":\"{}\"}}", "x".repeat(pad));
                let _ = log.append(&Event { line });
            }
        })); }
        for j in joins { let _ = j.join(); }
        let text = fs::read_to_string(&path).unwrap_or_default();
        let mut seen = std::collections::BTreeSet::new(); let mut bad: Option<String> = None;
        for (n, l) in text.split('\n').enumerate() {
            if l.is_empty() { if n + 1 != text.split('\n').count() { bad = Some(format!("line {n} is empty")); break; } continue; }
            let ok = l.starts_with("{\"writer\":") && l.ends_with("\"}") && l.matches("\"writer\"").count() == 1;
            if !ok { bad = Some(format!("line {n} is not one whole frame: {:?}...", &l[..l.len().min(80)])); break; }
            let key: String = l.chars().take_while(|c| *c != 'p').collect();
            if !seen.insert(key) { bad = Some(format!("line {n} repeats a frame")); break; }
        }
        if bad.is_none() && (seen.len() != 8 * 1500 || !text.ends_with('\n')) { bad = Some(format!("{} whole frames in the file, {} were appended", seen.len(), 8 * 1500)); }
        if let Some(b) = bad {
            println!("WITNESS {{\"function\": \"EventLog::append\", \"writers\": 8, \"frames_per_writer\": 1500, \"problem\": \"concurrent appends through one log object did not leave whole, newline-terminated frames: {}\"}}", b.replace('"', "'"));
            let _ = fs::remove_dir_all(&base); return;
        }
    }
    let _ = fs::remove_dir_all(&base);
}
