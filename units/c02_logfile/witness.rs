// vx: label-insensitive
// Replay of the truth log's file handling: the REAL text of EventLog::new / EventLog::append (R1 only) against the real std::fs in a scratch
// directory. Several handles on the same events.jsonl (a restarted engine whose previous log object is still alive, a CLI next to a server)
// append in every order of <= 6 appends over up to three handles, the third opened half way: after every append the file is the
// previous content, byte for byte, followed by exactly that frame's line and a newline.
use std::fs::{self, File, OpenOptions};
use std::io::{self, BufRead, BufReader, BufWriter, Read, Seek, SeekFrom, Write};
use std::path::{Path, PathBuf};
use std::sync::Mutex;
pub struct Event { pub line: String }
pub mod serde_json { pub fn to_string(e: &super::Event) -> Result<String, String> { Ok(e.line.clone()) } }
//@@ item crates/rip-log/src/lib.rs struct EventLog
impl EventLog {
    //@@ fn crates/rip-log/src/lib.rs EventLog::new
    //@@ end
    //@@ fn crates/rip-log/src/lib.rs EventLog::append
    //@@ end
}
fn main() {
    let base = std::env::temp_dir().join(format!("rip-verif-c02-{}", std::process::id()));
    let _ = fs::remove_dir_all(&base);
    let mut case = 0u32;
    for n in 1..=6usize { for code in 0..3usize.pow(n as u32) {
        let mut c = code; let order: Vec<usize> = (0..n).map(|_| { let o = c % 3; c /= 3; o }).collect();
        case += 1;
        let path = base.join(format!("c{case}")).join("events.jsonl");
        let mut handles: Vec<Option<EventLog>> = vec![None, None, None];
        let mut expect: Vec<u8> = Vec::new();
        for (k, h) in order.iter().enumerate() {
            if handles[*h].is_none() { match EventLog::new(&path) { Ok(l) => handles[*h] = Some(l), Err(e) => { println!("WITNESS {{\"function\": \"EventLog::new\", \"problem\": \"cannot open the log: {}\"}}", e); let _ = fs::remove_dir_all(&base); return; } } }
            let line = format!("{{\"frame\":{k},\"written_through_handle\":{h},\"padding\":\"{}\"}}", "x".repeat(7 * (k % 3)));
            let res = handles[*h].as_ref().unwrap().append(&Event { line: line.clone() });
            expect.extend_from_slice(line.as_bytes()); expect.push(b'\n');
            let got = fs::read(&path).unwrap_or_default();
            if res.is_err() || got != expect {
                println!("WITNESS {{\"function\": \"EventLog::new + EventLog::append\", \"handles_used_in_order\": {:?}, \"append_number\": {}, \"file_after\": {:?}, \"previous_content_plus_this_frame\": {:?}, \"problem\": \"after an append the file is not its previous content followed by exactly the new frame's line and a newline\"}}",
                    order, k, String::from_utf8_lossy(&got), String::from_utf8_lossy(&expect));
                let _ = fs::remove_dir_all(&base); return;
            }
        }
        drop(handles);
        let _ = fs::remove_dir_all(path.parent().unwrap());
    } }
    let _ = fs::remove_dir_all(&base);
}
