//@@ unit c02_logfile properties=C02,C01 noverus bounded=logfile.every_append_leaves_the_previous_file_content_as_an_exact_prefix_whichever_handle_writes
// This unit carries no Verus obligations: what EventLog::new decides - how the file is opened - is a property of the operating system's
// file object (O_APPEND: every write lands at the current end of file, whoever else holds the file open), which no contract on the Rust
// side states. Its clause is a BOUNDED stand-in run by units/c02_logfile/witness.rs: the real EventLog::new and EventLog::append on the
// real file system. EventLog::append itself is proved in unit c01_emit (one line + newline, flushed, under one guard).
fn main() {}
