// vx: label-insensitive
// Replayed by the read-capability enumerator (shared with unit c04_status).
//@@ include units/c04_status/witness.rs
