//@@ unit c04_tails properties=C04
// Termination of the doubling tail-window loops (and of every inner loop) of three status capabilities, for every thread and every cache
// state: compaction_status_v1, provider_cursor_rotate_v1, context_selection_status_v1, provider_cursor_status_v1 - the loops of defect F12.
// provider_cursor_status_v1 keeps a function-local key struct with derived Hash and the HashMap entry API: the container is replaced by an opaque
// one through R11 rewrites (prelude/provider_cursor_status_*.rs); termination depends on it only through `len`.
#![allow(unused_imports, dead_code, unused_variables, unused_mut)]
use vstd::prelude::*;
use vstd::std_specs::iter::IteratorSpec;
use std::collections::HashMap;

//@@ include prelude/kernel_model.rs
//@@ include prelude/strings.rs

verus! {
global size_of usize == 8;

#[verifier::external_body] pub fn vfmt() -> String { unimplemented!() }        // R9
pub assume_specification [str::trim] (s: &str) -> &str;
pub assume_specification<T: std::ops::Deref>[ std::option::Option::<T>::as_deref ](o: &Option<T>) -> (r: Option<&T::Target>);
pub mod io { use vstd::prelude::*; verus! { pub struct Error { pub filler: u8 } pub type Result<T> = std::result::Result<T, Error>; } }
pub struct TailScan { pub events: Vec<Event>, pub complete: bool }
pub struct ContinuityStreamCache { pub filler: u8 }
impl ContinuityStreamCache {
    #[verifier::external_body] pub fn scan_tail(&self, id: &str, max_events: usize, max_bytes: usize) -> io::Result<Option<TailScan>> { unimplemented!() }
    #[verifier::external_body] pub fn latest_compaction_checkpoint_before_or_at_seq_v1(&self, id: &str, max_to_seq: u64) -> io::Result<Option<Event>> { unimplemented!() }
}
pub struct ContinuityMeta { pub filler: u8 }
pub struct ContinuityStore { pub stream_cache: ContinuityStreamCache }
//@@ item crates/ripd/src/continuities.rs struct ProviderCursorRotateV1Request dropderive=Clone
//@@ item crates/ripd/src/continuities.rs struct ProviderCursorRotateV1Response dropderive=Clone
//@@ item crates/ripd/src/continuities.rs struct ProviderCursorUpdatedPayload dropderive=Clone
//@@ item crates/ripd/src/continuities.rs struct CompactionStatusV1Request dropderive=Clone
//@@ item crates/ripd/src/continuities.rs struct CompactionStatusV1Response dropderive=Clone
//@@ item crates/ripd/src/continuities.rs struct CompactionStatusCheckpointV1 dropderive=Clone
//@@ item crates/ripd/src/continuities.rs struct CompactionStatusScheduleDecisionV1 dropderive=Clone
//@@ item crates/ripd/src/continuities.rs struct CompactionStatusJobOutcomeV1 dropderive=Clone
//@@ item crates/ripd/src/continuities.rs struct CompactionPlannedCutPointV1 dropderive=Clone
//@@ item crates/ripd/src/continuities.rs struct CompactionAutoResultCheckpointV1 dropderive=Clone
//@@ item crates/ripd/src/continuities.rs struct CompactionCutPointsV1Request dropderive=Clone
//@@ item crates/ripd/src/continuities.rs struct CompactionCutPointsV1Response dropderive=Clone
//@@ item crates/ripd/src/continuities.rs struct CompactionCutPointV1 dropderive=Clone
//@@ item crates/ripd/src/continuities.rs const COMPACTION_JOB_KIND_SUMMARIZER_V1
#[verifier::external_body] pub fn parse_compaction_job_created_checkpoints(result: &Option<Value>) -> Vec<CompactionAutoResultCheckpointV1> { unimplemented!() }
//@@ item crates/ripd/src/continuities.rs struct ContextSelectionStatusV1Request dropderive=Clone
//@@ item crates/ripd/src/continuities.rs struct ContextSelectionStatusCheckpointV1 dropderive=Clone
//@@ item crates/ripd/src/continuities.rs struct ContextSelectionStatusResetV1 dropderive=Clone
//@@ item crates/ripd/src/continuities.rs struct ContextSelectionStatusDecisionV1 dropderive=Clone
//@@ item crates/ripd/src/continuities.rs struct ContextSelectionStatusV1Response dropderive=Clone
//@@ include prelude/provider_cursor_status_types.rs
impl ContinuityStore {
    #[verifier::external_body] pub fn get(&self, id: &str) -> Option<ContinuityMeta> { unimplemented!() }
    #[verifier::external_body] pub fn compaction_cut_points_v1(&self, id: &str, req: CompactionCutPointsV1Request) -> Result<CompactionCutPointsV1Response, String> { unimplemented!() }
    #[verifier::external_body] pub fn find_inflight_compaction_job_id_best_effort_v1(&self, id: &str) -> Option<String> { unimplemented!() }
    #[verifier::external_body] pub fn replay_events(&self, id: &str) -> io::Result<Vec<Event>> { unimplemented!() }
    #[verifier::external_body] pub fn append_provider_cursor_updated(&self, id: &str, p: ProviderCursorUpdatedPayload) -> Result<String, String> { unimplemented!() }

    //@@ include prelude/provider_cursor_status_rewrites.rs
    //@@ sig
    //@@ loop 0
        invariant 256 * 1024 <= tail_bytes <= 8 * 1024 * 1024,
        decreases 8 * 1024 * 1024 - tail_bytes          // [provider_cursor_status.tail_window_loop_terminates]
    //@@ loop 1
        invariant __i1 <= __s1.len(), 256 * 1024 <= tail_bytes <= 8 * 1024 * 1024,
        decreases __i1
    //@@ loop 2
        invariant __i2 <= __s2.len(),
        decreases __i2
    //@@ end

    //@@ fn crates/ripd/src/continuities.rs ContinuityStore::provider_cursor_rotate_v1 rules=R9 r7=1,2
    //@@ sig
    //@@ closure 0
        requires true ensures true
    //@@ loop 0
        invariant 256 * 1024 <= tail_bytes <= 8 * 1024 * 1024, forall|a: &str, b: Option<&str>, c: Option<&str>, d: &ProviderCursorRotateV1Request| #[trigger] matches_filter.requires((a, b, c, d)),
        decreases 8 * 1024 * 1024 - tail_bytes          // [rotate.tail_window_loop_terminates]
    //@@ loop 1
        invariant __i1 <= __s1.len(), 256 * 1024 <= tail_bytes <= 8 * 1024 * 1024, forall|a: &str, b: Option<&str>, c: Option<&str>, d: &ProviderCursorRotateV1Request| #[trigger] matches_filter.requires((a, b, c, d)),
        decreases __i1
    //@@ loop 2
        invariant __i2 <= __s2.len(), forall|a: &str, b: Option<&str>, c: Option<&str>, d: &ProviderCursorRotateV1Request| #[trigger] matches_filter.requires((a, b, c, d)),
        decreases __i2
    //@@ end

    //@@ fn crates/ripd/src/continuities.rs ContinuityStore::compaction_status_v1 rules=R9 r7=1,2
    //@@ sig
    //@@ loop 0
        invariant 256 * 1024 <= tail_bytes <= 8 * 1024 * 1024,
        decreases 8 * 1024 * 1024 - tail_bytes          // [compaction_status.tail_window_loop_terminates]
    //@@ loop 1
        invariant __i1 <= __s1.len(), 256 * 1024 <= tail_bytes <= 8 * 1024 * 1024,
        decreases __i1
    //@@ loop 2
        invariant __i2 <= __s2.len(),
        decreases __s2.len() - __i2
    //@@ end

    //@@ fn crates/ripd/src/continuities.rs ContinuityStore::context_selection_status_v1 rules=R9 r7=1,2
    //@@ sig
    //@@ loop 0
        invariant 256 * 1024 <= tail_bytes <= 8 * 1024 * 1024,
        decreases 8 * 1024 * 1024 - tail_bytes          // [context_selection_status.tail_window_loop_terminates]
    //@@ loop 1
        invariant __i1 <= __s1.len(), 256 * 1024 <= tail_bytes <= 8 * 1024 * 1024,
        decreases __i1
    //@@ loop 2
        invariant __i2 <= __s2.len(),
        decreases __i2
    //@@ end
}

} // verus!
fn main() {}
