// Replayed by the sidecar enumerator (shared with unit c04_scan): try_replay and scan_tail over every enumerated sidecar content.
//@@ include units/c04_scan/witness.rs
