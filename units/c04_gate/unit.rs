//@@ unit c04_gate properties=C04
// What the full sidecar may serve in place of the truth log (C04: "or ignored"): try_replay hands out a stream only if every line parses,
// belongs to this thread's continuity stream and the seqs are 0,1,2,... without gap; scan_tail hands out a tail only if its seqs are a
// gap-free run.  Anything else is an error, which every caller turns into a read of the truth log.  File, reader and JSON decoding are
// stubs without contract; the gate itself is the real text.
#![allow(unused_imports, dead_code, unused_variables, unused_mut)]
use vstd::prelude::*;
use vstd::std_specs::iter::IteratorSpec;

//@@ include prelude/kernel_model.rs
//@@ include prelude/strings.rs

verus! {
global size_of usize == 8;

#[verifier::external_body] pub fn vfmt() -> String { unimplemented!() }        // R9
pub assume_specification [str::trim] (s: &str) -> &str;
pub assume_specification<T>[ <[T]>::reverse ](s: &mut [T])
    ensures final(s)@ == old(s)@.reverse();
pub assume_specification<T>[ Option::<Option<T>>::flatten ](o: Option<Option<T>>) -> (r: Option<T>)
    ensures r == (match o { Some(Some(v)) => Some(v), _ => None });
pub mod io {
    use vstd::prelude::*;
    verus! {
    #[derive(PartialEq, Eq, Clone, Copy)]
    pub enum ErrorKind { NotFound, InvalidData, Other }
    pub struct Error { pub filler: u8 }
    impl Error {
        #[verifier::external_body] pub fn new<E>(kind: ErrorKind, e: E) -> Error { unimplemented!() }
        #[verifier::external_body] pub fn kind(&self) -> ErrorKind { unimplemented!() }
    }
    pub type Result<T> = std::result::Result<T, Error>;
    } // verus!
}
pub struct PathBuf { pub of: Seq<char>, pub filler: u8 }
pub struct File { pub of: Seq<char>, pub filler: u8 }
impl File { #[verifier::external_body] pub fn open(p: &PathBuf) -> (r: io::Result<File>) ensures r matches Ok(f) ==> f.of == p.of { unimplemented!() } }
pub uninterp spec fn file_lines(of: Seq<char>) -> Seq<io::Result<String>>;
pub struct BufReader { pub of: Seq<char>, pub filler: u8 }
impl BufReader {
    #[verifier::external_body] pub fn new(f: File) -> (r: BufReader) ensures r.of == f.of { unimplemented!() }
    #[verifier::external_body] pub fn lines(self) -> (r: Vec<io::Result<String>>) ensures r@ == file_lines(self.of) { unimplemented!() }        // R7 (owned call form): the lines as a sequence
}
#[verifier::external_body] pub fn vline(l: &io::Result<String>) -> io::Result<&String> { unimplemented!() }     // `line?` on a borrowed item
pub mod vjson {
    use super::*;
    verus! {
    pub struct Error { pub filler: u8 }
    pub uninterp spec fn decodes_to<T>(s: Seq<char>, v: T) -> bool;
    #[verifier::external_body] pub fn from_str<T>(s: &str) -> (r: Result<T, Error>) ensures r matches Ok(v) ==> decodes_to(s@, v) { unimplemented!() }
    } // verus!
}
#[derive(PartialEq, Eq, Clone, Copy, Structural)]
pub enum StreamKind { Session, Task, Continuity, Artifact }
pub uninterp spec fn kind_of(e: Event) -> StreamKind;           // rip-kernel's Event::stream_kind (a match over the frame type)
impl Event {
    #[verifier::external_body] pub fn stream_kind(&self) -> (r: StreamKind) ensures r == kind_of(*self) { unimplemented!() }
    #[verifier::external_body] pub fn stream_id(&self) -> (r: &str) ensures r@ == self.session_id@ { unimplemented!() }
}
//@@ item crates/ripd/src/continuity_stream_cache.rs struct TailScan
//@@ item crates/ripd/src/continuity_stream_cache.rs struct SidecarBackwardScan
//@@ item crates/ripd/src/continuity_stream_cache.rs enum ParseMode
//@@ item crates/ripd/src/continuity_stream_cache.rs struct SidecarEventHeader
#[verifier::external_body] pub fn vfirst_header(v: Vec<SidecarEventHeader>) -> Option<SidecarEventHeader> { unimplemented!() }
//@@ item crates/ripd/src/continuity_stream_cache.rs const REVERSE_SCAN_CHUNK_BYTES
pub type Path = PathBuf;
pub uninterp spec fn frames_newest_first(file: Seq<char>) -> Seq<Event>;       // the frames of a sidecar file, last line first
#[verifier::external_body] pub fn scan_sidecar_backwards(file: &mut File, continuity_id: &str, max_events: usize, max_bytes: usize, mode: ParseMode, end_pos: Option<u64>) -> (r: io::Result<SidecarBackwardScan>)
    ensures r matches Ok(s) ==> {
        // decided for the scanner itself in unit c04_scan (bounded clause): the newest records in reverse order, none skipped; `complete`
        // only when the start of the file was reached
        &&& s.events@.len() <= frames_newest_first(old(file).of).len()
        &&& s.events@ == frames_newest_first(old(file).of).take(s.events@.len() as int)
        &&& (s.complete && mode is Event) ==> s.events@.len() == frames_newest_first(old(file).of).len()
    },
{ unimplemented!() }

// which checkpoint frame wins among frames visited in some order: the greatest to_seq at or before `max`, then the greatest seq
pub open spec fn ck_to_seq(e: Event) -> Option<u64> { match e.kind { EventKind::ContinuityCompactionCheckpointCreated { to_seq, .. } => Some(to_seq), _ => None } }
pub open spec fn pick(best: Option<Event>, e: Event, max: u64) -> Option<Event> {
    match ck_to_seq(e) {
        None => best,
        Some(t) => if t > max { best } else { match best {
            None => Some(e),
            Some(c) => { let ct = match ck_to_seq(c) { Some(x) => x, None => 0 }; if t > ct || (t == ct && e.seq > c.seq) { Some(e) } else { Some(c) } },
        } },
    }
}
pub open spec fn winner(s: Seq<Event>, max: u64) -> Option<Event>
    decreases s.len()
{ if s.len() == 0 { None } else { pick(winner(s.drop_last(), max), s.last(), max) } }
pub uninterp spec fn cp_sidecar(cid: Seq<char>) -> Seq<char>;
pub uninterp spec fn exists_cp_sidecar(cid: Seq<char>) -> bool;     // the checkpoint sidecar exists or could be built from the full sidecar      // the checkpoint sidecar file of a thread

// std: `&str == &str` compares the character sequences (vstd leaves eq_spec of this impl unspecified; trusted)
#[verifier::external_body]
pub broadcast proof fn axiom_refstr_eq_refstr<'a, 'b>(a: &&'a str, b: &&'b str)
    ensures #[trigger] vstd::std_specs::cmp::PartialEqSpec::<&'b str>::eq_spec(a, b) == (a@ == b@),
{}
#[verifier::external_body]
pub broadcast proof fn axiom_refstr_eq_refstr_obeys<'a, 'b>()
    ensures #[trigger] <&'a str as vstd::std_specs::cmp::PartialEqSpec<&'b str>>::obeys_eq_spec(),
{}
pub open spec fn min(a: int, b: int) -> int { if a <= b { a } else { b } }

// ---- the checkpoint index (compaction_checkpoint_index.rs) is served only whole ---------------------------------------------------
//@@ item crates/ripd/src/compaction_checkpoint_index.rs const COMPACTION_CHECKPOINT_INDEX_VERSION_V1
//@@ item crates/ripd/src/compaction_checkpoint_index.rs struct CompactionCheckpointIndexEntryV1 dropderive=Clone
pub uninterp spec fn blank(s: Seq<char>) -> bool;
#[verifier::external_body] pub fn vis_blank(l: &String) -> (r: bool) ensures r == blank(l@) { unimplemented!() }      // `line.trim().is_empty()`
#[verifier::external_body] pub fn vline_ok(l: &io::Result<String>) -> (r: io::Result<&String>) ensures r matches Ok(s) ==> *l matches Ok(t) && t == *s, r is Err ==> *l is Err { unimplemented!() }
// every line of the file is accounted for: a blank line contributes nothing, every other line decodes to exactly the next entry
pub open spec fn accounted(ls: Seq<io::Result<String>>, es: Seq<CompactionCheckpointIndexEntryV1>) -> bool
    decreases ls.len()
{
    if ls.len() == 0 { es.len() == 0 } else { match ls.last() {
        Err(_) => false,
        Ok(l) => if blank(l@) { accounted(ls.drop_last(), es) } else {
            es.len() > 0 && vjson::decodes_to(l@, es.last()) && es.last().version == COMPACTION_CHECKPOINT_INDEX_VERSION_V1 && accounted(ls.drop_last(), es.drop_last()) },
    } }
}

//@@ fn crates/ripd/src/compaction_checkpoint_index.rs load_index_v1 r7=0
//@@ rewrite let line = line?; ==>> let line = vline_ok(line)?;
//@@ rewrite line.trim().is_empty() ==>> vis_blank(line)
//@@ alias serde_json::from_str vjson::from_str
//@@ sig
    ensures
        ret matches Ok(Some(es)) ==> es@.len() > 0 && accounted(file_lines(path.of), es@)      // [checkpoint_index.served_only_whole_every_line_decodes_to_the_next_entry]
            && forall|i: int, j: int| 0 <= i < j < es@.len() ==> es@[i].seq <= es@[j].seq,      // [checkpoint_index.entries_are_in_seq_order]
//@@ loop 0
    invariant __i0 <= __s0.len(), __s0@ == file_lines(path.of),
        accounted(__s0@.take(__i0 as int), entries@),      // [checkpoint_index.every_line_so_far_is_accounted_for]
        forall|i: int, j: int| 0 <= i < j < entries@.len() ==> entries@[i].seq <= entries@[j].seq,
        entries@.len() > 0 ==> last_seq == Some(entries@.last().seq), entries@.len() == 0 ==> last_seq is None,
    decreases __s0.len() - __i0
//@@ loopbody 0
    let ghost e0 = entries@;
    proof { assert(__s0@.take(__i0 as int).drop_last() =~= __s0@.take(__i0 as int - 1)); }
//@@ loopend 0
    proof { assert(entries@.drop_last() =~= e0); assert(__s0@.take(__i0 as int).last() == __s0@[__i0 as int - 1]); }
//@@ afterloop 0
    proof { assert(__s0@.take(__s0@.len() as int) =~= __s0@); }
//@@ end


// ---- the hierarchy walk over the checkpoint index (what unit c08_ckpt assumes of the cache: at most the requested levels) ----------------
#[verifier::external_body] pub fn load_compaction_checkpoint_index_v1(path: &PathBuf) -> io::Result<Option<Vec<CompactionCheckpointIndexEntryV1>>> { unimplemented!() }      // = load_index_v1 (proved above)
#[verifier::external_body] pub fn rebuild_compaction_checkpoint_index_from_sidecar_v1(sidecar: &PathBuf, index: &PathBuf, id: &str) -> io::Result<()> { unimplemented!() }
#[verifier::external_body] pub fn vretain_to_seq(v: &mut Vec<CompactionCheckpointIndexEntryV1>, max_to_seq: u64) { unimplemented!() }       // entries.retain(|e| e.to_seq <= max)
#[verifier::external_body] pub fn vretain_kind(v: &mut Vec<CompactionCheckpointIndexEntryV1>, kind: &str) { unimplemented!() }               // entries.retain(|e| e.summary_kind == kind)
#[verifier::external_body] pub fn vsort_entries(v: &mut Vec<CompactionCheckpointIndexEntryV1>) ensures final(v)@.len() == old(v)@.len() { unimplemented!() }
pub struct LatestEntryByToSeq { pub filler: u8 }
impl LatestEntryByToSeq {
    #[verifier::external_body] pub fn new() -> LatestEntryByToSeq { unimplemented!() }
    #[verifier::external_body] pub fn existing_seq(&self, to_seq: &u64) -> Option<u64> { unimplemented!() }
    #[verifier::external_body] pub fn insert(&mut self, to_seq: u64, e: CompactionCheckpointIndexEntryV1) { unimplemented!() }
    #[verifier::external_body] pub fn into_entries(self) -> Vec<CompactionCheckpointIndexEntryV1> { unimplemented!() }
}
impl Clone for CompactionCheckpointIndexEntryV1 { #[verifier::external_body] fn clone(&self) -> (r: Self) ensures r == *self { unimplemented!() } }
pub assume_specification<'a, T, F: FnMut(&'a T) -> std::cmp::Ordering>[ <[T]>::binary_search_by ](s: &'a [T], f: F) -> (r: Result<usize, usize>)
    requires forall|x: &'a T| #[trigger] f.requires((x,));

// ---- the seekable window read (window_recent_messages_v1_from_cut_v1): both of its loops end ---------------------------------------------
//@@ item crates/ripd/src/continuity_stream_cache.rs struct ContinuityWindow dropderive=Clone
pub struct SeqSeekIndexEntryV1 { pub seq: u64, pub offset: u64 }
#[verifier::external_body] pub fn best_offset_for_seq(entries: &Vec<SeqSeekIndexEntryV1>, target_seq: u64) -> u64 { unimplemented!() }      // proved in unit c04_index
pub enum SeekFrom { Start(u64) }
impl File { #[verifier::external_body] pub fn seek(&mut self, s: SeekFrom) -> io::Result<u64> { unimplemented!() } }
pub uninterp spec fn bytes_left(r: BufReader) -> nat;      // how much of the (finite) file the reader has not handed out yet
impl BufReader { #[verifier::external_body] pub fn read_until(&mut self, b: u8, buf: &mut Vec<u8>) -> (r: io::Result<usize>)
    ensures r matches Ok(n) ==> n <= bytes_left(*old(self)) && bytes_left(*final(self)) == bytes_left(*old(self)) - n,
{ unimplemented!() } }
pub struct Metadata { pub len_: u64 }
impl Metadata { pub fn len(&self) -> (r: u64) ensures r == self.len_ { self.len_ } }
impl File { #[verifier::external_body] pub fn metadata(&self) -> io::Result<Metadata> { unimplemented!() } }
#[verifier::external_body] pub fn strip_line_terminator(buf: &mut Vec<u8>) -> (r: &[u8]) { unimplemented!() }      // proved in unit c04_scan
pub mod vjson2 { use super::*; verus! {
    #[verifier::external_body] pub fn from_slice<T>(b: &[u8]) -> Result<T, vjson::Error> { unimplemented!() }
} }

pub struct ContinuityStreamCache { pub filler: u8 }
impl ContinuityStreamCache {
    #[verifier::external_body] pub fn path_for(&self, id: &str) -> PathBuf { unimplemented!() }
    #[verifier::external_body] pub fn ensure_compaction_checkpoints_sidecar_best_effort_v1(&self, id: &str) -> (r: io::Result<Option<PathBuf>>)
        ensures r matches Ok(Some(p)) ==> p.of == cp_sidecar(id@), r matches Ok(None) ==> !exists_cp_sidecar(id@),
    { unimplemented!() }

    //@@ fn crates/ripd/src/continuity_stream_cache.rs ContinuityStreamCache::latest_compaction_checkpoint_before_or_at_seq_v1 r7v=0
    //@@ sig
        ensures
            // a frame, or "none", is answered only from the whole checkpoint sidecar, never from a window of its newest frames
            ret matches Ok(Some(e)) ==> Some(e) == winner(frames_newest_first(cp_sidecar(continuity_id@)), max_to_seq),      // [checkpoint_scan.frame_answered_is_the_winner_over_the_whole_sidecar]
            ret matches Ok(None) ==> (exists_cp_sidecar(continuity_id@) ==> winner(frames_newest_first(cp_sidecar(continuity_id@)), max_to_seq) is None),      // [checkpoint_scan.none_is_answered_only_if_no_frame_of_the_whole_sidecar_qualifies]
    //@@ loop 0
        invariant
            __g0 == frames_newest_first(cp_sidecar(continuity_id@)), __v0@.len() <= __g0.len(),      // [checkpoint_scan.every_frame_of_the_sidecar_is_visited_not_a_window_of_the_newest]
            __v0@ == __g0.reverse().take(__v0@.len() as int),
            best == winner(__g0.take(__g0.len() - __v0@.len()), max_to_seq),
        decreases __v0@.len()
    //@@ loopbody 0
        proof { assert(__g0.take(__g0.len() - __v0@.len()).drop_last() =~= __g0.take(__g0.len() - __v0@.len() - 1)); assert(event == __g0[__g0.len() - __v0@.len() - 1]); }
    //@@ afterloop 0
        proof { assert(__g0.take(__g0.len() as int) =~= __g0); }
    //@@ end

    //@@ fn crates/ripd/src/continuity_stream_cache.rs ContinuityStreamCache::try_replay rules=R9 r7=0
    //@@ rewrite let line = line?; ==>> let line = vline(line)?;
    //@@ alias serde_json::from_str vjson::from_str
    //@@ rewrite let mut events = Vec::new(); ==>> let mut events: Vec<Event> = Vec::new();
    //@@ sig
        ensures
            ret matches Ok(Some(evs)) ==> {
                &&& evs@.len() > 0
                &&& forall|i: int| 0 <= i < evs@.len() ==> (#[trigger] evs@[i]).seq == i && kind_of(evs@[i]) == StreamKind::Continuity && evs@[i].session_id@ == continuity_id@
            },      // [try_replay.served_stream_is_this_threads_numbered_from_zero_without_gap]
    //@@ loop 0
        invariant __i0 <= __s0.len(), expected_seq == events@.len(), events@.len() <= __i0,
            forall|i: int| 0 <= i < events@.len() ==> (#[trigger] events@[i]).seq == i && kind_of(events@[i]) == StreamKind::Continuity && events@[i].session_id@ == continuity_id@,      // [try_replay.every_accepted_line_is_the_next_seq_of_this_thread]
        decreases __s0.len() - __i0
    //@@ loopbody 0
        broadcast use axiom_refstr_eq_refstr, axiom_refstr_eq_refstr_obeys;
    //@@ end

    #[verifier::external_body] pub fn ensure_compaction_checkpoints_index_best_effort_v1(&self, id: &str) -> io::Result<Option<PathBuf>> { unimplemented!() }

    //@@ fn crates/ripd/src/continuity_stream_cache.rs ContinuityStreamCache::hierarchical_compaction_checkpoints_before_or_at_seq_v1 r7v=0
    //@@ rewrite entries.retain(|entry| entry.to_seq <= max_to_seq); ==>> vretain_to_seq(&mut entries, max_to_seq);
    //@@ rewrite entries.retain(|entry| entry.summary_kind == kind); ==>> vretain_kind(&mut entries, kind);
    //@@ rewrite HashMap<u64, CompactionCheckpointIndexEntryV1> = HashMap::new() ==>> LatestEntryByToSeq = LatestEntryByToSeq::new()
    //@@ rewrite match latest_by_to_seq.get(&entry.to_seq) { Some(existing) if existing.seq >= entry.seq => {} ==>> match latest_by_to_seq.existing_seq(&entry.to_seq) { Some(existing_seq) if existing_seq >= entry.seq => {}
    //@@ rewrite latest_by_to_seq.into_values().collect() ==>> latest_by_to_seq.into_entries()
    //@@ rewrite unique.sort_by(|a, b| a.to_seq.cmp(&b.to_seq).then(a.seq.cmp(&b.seq))); ==>> vsort_entries(&mut unique);
    //@@ rewrite selected.sort_by(|a, b| a.to_seq.cmp(&b.to_seq)); ==>> vsort_entries(&mut selected);
    //@@ sig
        ensures
            ret matches Ok(Some(v)) ==> v@.len() <= max_levels,      // [checkpoint_hierarchy.at_most_the_requested_levels]
    //@@ loop 0
        invariant true,
        decreases __v0@.len()
    //@@ loop 1
        invariant selected@.len() <= max_levels,
        decreases max_levels - selected@.len()      // [checkpoint_hierarchy.walk_terminates]
    //@@ end

    #[verifier::external_body] pub fn ensure_seq_index_v1(&self, id: &str, sidecar_path: &Path) -> io::Result<Vec<SeqSeekIndexEntryV1>> { unimplemented!() }

    //@@ fn crates/ripd/src/continuity_stream_cache.rs ContinuityStreamCache::window_recent_messages_v1_from_cut_v1 r7=1
    //@@ alias serde_json::from_slice vjson2::from_slice
    //@@ sig
        ensures
            ret matches Ok(w) ==> w.from_seq == from_seq,
    //@@ loop 0
        invariant 256 * 1024 <= backscan_bytes <= 256 * 1024 * 1024,
        decreases 256 * 1024 * 1024 - backscan_bytes      // [window.back_scan_for_the_oldest_needed_message_terminates]
    //@@ loop 1
        invariant __i1 <= __s1.len(),
        decreases __s1.len() - __i1
    //@@ loopbody 1
        broadcast use group_string_eq;
    //@@ loop 2
        invariant true,
        decreases (if cur_offset < boundary_pos { boundary_pos - cur_offset } else { 0 })      // [window.forward_read_up_to_the_boundary_terminates]
    //@@ loopbody 2
        broadcast use group_string_eq;
    //@@ end

    #[verifier::external_body] pub fn ensure_messages_runs_sidecar_best_effort_v1(&self, id: &str) -> io::Result<Option<PathBuf>> { unimplemented!() }
    #[verifier::external_body] pub fn lookup_message_anchor_messages_runs_v1(&self, id: &str, sidecar_path: &Path, message_id: &str) -> io::Result<Option<(u64, u64)>> { unimplemented!() }
    #[verifier::external_body] pub fn try_read_last_seq(&self, id: &str) -> io::Result<Option<u64>> { unimplemented!() }
    #[verifier::external_body] pub fn try_read_last_seq_messages_runs_v1(&self, id: &str) -> io::Result<Option<u64>> { unimplemented!() }

    //@@ fn crates/ripd/src/continuity_stream_cache.rs ContinuityStreamCache::window_recent_messages_v1_from_message_id_messages_runs_v1 r7=2
    //@@ alias serde_json::from_slice vjson2::from_slice
    //@@ rewrite .ok() .flatten() .or_else(|| { self.try_read_last_seq_messages_runs_v1(continuity_id) .ok() .flatten() }) .unwrap_or(anchor_seq); ==>> .ok().flatten(); let head_seq = match head_seq { Some(v) => v, None => match self.try_read_last_seq_messages_runs_v1(continuity_id).ok().flatten() { Some(v) => v, None => anchor_seq } };
    //@@ rewrite selected_rev.reverse(); return Ok(Some(ContinuityWindow { ==>> proof { assert(found_messages >= message_limit || scan.complete); }      // [mr_window.a_window_is_served_only_if_it_holds_the_limit_or_reaches_the_start_of_the_sidecar]\n selected_rev.reverse(); return Ok(Some(ContinuityWindow {
    //@@ sig
    //@@ loop 0
        invariant true,
        decreases bytes_left(reader)      // [mr_window.search_for_the_next_message_ends_with_the_file]
    //@@ loop 1
        invariant 256 * 1024 <= backscan_bytes <= 64 * 1024 * 1024,
        decreases 64 * 1024 * 1024 - backscan_bytes      // [mr_window.back_scan_terminates]
    //@@ loop 2
        invariant __i2 <= __s2.len(), found_messages <= __i2,
        decreases __s2.len() - __i2
    //@@ end

    #[verifier::external_body] pub fn lookup_message_anchor_v1(&self, id: &str, sidecar_path: &Path, message_id: &str) -> io::Result<Option<(u64, u64)>> { unimplemented!() }
    #[verifier::external_body] pub fn window_recent_messages_v1_from_seq(&self, id: &str, from_seq: u64, message_limit: usize) -> io::Result<Option<ContinuityWindow>> { unimplemented!() }

    //@@ fn crates/ripd/src/continuity_stream_cache.rs ContinuityStreamCache::boundary_pos_for_seq_v1
    //@@ alias serde_json::from_slice vjson2::from_slice
    //@@ rewrite &[SeqSeekIndexEntryV1] ==>> &Vec<SeqSeekIndexEntryV1>
    //@@ sig
    //@@ loop 0
        invariant true,
        decreases bytes_left(reader)      // [boundary.search_for_the_first_frame_after_the_cut_ends_with_the_file]
    //@@ loopbody 0
        broadcast use group_string_eq;
    //@@ end

    //@@ fn crates/ripd/src/continuity_stream_cache.rs ContinuityStreamCache::window_recent_messages_v1_from_message_id_full_sidecar
    //@@ alias serde_json::from_slice vjson2::from_slice
    //@@ sig
    //@@ loop 0
        invariant true,
        decreases bytes_left(reader)      // [full_window.search_for_the_next_message_ends_with_the_file]
    //@@ loopbody 0
        broadcast use group_string_eq;
    //@@ end

    //@@ fn crates/ripd/src/continuity_stream_cache.rs ContinuityStreamCache::try_read_last_seq_for_sidecar_path
    //@@ rewrite tail.headers.into_iter().next() ==>> vfirst_header(tail.headers)
    //@@ sig
    //@@ loop 0
        invariant 16 * 1024 <= max_bytes <= 4 * 1024 * 1024, max_cap == 4 * 1024 * 1024,
        decreases 4 * 1024 * 1024 - max_bytes      // [last_seq.tail_scan_terminates]
    //@@ end

    //@@ fn crates/ripd/src/continuity_stream_cache.rs ContinuityStreamCache::scan_tail r7=0
    //@@ sig
        ensures
            ret matches Ok(Some(t)) ==> forall|i: int| 0 <= i < t.events@.len() ==> (#[trigger] t.events@[i]).seq == min(t.events@[0].seq + i, u64::MAX as int),      // [scan_tail.served_tail_is_a_gap_free_run_of_seqs]
    //@@ loop 0
        invariant __i0 <= __s0.len(), __s0@ == events@.subrange(1, events@.len() as int), events@.len() >= 2,
            expected == min(events@[0].seq + __i0, u64::MAX as int),
            forall|i: int| 0 <= i <= __i0 ==> (#[trigger] events@[i]).seq == min(events@[0].seq + i, u64::MAX as int),      // [scan_tail.every_accepted_frame_continues_the_run]
        decreases __s0.len() - __i0
    //@@ end
}

} // verus!
fn main() {}
