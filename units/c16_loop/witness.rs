// Replay enumerator for the OpenResponses tool loop: the real run_openresponses_agent_loop (R3: async dropped) and the real
// ToolCallCollector::drain_function_calls / requires_workspace_lock run natively against a scripted provider.
use std::cell::RefCell;
use std::collections::{BTreeMap, HashMap, HashSet};
#[derive(Clone, Debug, PartialEq)]
pub enum Value { Null, String(String) }
pub mod serde_json {
    pub fn from_str<T: From<String>>(s: &str) -> Result<T, String> { Ok(T::from(s.to_string())) }
    pub fn to_string<T>(_v: &T) -> Result<String, String> { Ok("{}".to_string()) }
}
impl From<String> for Value { fn from(s: String) -> Self { Value::String(s) } }
pub struct Http;
pub struct ToolChoiceParam { pub allowed: Option<Vec<&'static str>> }
pub struct OpenResponsesConfig { pub stateless_history: bool, pub tool_choice: ToolChoiceParam }
pub struct ToolChoiceEnforcement { allowed: Option<Vec<&'static str>> }
impl ToolChoiceEnforcement {
    pub fn from_tool_choice(tc: &ToolChoiceParam) -> Self { Self { allowed: tc.allowed.clone() } }
    pub fn allows_function(&self, name: &str) -> bool { self.allowed.as_ref().map(|a| a.contains(&name)).unwrap_or(true) }
}
pub struct Event;
pub struct ToolInvocation { pub name: String, pub args: Value, pub timeout_ms: Option<u64> }
thread_local! {
    static EXECUTED: RefCell<Vec<String>> = RefCell::new(Vec::new());
    static SENT: RefCell<Vec<(Option<String>, Vec<ItemParam>)>> = RefCell::new(Vec::new());
    static SCRIPT: RefCell<Vec<Vec<(u64, &'static str, &'static str)>>> = RefCell::new(Vec::new());   // per response: (output_index, call_id, tool name), in arrival order
}
pub struct ToolRunner;
impl ToolRunner { pub fn run(&self, _s: &str, _seq: &mut u64, inv: ToolInvocation) -> Vec<Event> { EXECUTED.with(|e| e.borrow_mut().push(inv.name.clone())); vec![] } }
pub struct WorkspaceGuard;
pub struct WorkspaceLock;
impl WorkspaceLock { pub fn acquire(&self) -> WorkspaceGuard { WorkspaceGuard } }
//@@ fn crates/ripd/src/workspace_lock.rs requires_workspace_lock
//@@ end
pub struct ContinuityRunLink;
pub struct ToolSideEffects;
pub struct PathRef;
pub struct ContinuityStore;
impl ContinuityStore {
    pub fn workspace_root(&self) -> &PathRef { &PathRef }
    pub fn append_tool_side_effects(&self, _l: &ContinuityRunLink, _s: &str, _e: ToolSideEffects) -> Result<String, String> { Ok(String::new()) }
}
#[derive(Clone, Copy)]
pub struct EventSink;
impl EventSink { pub fn emit_all(&self, _e: Vec<Event>) {} }
#[derive(Clone, Debug, PartialEq)]
pub enum ItemParam { UserText(String), Call { call_id: String }, Output { call_id: String } }
impl ItemParam { pub fn user_message_text(p: &str) -> Self { ItemParam::UserText(p.to_string()) } }
pub struct CreateResponsePayload { prev: Option<String>, items: Vec<ItemParam> }
pub fn build_streaming_request(_c: &OpenResponsesConfig, p: &str) -> CreateResponsePayload { CreateResponsePayload { prev: None, items: vec![ItemParam::UserText(p.to_string())] } }
pub fn build_streaming_request_items(_c: &OpenResponsesConfig, items: Vec<ItemParam>) -> CreateResponsePayload { CreateResponsePayload { prev: None, items } }
pub fn build_streaming_followup_request(_c: &OpenResponsesConfig, prev: Option<&str>, items: Vec<ItemParam>) -> CreateResponsePayload { CreateResponsePayload { prev: prev.map(|s| s.to_string()), items } }
//@@ item crates/ripd/src/session.rs struct FunctionCallItem
#[derive(Default)]
pub struct ToolCallCollector { pub response_id: Option<String>, pub completed_function_calls: Vec<FunctionCallItem> }
impl ToolCallCollector {
    //@@ fn crates/ripd/src/session.rs ToolCallCollector::drain_function_calls
    //@@ end
}
pub struct OpenResponsesStreamRequest<'a> {
    pub http: &'a Http, pub config: &'a OpenResponsesConfig, pub workspace_root: &'a PathRef, pub session_id: &'a str,
    pub payload: CreateResponsePayload, pub request_index: u64, pub request_kind: &'a str, pub seq: &'a mut u64,
    pub sink: EventSink, pub collector: &'a mut ToolCallCollector,
}
// scripted provider: records what was sent, then delivers the next scripted response into the collector
pub fn stream_openresponses_request<'a>(req: OpenResponsesStreamRequest<'a>) -> Result<(), String> {
    SENT.with(|s| s.borrow_mut().push((req.payload.prev.clone(), req.payload.items.clone())));
    let idx = req.request_index as usize;
    let resp = SCRIPT.with(|s| s.borrow().get(idx).cloned()).unwrap_or_default();
    req.collector.response_id = Some(format!("resp{idx}"));
    for (oi, cid, name) in resp {
        req.collector.completed_function_calls.push(FunctionCallItem { output_index: oi, call_id: cid.to_string(), item_id: None, name: name.to_string(), arguments: "{}".to_string() });
    }
    Ok(())
}
pub fn function_call_item_from_call(call: &FunctionCallItem, _f: bool) -> ItemParam { ItemParam::Call { call_id: call.call_id.clone() } }
pub fn rejected_tool_invocation_events(_s: &str, _seq: &mut u64, _i: &ToolInvocation, _c: &str, _e: &str) -> Vec<Event> { vec![] }
pub fn tool_events_to_function_call_output(_n: &str, _e: &[Event]) -> Value { Value::Null }
pub fn summarize_continuity_tool_side_effects(_e: &[Event]) -> Option<ToolSideEffects> { None }
pub fn function_call_output_item(call_id: &str, _o: String, _s: bool) -> ItemParam { ItemParam::Output { call_id: call_id.to_string() } }
pub struct OpenResponsesRunContext<'a> {
    pub http: &'a Http, pub config: &'a OpenResponsesConfig, pub tool_runner: &'a ToolRunner, pub workspace_lock: &'a WorkspaceLock,
    pub continuities: &'a ContinuityStore, pub continuity_run: Option<&'a ContinuityRunLink>, pub session_id: &'a str,
    pub initial_items: Option<Vec<ItemParam>>, pub prompt: &'a str, pub seq: &'a mut u64, pub sink: EventSink,
}
//@@ item crates/ripd/src/session.rs struct OpenResponsesLoopOutcome
//@@ item crates/ripd/src/provider_openresponses.rs const DEFAULT_MAX_TOOL_CALLS
//@@ fn crates/ripd/src/session.rs run_openresponses_agent_loop rules=R3
//@@ end

fn run(script: Vec<Vec<(u64, &'static str, &'static str)>>, stateless: bool, allowed: Option<Vec<&'static str>>) -> (Vec<String>, Vec<(Option<String>, Vec<ItemParam>)>, String) {
    EXECUTED.with(|e| e.borrow_mut().clear()); SENT.with(|s| s.borrow_mut().clear()); SCRIPT.with(|s| *s.borrow_mut() = script);
    let cfg = OpenResponsesConfig { stateless_history: stateless, tool_choice: ToolChoiceParam { allowed } };
    let mut seq = 0u64;
    let out = run_openresponses_agent_loop(OpenResponsesRunContext { http: &Http, config: &cfg, tool_runner: &ToolRunner, workspace_lock: &WorkspaceLock,
        continuities: &ContinuityStore, continuity_run: None, session_id: "s", initial_items: None, prompt: "p", seq: &mut seq, sink: EventSink });
    (EXECUTED.with(|e| e.borrow().clone()), SENT.with(|s| s.borrow().clone()), out.reason)
}

fn main() {
    let args: Vec<String> = std::env::args().collect();
    let label = args.get(1).cloned().unwrap_or_default();
    let ids = ["m", "z", "a"]; let tools = ["read", "rm"];
    // single responses: up to 3 calls, ids in any order with output_index = position, delivered in every arrival order; tools allowed/barred
    let mut responses: Vec<Vec<(u64, &'static str, &'static str)>> = vec![vec![]];
    for n in 1..=3usize { for idperm in [[0usize, 1, 2], [1, 2, 0], [2, 0, 1], [0, 2, 1]] { for toolcode in 0..2usize.pow(n as u32) { for arrival_rev in [false, true] {
        let mut r: Vec<(u64, &'static str, &'static str)> = (0..n).map(|i| (i as u64, ids[idperm[i]], tools[(toolcode >> i) & 1])).collect();
        if arrival_rev { r.reverse(); }
        responses.push(r);
    } } } }
    let mut scripts: Vec<Vec<Vec<(u64, &'static str, &'static str)>>> = Vec::new();
    for a in &responses { scripts.push(vec![a.clone()]); }
    for a in responses.iter().step_by(3) { for b in responses.iter().step_by(5) { scripts.push(vec![a.clone(), b.clone()]); } }
    // budget scenarios: batches that cross the cap
    let big = |n: usize| (0..n).map(|i| (i as u64, "m", "read")).collect::<Vec<_>>();
    scripts.push(vec![big(30), big(5)]); scripts.push(vec![big(40)]); scripts.push(vec![big(16), big(16), big(3)]);
    // a provider that insists on a barred tool, one call per response, for 60 responses
    scripts.push((0..60).map(|_| vec![(0u64, "m", "rm")]).collect());
    for script in &scripts { for stateless in [false, true] { for allowed in [None, Some(vec!["read"])] {
        let (executed, sent, reason) = run(script.clone(), stateless, allowed.clone());
        let mut problem: Option<String> = None;
        if let Some(a) = &allowed { if executed.iter().any(|n| !a.contains(&n.as_str())) { problem = Some("a tool excluded by the configured tool choice was executed".into()); } }
        if sent.len() as u64 > DEFAULT_MAX_TOOL_CALLS + 2 { problem = Some(format!("the provider was asked {} times, each answer handling a tool call: the number of tool calls in a run is not bounded by the budget {}", sent.len(), DEFAULT_MAX_TOOL_CALLS)); }
        if executed.len() as u64 > DEFAULT_MAX_TOOL_CALLS { problem = Some(format!("{} tool calls executed, the budget is {}", executed.len(), DEFAULT_MAX_TOOL_CALLS)); }
        // answers: request i+1 must answer exactly the calls of response i, by call id, in output order
        for (i, resp) in script.iter().enumerate() {
            if resp.is_empty() || i + 1 >= sent.len() { continue; }
            let mut want: Vec<(u64, &str)> = resp.iter().map(|c| (c.0, c.1)).collect(); want.sort_by_key(|c| c.0);
            let want_ids: Vec<String> = want.iter().map(|c| c.1.to_string()).collect();
            let items = &sent[i + 1].1;
            let got: Vec<String> = if stateless { items.iter().rev().take_while(|it| matches!(it, ItemParam::Output { .. })).filter_map(|it| if let ItemParam::Output { call_id } = it { Some(call_id.clone()) } else { None }).collect::<Vec<_>>().into_iter().rev().collect() }
                else { items.iter().filter_map(|it| if let ItemParam::Output { call_id } = it { Some(call_id.clone()) } else { None }).collect() };
            if got != want_ids && reason != "max_tool_calls_exceeded" { problem = Some(format!("request {} answers {:?} but the provider's calls were {:?} (by call id, in output order, each exactly once)", i + 1, got, want_ids)); }
            if stateless && i + 1 < sent.len() && !(sent[i + 1].1.len() >= sent[i].1.len() && sent[i + 1].1[..sent[i].1.len()] == sent[i].1[..]) { problem = Some("stateless history: a request's input does not extend the previous one".into()); }
        }
        if let Some(p) = problem {
            let relevant = (label.contains("permitted") && p.contains("excluded")) || (label.contains("bounded") && p.contains("budget"))
                || ((label.contains("answer") || label.contains("next_request")) && p.contains("answers")) || (label.contains("history") && p.contains("history")) || label.is_empty();
            if !relevant { continue; }
            println!("WITNESS {{\"function\": \"run_openresponses_agent_loop\", \"provider_responses_(output_index,call_id,tool)\": {:?}, \"stateless_history\": {}, \"tool_choice_allows\": {:?}, \"executed\": {:?}, \"requests_sent\": {}, \"outcome\": {:?}, \"problem\": {:?}}}",
                format!("{:?}", script.iter().map(|r| if r.len() > 6 { vec![(r.len() as u64, "…", "…")] } else { r.clone() }).collect::<Vec<_>>()), stateless, allowed, if executed.len() > 8 { vec![format!("{} calls", executed.len())] } else { executed.clone() }, sent.len(), reason, p);
            return;
        }
    } } }
}
