//@@ unit c16_loop properties=C16,C07
#![allow(unused_imports, dead_code, unused_variables, unused_mut, unused_assignments)]
#![feature(allocator_api)]
use vstd::prelude::*;
use std::collections::HashSet;
use vstd::std_specs::iter::IteratorSpec;

verus! {

// ---- assumed std contracts ----------------------------------------------------------------------
pub assume_specification<T, E, F: FnOnce(E) -> T>[ std::result::Result::<T, E>::unwrap_or_else ](r: Result<T, E>, f: F) -> (out: T)
    requires r matches Err(e) ==> f.requires((e,)),
    ensures r matches Ok(v) ==> out == v;
// extend keeps what was there (weak, true contract)
pub assume_specification<T, A: std::alloc::Allocator, I: IntoIterator<Item = T>>[ <Vec<T, A> as Extend<T>>::extend ](v: &mut Vec<T, A>, i: I)
    ensures final(v)@.len() >= old(v)@.len(), final(v)@.subrange(0, old(v)@.len() as int) == old(v)@;
pub assume_specification<T: std::ops::Deref>[ std::option::Option::<T>::as_deref ](o: &Option<T>) -> (r: Option<&T::Target>)
    ensures r is Some == o is Some;

// ---- stubs (R8; trusted) ------------------------------------------------------------------------
#[verifier::external_body]
pub fn vfmt() -> String { unimplemented!() }      // R9
pub struct Http { pub filler: u8 }
pub struct ToolChoiceParam { pub filler: u8 }
pub struct OpenResponsesConfig { pub stateless_history: bool, pub tool_choice: ToolChoiceParam }
pub struct Event { pub filler: u8 }
#[derive(Clone)]
pub enum Value { Null, String(String), Other(u8) }
pub mod serde_json {
    use super::*;
    verus! {
    pub struct Error { pub filler: u8 }
    #[verifier::external_body] pub fn from_str<T>(s: &str) -> Result<T, Error> { unimplemented!() }
    #[verifier::external_body] pub fn to_string<T>(v: &T) -> Result<String, Error> { unimplemented!() }
    } // verus!
}
pub struct ToolInvocation { pub name: String, pub args: Value, pub timeout_ms: Option<u64> }

// the tool-choice gate, as a predicate over tool names (what `allows_function` decides)
pub uninterp spec fn permitted(name: Seq<char>) -> bool;
pub struct ToolChoiceEnforcement { pub filler: u8 }
impl ToolChoiceEnforcement {
    #[verifier::external_body] pub fn from_tool_choice(tc: &ToolChoiceParam) -> ToolChoiceEnforcement { unimplemented!() }
    #[verifier::external_body] pub fn allows_function(&self, name: &str) -> (r: bool) ensures r == permitted(name@) { unimplemented!() }
}
// timeless fact: this tool invocation was executed (emitted only by ToolRunner::run)
pub uninterp spec fn executed(name: Seq<char>) -> bool;
pub struct ToolRunner { pub filler: u8 }
impl ToolRunner {
    // effect constraint: a tool excluded by the configured tool choice is never executed
    #[verifier::external_body]
    pub fn run(&self, session_id: &str, seq: &mut u64, invocation: ToolInvocation) -> (r: Vec<Event>)
        requires permitted(invocation.name@),       // [tool_runner.run.requires_permitted_tool]
        ensures executed(invocation.name@),
    { unimplemented!() }
}
pub struct LockGuard { pub filler: u8 }
pub struct WorkspaceLock { pub filler: u8 }
impl WorkspaceLock { #[verifier::external_body] pub fn acquire(&self) -> LockGuard { unimplemented!() } }
#[verifier::external_body] pub fn requires_workspace_lock(name: &str) -> bool { unimplemented!() }
pub struct PathRef { pub filler: u8 }
pub struct ContinuityRunLink { pub filler: u8 }
pub struct ToolSideEffects { pub filler: u8 }
pub struct ContinuityStore { pub filler: u8 }
impl ContinuityStore {
    #[verifier::external_body] pub fn workspace_root(&self) -> &PathRef { unimplemented!() }
    #[verifier::external_body] pub fn append_tool_side_effects(&self, run: &ContinuityRunLink, sid: &str, e: ToolSideEffects) -> Result<String, String> { unimplemented!() }
}
#[derive(Clone, Copy)]
pub struct EventSink { pub filler: u8 }
impl EventSink { #[verifier::external_body] pub fn emit_all(&self, events: Vec<Event>) { unimplemented!() } }

// items of a request; `answers()` = the call id a function_call_output item answers
pub struct ItemParam { pub filler: u8 }
impl Clone for ItemParam { #[verifier::external_body] fn clone(&self) -> (r: Self) ensures r == *self { unimplemented!() } }
pub uninterp spec fn user_item(p: Seq<char>) -> ItemParam;
impl ItemParam {
    pub uninterp spec fn answers(&self) -> Seq<char>;
    #[verifier::external_body] pub fn user_message_text(p: &str) -> (r: ItemParam) ensures r == user_item(p@) { unimplemented!() }
}
// `input`: the items a request is built from (ghost; what "each request's input extends the previous one" is about).  NOT modelled: the
// opt-in compatibility option followup_user_message (ADR-0005 l.26), with which the real follow-up builder appends one trailing user message to
// the request - not to the history - so that, literally, request n+1 extends request n only up to that trailer (observed, by design)
pub struct CreateResponsePayload { pub input: Seq<ItemParam>, pub filler: u8 }
#[verifier::external_body] pub fn build_streaming_request(c: &OpenResponsesConfig, prompt: &str) -> (r: CreateResponsePayload) ensures r.input == seq![user_item(prompt@)] { unimplemented!() }
#[verifier::external_body] pub fn build_streaming_request_items(c: &OpenResponsesConfig, items: Vec<ItemParam>) -> (r: CreateResponsePayload) ensures r.input == items@ { unimplemented!() }
// timeless fact: `calls` is the batch of function calls of one provider response, in provider output order
pub uninterp spec fn drained(calls: Seq<FunctionCallItem>) -> bool;
pub open spec fn answers_batch(items: Seq<ItemParam>, calls: Seq<FunctionCallItem>) -> bool {
    items.len() == calls.len() && forall|k: int| 0 <= k < items.len() ==> (#[trigger] items[k]).answers() == calls[k].call_id@
}
// effect constraint: a follow-up that carries tool outputs (stateful mode) answers exactly one drained
// batch, call by call, in provider order
#[verifier::external_body]
pub fn build_streaming_followup_request(c: &OpenResponsesConfig, prev: Option<&str>, items: Vec<ItemParam>) -> (r: CreateResponsePayload)
    requires prev is Some ==> exists|calls: Seq<FunctionCallItem>| #![auto] drained(calls) && answers_batch(items@, calls),     // [followup.requires_outputs_answer_each_call_once_in_order]
    ensures r.input == items@,
{ unimplemented!() }

//@@ item crates/ripd/src/session.rs struct FunctionCallItem
pub struct ToolCallCollector { pub response_id: Option<String>, pub filler: u8 }
impl ToolCallCollector {
    #[verifier::external_body] pub fn default() -> ToolCallCollector { unimplemented!() }
    #[verifier::external_body] pub fn drain_function_calls(&mut self) -> (r: Vec<FunctionCallItem>) ensures drained(r@) { unimplemented!() }
}
pub struct OpenResponsesStreamRequest<'a> {
    pub http: &'a Http, pub config: &'a OpenResponsesConfig, pub workspace_root: &'a PathRef, pub session_id: &'a str,
    pub payload: CreateResponsePayload, pub request_index: u64, pub request_kind: &'a str, pub seq: &'a mut u64,
    pub sink: EventSink, pub collector: &'a mut ToolCallCollector,
}
#[verifier::external_body]
pub fn stream_openresponses_request<'a>(req: OpenResponsesStreamRequest<'a>) -> Result<(), String> { unimplemented!() }
#[verifier::external_body] pub fn function_call_item_from_call(call: &FunctionCallItem, flag: bool) -> ItemParam { unimplemented!() }
#[verifier::external_body] pub fn rejected_tool_invocation_events(sid: &str, seq: &mut u64, inv: &ToolInvocation, call_id: &str, error: &str) -> Vec<Event> { unimplemented!() }
#[verifier::external_body] pub fn tool_events_to_function_call_output(name: &str, events: &Vec<Event>) -> Value { unimplemented!() }
#[verifier::external_body] pub fn summarize_continuity_tool_side_effects(events: &Vec<Event>) -> Option<ToolSideEffects> { unimplemented!() }
// side effects of mutating tools that still have to be recorded on the thread (runs attached to a thread only)
pub tracked struct Pending { pub ghost n: int }
#[verifier::external_body] pub fn summarize_t(Tracked(se): Tracked<&mut Pending>, linked: bool, events: &Vec<Event>) -> (r: Option<ToolSideEffects>)
    ensures final(se).n == old(se).n + (if r is Some && linked { 1int } else { 0int }),
{ unimplemented!() }
#[verifier::external_body] pub fn append_side_effects_t(Tracked(se): Tracked<&mut Pending>, c: &ContinuityStore, run: &ContinuityRunLink, sid: &str, e: ToolSideEffects) -> (r: Result<String, String>)
    ensures final(se).n == old(se).n - 1,
{ unimplemented!() }
#[verifier::external_body]
pub fn function_call_output_item(call_id: &str, output: String, stateless: bool) -> (r: ItemParam) ensures r.answers() == call_id@ { unimplemented!() }

pub struct OpenResponsesRunContext<'a> {
    pub http: &'a Http, pub config: &'a OpenResponsesConfig, pub tool_runner: &'a ToolRunner, pub workspace_lock: &'a WorkspaceLock,
    pub continuities: &'a ContinuityStore, pub continuity_run: Option<&'a ContinuityRunLink>, pub session_id: &'a str,
    pub initial_items: Option<Vec<ItemParam>>, pub prompt: &'a str, pub seq: &'a mut u64, pub sink: EventSink,
}
//@@ item crates/ripd/src/session.rs struct OpenResponsesLoopOutcome
//@@ item crates/ripd/src/provider_openresponses.rs const DEFAULT_MAX_TOOL_CALLS

pub open spec fn answers_prefix(items: Seq<ItemParam>, calls: Seq<FunctionCallItem>, n: int) -> bool {
    items.len() == n && n <= calls.len() && forall|k: int| 0 <= k < n ==> (#[trigger] items[k]).answers() == calls[k].call_id@
}
pub open spec fn is_prefix<T>(a: Seq<T>, b: Seq<T>) -> bool { a.len() <= b.len() && b.subrange(0, a.len() as int) =~= a }

//@@ fn crates/ripd/src/session.rs run_openresponses_agent_loop rules=R3,R4,R9 attr=verifier::exec_allows_no_decreases_clause
//@@ rewrite let mut collector = ToolCallCollector::default(); ==>> proof { assert(stateless_history ==> is_prefix(last_input, payload.input)); last_input = payload.input; } let mut collector = ToolCallCollector::default();
//@@ rewrite OpenResponsesRunContext<'_> ==>> OpenResponsesRunContext<'_>, Tracked(se): Tracked<&mut Pending>
//@@ rewrite summarize_continuity_tool_side_effects(&tool_events) ==>> summarize_t(Tracked(&mut *se), continuity_run.is_some(), &tool_events)
//@@ rewrite continuities.append_tool_side_effects( ==>> append_side_effects_t(Tracked(&mut *se), continuities,
//@@ sig
    requires old(se).n == 0,
    ensures final(se).n == 0,      // [loop.the_side_effects_of_every_mutating_tool_run_are_recorded_on_the_thread_before_the_loop_returns]
//@@ entry
    let ghost mut last_input: Seq<ItemParam> = Seq::empty();      // the input of the request sent last
    let ghost mut sent_history: Seq<ItemParam> = Seq::empty();
    let ghost mut handled: int = 0;       // every call item taken from a provider batch (executed or refused)
//@@ loop 0
    invariant
        se.n == 0,
        handled == tool_call_count && tool_call_count <= DEFAULT_MAX_TOOL_CALLS,                                      // [loop.tool_calls_bounded]
        stateless_history == config.stateless_history,
        // stateless mode: the history a request is built from only ever grows
        is_prefix(sent_history, history_items@),                                                                       // [loop.stateless_history_extends]
        // stateless mode: everything the last request carried is still at the front of the history the next one is built from, and a
        // compiled context waiting to be sent as the first request is that history
        stateless_history ==> is_prefix(last_input, history_items@),                                                   // [loop.stateless_request_input_extends_the_previous_request]
        (stateless_history && initial_request_items is Some) ==> initial_request_items->Some_0@ == history_items@,
        followup_tool_outputs is Some ==> initial_request_items is None,
        // the outputs carried into the next request answer one provider batch, once each, in provider order
        followup_tool_outputs matches Some(outs) ==> exists|calls: Seq<FunctionCallItem>| #![auto] drained(calls) && answers_batch(outs@, calls),   // [loop.next_request_answers_each_call_once_in_order]
        (followup_tool_outputs is Some && !stateless_history) ==> previous_response_id is Some,
//@@ loopbody 0
    proof { sent_history = history_items@; }
//@@ loop 1 iter=it1
    invariant
        se.n == 0,
        is_prefix(sent_history, history_items@), stateless_history ==> is_prefix(last_input, history_items@), initial_request_items is None,
//@@ loop 2 iter=it2
    invariant
        se.n == 0,
        handled == tool_call_count && tool_call_count <= DEFAULT_MAX_TOOL_CALLS,          // [loop.tool_calls_bounded]
        is_prefix(sent_history, history_items@), stateless_history ==> is_prefix(last_input, history_items@), initial_request_items is None,
        it2.snapshot@.remaining() == tool_calls@,
        it2.history@.len() == it2.index@,
        forall|k: int| 0 <= k < it2.index@ ==> #[trigger] it2.history@[k] == tool_calls@[k],
        answers_prefix(tool_outputs@, tool_calls@, it2.index@),     // [loop.each_call_answered_once_by_call_id_in_order]
//@@ loopbody 2
    proof { handled = handled + 1; }
//@@ afterloop 2
    proof { assert(answers_batch(tool_outputs@, tool_calls@)); }       // [loop.each_call_answered_once_by_call_id_in_order]
//@@ end

} // verus!
fn main() {}
