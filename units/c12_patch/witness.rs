// Replay enumerator for patch application: the real patch.rs (whole file) and the real Workspace::apply_patch run
// natively against the real std::fs in a scratch directory; results are compared with an independent model of the
// ADR-0003 semantics (first occurrence at or after the cursor, empty context appends, operations in order).
use std::collections::{BTreeMap, BTreeSet};
use std::fs;
use std::io;
use std::path::{Component, Path, PathBuf};
//@@ file crates/rip-workspace/src/patch.rs mod=patch
pub use patch::{Patch, PatchHunk, PatchOp, PatchParseError};
//@@ item crates/rip-workspace/src/lib.rs struct PatchApplyResult
pub struct Workspace { root: PathBuf }
fn normalize_rel(path: &Path) -> String { path.to_string_lossy().replace('\\', "/") }
impl Workspace {
    //@@ fn crates/rip-workspace/src/lib.rs Workspace::apply_patch
    //@@ end
    //@@ fn crates/rip-workspace/src/lib.rs Workspace::safe_join
    //@@ end
    //@@ fn crates/rip-workspace/src/lib.rs Workspace::revert_paths
    //@@ end
}

// ---- independent model -------------------------------------------------------------------------------------
fn model_hunks(text: &str, hunks: &[(Vec<String>, Vec<String>)]) -> Option<String> {
    let crlf = text.contains("\r\n");
    let trailing = text.ends_with('\n');
    let mut lines: Vec<String> = text.split('\n').map(|l| l.strip_suffix('\r').unwrap_or(l).to_string()).collect();
    if trailing { lines.pop(); }
    let mut cursor = 0usize;
    for (before, after) in hunks {
        if before.is_empty() { lines.extend(after.iter().cloned()); cursor = lines.len(); continue; }
        let mut found = None;
        let mut i = cursor;
        while i + before.len() <= lines.len() { if &lines[i..i + before.len()] == before.as_slice() { found = Some(i); break; } i += 1; }
        let pos = found?;
        let mut next = lines[..pos].to_vec(); next.extend(after.iter().cloned()); next.extend(lines[pos + before.len()..].iter().cloned());
        lines = next; cursor = pos + after.len();
    }
    if lines.is_empty() { return Some(String::new()); }
    let nl = if crlf { "\r\n" } else { "\n" };
    let mut out = lines.join(nl); if trailing { out.push_str(nl); }
    Some(out)
}
#[derive(Clone, Debug)]
enum Op { Add(&'static str, String), Del(&'static str), Upd(&'static str, Option<&'static str>, Vec<(Vec<String>, Vec<String>)>) }
fn model_apply(mut fs_: BTreeMap<String, String>, ops: &[Op]) -> Option<(BTreeMap<String, String>, BTreeSet<String>)> {
    let mut changed = BTreeSet::new();
    for op in ops { match op {
        Op::Add(p, c) => { if fs_.contains_key(*p) { return None; } fs_.insert(p.to_string(), c.clone()); changed.insert(p.to_string()); }
        Op::Del(p) => { fs_.remove(*p)?; changed.insert(p.to_string()); }
        Op::Upd(p, mv, hunks) => { let t = fs_.get(*p)?.clone(); let u = model_hunks(&t, hunks)?; fs_.insert(p.to_string(), u.clone()); changed.insert(p.to_string());
            if let Some(m) = mv { if fs_.contains_key(*m) { return None; } fs_.remove(*p); fs_.insert(m.to_string(), u); changed.insert(m.to_string()); } }
    } }
    Some((fs_, changed))
}
fn patch_text(ops: &[Op]) -> String {
    let mut s = String::from("*** Begin Patch\n");
    for op in ops { match op {
        Op::Add(p, c) => { s.push_str(&format!("*** Add File: {p}\n")); for l in c.lines() { s.push_str(&format!("+{l}\n")); } }
        Op::Del(p) => s.push_str(&format!("*** Delete File: {p}\n")),
        Op::Upd(p, mv, hunks) => { s.push_str(&format!("*** Update File: {p}\n")); if let Some(m) = mv { s.push_str(&format!("*** Move to: {m}\n")); }
            for (b, a) in hunks { s.push_str("@@\n"); for l in b { s.push_str(&format!("-{l}\n")); } for l in a { s.push_str(&format!("+{l}\n")); } } }
    } }
    s.push_str("*** End Patch\n"); s
}
fn read_all(root: &Path) -> BTreeMap<String, String> {
    let mut out = BTreeMap::new();
    fn walk(p: &Path, root: &Path, out: &mut BTreeMap<String, String>) { if let Ok(rd) = fs::read_dir(p) { for e in rd.flatten() { let q = e.path(); if q.is_dir() { walk(&q, root, out); } else { out.insert(q.strip_prefix(root).unwrap().to_string_lossy().to_string(), fs::read_to_string(&q).unwrap_or_default()); } } } }
    walk(root, root, &mut out); out
}

fn main() {
    let args: Vec<String> = std::env::args().collect();
    let label = args.get(1).cloned().unwrap_or_default();
    let v = |xs: &[&str]| xs.iter().map(|s| s.to_string()).collect::<Vec<String>>();
    // ---- (1) text updates: every file of <= 5 lines over {a,b}, LF/CRLF, with/without trailing newline; up to 2 hunks with contexts of <= 3 lines ----
    if label.contains("text_updates") || label.contains("apply_hunks") {
        let sides: Vec<Vec<String>> = vec![v(&[]), v(&["a"]), v(&["b"]), v(&["a", "b"]), v(&["b", "a"]), v(&["a", "a"])];
        // contexts also of three lines (a context that starts with a repeated line, inside a longer run of that line, is where a
        // search that skips lines it already compared goes wrong)
        let mut contexts: Vec<Vec<String>> = sides.clone();
        for c in 0..8usize { contexts.push((0..3).map(|i| if (c >> i) & 1 == 1 { "b".to_string() } else { "a".to_string() }).collect()); }
        let mut hunk_list: Vec<(Vec<String>, Vec<String>)> = Vec::new();
        for b in &contexts { for a in &sides { if !(b.is_empty() && a.is_empty()) { hunk_list.push((b.clone(), a.clone())); } } }
        for n in 0..=5usize { for code in 0..2usize.pow(n as u32) { for crlf in [false, true] { for trailing in [true, false] {
            let lines: Vec<&str> = (0..n).map(|i| if (code >> i) & 1 == 1 { "b" } else { "a" }).collect();
            if crlf && n < 2 { continue; }
            let nl = if crlf { "\r\n" } else { "\n" };
            let mut text = lines.join(nl); if trailing && n > 0 { text.push_str(nl); }
            for h1 in &hunk_list { for h2 in hunk_list.iter().map(Some).chain(std::iter::once(None)) {
                let hs: Vec<(Vec<String>, Vec<String>)> = std::iter::once(h1.clone()).chain(h2.cloned()).collect();
                let real_hunks: Vec<PatchHunk> = hs.iter().map(|(b, a)| PatchHunk { before: b.clone(), after: a.clone() }).collect();
                let got = patch::apply_hunks_to_text(&text, &real_hunks, Path::new("f")).ok();
                let want = model_hunks(&text, &hs);
                if got != want {
                    println!("WITNESS {{\"function\": \"apply_hunks_to_text\", \"original\": {:?}, \"hunks_before_after\": {:?}, \"returned\": {:?}, \"expected\": {:?}, \"problem\": \"result differs from performing the hunks in order (first occurrence at or after the cursor; line endings and trailing newline preserved)\"}}", text, hs, got, want);
                    return;
                }
            } }
        } } } }
        return;
    }
    // ---- (2) whole patches on the real file system: all-or-nothing and exact ----
    if !(label.contains("all_or_nothing") || label.contains("apply_patch")) { return; }
    let base = std::env::temp_dir().join(format!("rip-verif-c12-{}", std::process::id()));
    let _ = fs::remove_dir_all(&base);
    let files = ["a.txt", "d/b.txt", "c.txt"];
    let upd = |p: &'static str, mv: Option<&'static str>, b: &[&str], a: &[&str]| Op::Upd(p, mv, vec![(v(b), v(a))]);
    let mut single: Vec<Op> = Vec::new();
    for f in files { single.push(Op::Add(f, "n\n".to_string())); single.push(Op::Del(f)); single.push(upd(f, None, &["x"], &["y"])); single.push(upd(f, None, &["y"], &["z"])); single.push(upd(f, None, &["nope"], &["q"])); }
    single.push(upd("a.txt", Some("c.txt"), &["x"], &["y"])); single.push(upd("a.txt", Some("d/b.txt"), &["x"], &["x"]));
    let mut case = 0u64;
    // patches of one, two and (thinned out) three operations ...
    let mut patches: Vec<(Vec<Op>, bool)> = Vec::new();
    for i in 0..single.len() { for j in (0..single.len()).map(Some).chain(std::iter::once(None)) { for k in (0..single.len()).map(Some).chain(std::iter::once(None)) {
        if j.is_none() && k.is_some() { continue; }
        if (i + 2 * j.unwrap_or(0) + k.unwrap_or(0)) % 3 != 0 && k.is_some() { continue; }       // thin out the triples
        patches.push(([Some(i), j, k].iter().flatten().map(|x| single[*x].clone()).collect(), false));
    } } }
    // ... and every patch of FOUR operations over two files from seven operations (update, update again, update + move away, re-add,
    // delete, update the move target, add the move target): a path that is updated, moved away, added again and updated again
    let deep: Vec<Op> = vec![upd("a.txt", None, &["x"], &["y"]), upd("a.txt", None, &["n"], &["m"]), upd("a.txt", Some("c.txt"), &["y"], &["z"]), Op::Add("a.txt", "n\n".to_string()), Op::Del("a.txt"),
        upd("c.txt", None, &["z"], &["w"]), Op::Add("c.txt", "x\n".to_string())];
    for code in 0..deep.len().pow(4) { let mut c = code; patches.push(((0..4).map(|_| { let o = deep[c % deep.len()].clone(); c /= deep.len(); o }).collect(), true)); }
    for state in 0..8usize {       // which of the three files exist (content "x\n")
        for (ops, is_deep) in patches.iter() { {
            if *is_deep && state != 1 && state != 5 { continue; }
            let ops: Vec<Op> = ops.clone();
            case += 1;
            let root = base.join(format!("r{case}")); fs::create_dir_all(&root).unwrap();
            let mut model: BTreeMap<String, String> = BTreeMap::new();
            for (n, f) in files.iter().enumerate() { if (state >> n) & 1 == 1 { let p = root.join(f); fs::create_dir_all(p.parent().unwrap()).unwrap(); fs::write(&p, "x\n").unwrap(); model.insert(f.to_string(), "x\n".to_string()); } }
            let ws = Workspace { root: root.clone() };
            let res = ws.apply_patch(&patch_text(&ops));
            let after = read_all(&root);
            let want = model_apply(model.clone(), &ops);
            let problem = match (&res, &want) {
                (Ok(r), Some((wfs, wch))) => if &after != wfs { Some("workspace after success differs from performing the operations in order") } else if r.changed_files.iter().cloned().collect::<BTreeSet<_>>() != *wch { Some("reported changed files are not exactly the files named") } else { None },
                (Ok(_), None) => Some("patch succeeded although an operation cannot apply"),
                (Err(_), Some(_)) => Some("patch failed although every operation applies"),
                (Err(_), None) => if after != model { Some("a failed patch did not leave every file as it was (all-or-nothing)") } else { None },
            };
            if let Some(p) = problem {
                println!("WITNESS {{\"function\": \"Workspace::apply_patch\", \"files_before\": {:?}, \"operations\": {:?}, \"result\": {:?}, \"files_after\": {:?}, \"expected_files_after\": {:?}, \"problem\": \"{}\"}}",
                    model, format!("{:?}", ops), res.as_ref().map(|r| r.changed_files.clone()).map_err(|e| e.to_string()), after, want.as_ref().map(|w| w.0.clone()).unwrap_or(model.clone()), p);
                let _ = fs::remove_dir_all(&base); return;
            }
            let _ = fs::remove_dir_all(&root);
        } }
    }
    let _ = fs::remove_dir_all(&base);
}
