//@@ unit c12_patch properties=C12 noverus bounded=patch.text_updates_equal_performing_the_hunks_in_order_line_endings_preserved,patch.all_or_nothing_and_exact_on_the_real_file_system
// This unit carries no Verus obligations: apply_hunks_to_text needs Vec::splice / iter::Cloned / RangeInclusive::find
// specifications this Verus does not have, and Workspace::apply_patch uses closures that capture &mut (rejected).
// Its two clauses are BOUNDED stand-ins run by units/c12_patch/witness.rs on the extracted real code.
fn main() {}
