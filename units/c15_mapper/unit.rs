//@@ unit c15_mapper properties=C15,C01 bounded=sse_decoder.chunking_invariant_events_do_not_depend_on_chunk_boundaries
#![allow(unused_imports, dead_code, unused_variables, unused_mut)]
#![feature(allocator_api)]
use vstd::prelude::*;

//@@ include prelude/kernel_model.rs

verus! {

// ---- stubs (R8; trusted) ----------------------------------------------------------------------
#[verifier::external_body]
pub fn now_ms() -> u64 { unimplemented!() }
pub struct Uuid { pub filler: u8 }
impl Uuid {
    #[verifier::external_body] pub fn new_v4() -> Uuid { unimplemented!() }
    #[verifier::external_body] pub fn to_string(&self) -> String { unimplemented!() }
}

//@@ item crates/rip-provider-openresponses/src/lib.rs enum ParsedEventKind
//@@ item crates/rip-provider-openresponses/src/lib.rs struct ParsedEvent dropderive=Clone
//@@ item crates/rip-provider-openresponses/src/lib.rs struct EventFrameMapper

// the text delta carried by a parsed event, if any (JSON inspection is not under contract)
pub uninterp spec fn text_delta_of(p: ParsedEvent) -> Option<Seq<char>>;
#[verifier::external_body]
pub fn output_text_delta(parsed: &ParsedEvent) -> (r: Option<String>)
    ensures match r { Some(s) => text_delta_of(*parsed) == Some(s@), None => text_delta_of(*parsed) is None },
{ unimplemented!() }

pub open spec fn same_strings(a: Seq<String>, b: Seq<String>) -> bool {
    a.len() == b.len() && forall|i: int| 0 <= i < a.len() ==> (#[trigger] a[i])@ == b[i]@
}
pub open spec fn same_opt_string(a: Option<String>, b: Option<String>) -> bool {
    (a is None <==> b is None) && (a is Some ==> a->Some_0@ == b->Some_0@)
}
// the provider-event frame of a parsed SSE event: payload unchanged, per kind
pub open spec fn is_provider_frame_of(k: EventKind, p: ParsedEvent) -> bool {
    k matches EventKind::ProviderEvent { provider, status, event_name, data, raw, errors, response_errors }
    && same_opt_string(event_name, p.event)
    && same_strings(errors@, p.errors@)
    && same_strings(response_errors@, p.response_errors@)
    && match p.kind {
        ParsedEventKind::Done => status is Done && data is None && raw is Some && raw->Some_0@ == p.raw@,
        ParsedEventKind::InvalidJson => status is InvalidJson && data is None && raw is Some && raw->Some_0@ == p.raw@,
        ParsedEventKind::Event => status is Event && data == p.data && raw is None,
    }
}

impl EventFrameMapper {
    //@@ fn crates/rip-provider-openresponses/src/lib.rs EventFrameMapper::emit
    //@@ sig
        requires old(self).seq < u64::MAX,
        ensures
            ret.seq == old(self).seq && final(self).seq == old(self).seq + 1,                 // [emit.numbers_consecutively]
            ret.kind == kind && ret.session_id@ == old(self).session_id@,                     // [emit.carries_kind_and_stream]
            final(self).session_id@ == old(self).session_id@,
    //@@ end

    //@@ fn crates/rip-provider-openresponses/src/lib.rs EventFrameMapper::emit_provider_event
    //@@ sig
        requires old(self).seq < u64::MAX,
        ensures
            ret.seq == old(self).seq && final(self).seq == old(self).seq + 1,
            final(self).session_id@ == old(self).session_id@ && ret.session_id@ == old(self).session_id@,
            is_provider_frame_of(ret.kind, *parsed),                                           // [emit_provider_event.payload_unchanged_per_kind]
    //@@ end

    //@@ fn crates/rip-provider-openresponses/src/lib.rs EventFrameMapper::map
    //@@ sig
        requires old(self).seq < u64::MAX - 1,
        ensures
            // exactly one provider-event frame per parsed event, then at most one derived text frame; numbered without gap
            ret@.len() == (if text_delta_of(*parsed) is Some { 2int } else { 1int }),           // [map.one_provider_frame_plus_optional_text_frame]
            is_provider_frame_of(ret@[0].kind, *parsed),                                       // [map.first_frame_is_the_provider_event_unchanged]
            text_delta_of(*parsed) matches Some(d) ==> (ret@[1].kind matches EventKind::OutputTextDelta { delta } && delta@ == d),   // [map.text_frame_carries_exactly_the_delta]
            forall|i: int| 0 <= i < ret@.len() ==> (#[trigger] ret@[i]).seq == old(self).seq + i,     // [map.frames_numbered_consecutively]
            final(self).seq == old(self).seq + ret@.len(),                                     // [map.counter_advances_by_frame_count]
            final(self).session_id@ == old(self).session_id@,
    //@@ end
}

// ---- parsing one SSE data block into a ParsedEvent: the payload that is kept is the payload that was parsed ------------------
#[derive(Clone, Copy)]
pub struct ValidationOptions { pub normalize_missing_item_ids: bool }
#[verifier::external_body] pub fn vfmt() -> String { unimplemented!() }        // R9
#[verifier::external_body] pub fn normalize_event_for_validation(v: &Value) -> Value { unimplemented!() }
#[verifier::external_body] pub fn validate_stream_event(v: &Value) -> Result<(), Vec<String>> { unimplemented!() }
#[verifier::external_body] pub fn validate_response_resource(v: &Value) -> Result<(), Vec<String>> { unimplemented!() }
#[verifier::external_body] pub fn type_name_of(v: &Value) -> Option<&str> { unimplemented!() }
#[verifier::external_body] pub fn response_of(v: &Value) -> Option<&Value> { unimplemented!() }
pub assume_specification<T, A: std::alloc::Allocator, I: IntoIterator<Item = T>>[ <Vec<T, A> as Extend<T>>::extend ](v: &mut Vec<T, A>, i: I);
impl ParsedEvent {
    //@@ fn crates/rip-provider-openresponses/src/lib.rs ParsedEvent::event rules=R9
    //@@ rewrite {id}.get("type").and_then(|v| v.as_str()) => type_name_of(&{id})
    //@@ rewrite {id}.get("response") => response_of(&{id})
    //@@ sig
        ensures
            ret.kind is Event && ret.data == Some(data) && ret.raw == raw && ret.event == event,     // [parsed_event.keeps_the_payload_unchanged]
    //@@ end
}

} // verus!
fn main() {}
