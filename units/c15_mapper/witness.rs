// Replay enumerator for the SSE decoder (chunking invariance) and the frame mapper: real function text, plain rustc.
//@@ include prelude/kernel_model_plain_json.rs
pub struct Uuid;
impl Uuid { pub fn new_v4() -> Uuid { Uuid } }
impl std::fmt::Display for Uuid { fn fmt(&self, f: &mut std::fmt::Formatter<'_>) -> std::fmt::Result { write!(f, "id") } }
pub fn now_ms() -> u64 { 0 }
#[derive(Debug, Clone, Copy, Default)]
pub struct ValidationOptions { pub normalize_missing_item_ids: bool }
impl ValidationOptions { pub fn strict() -> Self { Self { normalize_missing_item_ids: false } } }
pub mod serde_json_x {}
//@@ item crates/rip-provider-openresponses/src/lib.rs enum ParsedEventKind
//@@ item crates/rip-provider-openresponses/src/lib.rs struct ParsedEvent
impl ParsedEvent {
    //@@ fn crates/rip-provider-openresponses/src/lib.rs ParsedEvent::done
    //@@ end
    //@@ fn crates/rip-provider-openresponses/src/lib.rs ParsedEvent::invalid_json
    //@@ end
    //@@ fn crates/rip-provider-openresponses/src/lib.rs ParsedEvent::event
    //@@ end
}
// schema validation itself is out of scope here (JSON-schema engine): it accepts everything; compat normalisation is a stand-in that,
// like the real one, returns a CHANGED copy (an injected id), so that a payload taken from the wrong copy shows
fn normalize_event_for_validation(v: &Value) -> Value { let mut m = match v { Value::Object(m) => m.clone(), _ => std::collections::BTreeMap::new() }; m.insert("item_id".to_string(), Value::String("item_0".to_string())); Value::Object(m) }
fn validate_stream_event(_v: &Value) -> Result<(), Vec<String>> { Ok(()) }
fn validate_response_resource(_v: &Value) -> Result<(), Vec<String>> { Err(vec!["response resource not validated in this stand-in".to_string()]) }
// stand-in JSON parser: an object literal is valid JSON, anything else is not
pub mod json { pub fn from_str_value(s: &str) -> Result<super::Value, String> { if s.starts_with('{') && s.ends_with('}') { let mut m = std::collections::BTreeMap::new(); m.insert("raw".to_string(), super::Value::String(s.to_string())); if s.contains("resp") { m.insert("response".to_string(), super::Value::Null); } Ok(super::Value::Object(m)) } else { Err("not json".to_string()) } } }
//@@ item crates/rip-provider-openresponses/src/lib.rs struct SseDecoder dropderive=Default
impl SseDecoder {
    //@@ fn crates/rip-provider-openresponses/src/lib.rs SseDecoder::new
    //@@ end
    //@@ fn crates/rip-provider-openresponses/src/lib.rs SseDecoder::new_with_validation
    //@@ end
    //@@ fn crates/rip-provider-openresponses/src/lib.rs SseDecoder::push
    //@@ end
    //@@ fn crates/rip-provider-openresponses/src/lib.rs SseDecoder::finish
    //@@ end
    //@@ fn crates/rip-provider-openresponses/src/lib.rs SseDecoder::parse_event
    //@@ alias serde_json::from_str::<Value> json::from_str_value
    //@@ end
}

// the frame mapper: real text; the text delta of an event is a function of its payload (stand-in: payloads starting with "t:" carry the rest as delta)
//@@ item crates/rip-provider-openresponses/src/lib.rs struct EventFrameMapper
pub mod rip_kernel { pub use super::{EventKind, ProviderEventStatus}; }
fn output_text_delta(parsed: &ParsedEvent) -> Option<String> { parsed.raw.strip_prefix("t:").map(|s| s.to_string()) }
impl EventFrameMapper {
    //@@ fn crates/rip-provider-openresponses/src/lib.rs EventFrameMapper::new
    //@@ end
    //@@ fn crates/rip-provider-openresponses/src/lib.rs EventFrameMapper::map
    //@@ end
    //@@ fn crates/rip-provider-openresponses/src/lib.rs EventFrameMapper::emit_provider_event
    //@@ end
    //@@ fn crates/rip-provider-openresponses/src/lib.rs EventFrameMapper::emit
    //@@ end
}
fn payload_clause() {
    for compat in [false, true] { for raw in ["{\"a\":1}", "{\"type\":\"x\",\"resp\":1}"] { for name in [None, Some("x".to_string())] {
        let data = json::from_str_value(raw).unwrap();
        let pe = ParsedEvent::event(raw.to_string(), name.clone(), data.clone(), ValidationOptions { normalize_missing_item_ids: compat });
        if pe.data != Some(data.clone()) || pe.raw != raw || pe.event != name || !matches!(pe.kind, ParsedEventKind::Event) {
            println!("WITNESS {{\"function\": \"ParsedEvent::event\", \"payload\": {:?}, \"compat_normalisation\": {}, \"kept_data\": {:?}, \"parsed_data\": {:?}, \"problem\": \"the event does not carry the payload the provider sent\"}}", raw, compat, format!("{:?}", pe.data), format!("{:?}", data));
            std::process::exit(0);
        }
    } } }
}
fn mapper_clauses() {
    payload_clause();
    // every sequence of <= 4 parsed events over {event, event with text delta, invalid JSON, done}
    let mk = |k: u8, i: usize| match k {
        0 => ParsedEvent { kind: ParsedEventKind::Event, event: Some(format!("ev{i}")), raw: format!("{{\"n\":{i}}}"), data: Some(Value::Null), errors: vec![], response_errors: vec![] },
        1 => ParsedEvent { kind: ParsedEventKind::Event, event: None, raw: format!("t:delta{i}"), data: Some(Value::Null), errors: vec![], response_errors: vec![] },
        2 => ParsedEvent { kind: ParsedEventKind::InvalidJson, event: None, raw: format!("oops{i}"), data: None, errors: vec!["bad".to_string()], response_errors: vec![] },
        _ => ParsedEvent { kind: ParsedEventKind::Done, event: None, raw: "[DONE]".to_string(), data: None, errors: vec![], response_errors: vec![] },
    };
    for n in 0..=4usize { for code in 0..4usize.pow(n as u32) {
        let mut c = code; let kinds: Vec<u8> = (0..n).map(|_| { let k = (c % 4) as u8; c /= 4; k }).collect();
        let mut m = EventFrameMapper::new("s");
        let mut frames: Vec<Event> = Vec::new(); let mut text = String::new(); let mut want_text = String::new();
        let mut problem: Option<String> = None;
        for (i, k) in kinds.iter().enumerate() {
            let pe = mk(*k, i);
            let out = m.map(&pe);
            let prov: Vec<&Event> = out.iter().filter(|e| matches!(e.kind, EventKind::ProviderEvent { .. })).collect();
            if prov.len() != 1 || !matches!(out.first().map(|e| &e.kind), Some(EventKind::ProviderEvent { .. })) { problem = Some(format!("event {i}: {} provider-event frames (exactly one, first, expected)", prov.len())); break; }
            if let EventKind::ProviderEvent { raw, data, event_name, errors, status, .. } = &prov[0].kind {
                let payload_ok = match pe.kind { ParsedEventKind::Event => raw.is_none() && data.is_some() == pe.data.is_some() && matches!(status, ProviderEventStatus::Event),
                    ParsedEventKind::Done => raw.as_deref() == Some(pe.raw.as_str()) && data.is_none() && matches!(status, ProviderEventStatus::Done),
                    ParsedEventKind::InvalidJson => raw.as_deref() == Some(pe.raw.as_str()) && data.is_none() && matches!(status, ProviderEventStatus::InvalidJson) };
                if !payload_ok || *event_name != pe.event || *errors != pe.errors { problem = Some(format!("event {i}: payload, status, event name or errors changed")); break; } }
            let deltas: Vec<String> = out.iter().filter_map(|e| match &e.kind { EventKind::OutputTextDelta { delta } => Some(delta.clone()), _ => None }).collect();
            let want: Vec<String> = output_text_delta(&pe).into_iter().collect();
            if deltas != want || out.len() != 1 + want.len() { problem = Some(format!("event {i}: derived text frames {:?}, the event's text delta is {:?}", deltas, want)); break; }
            for d in &deltas { text.push_str(d); } for d in &want { want_text.push_str(d); }
            frames.extend(out);
        }
        if problem.is_none() && !(frames.iter().enumerate().all(|(i, e)| e.seq == i as u64 && e.session_id == "s") && text == want_text) { problem = Some("frames are not numbered 0,1,2,... on the session's stream / derived text is not the concatenation of the deltas".into()); }
        if let Some(p) = problem { println!("WITNESS {{\"function\": \"EventFrameMapper::map\", \"parsed_event_kinds\": {:?}, \"problem\": {:?}}}", kinds.iter().map(|k| ["event", "event with text delta", "invalid json", "done"][*k as usize]).collect::<Vec<_>>(), p); std::process::exit(0); }
    } }
}

fn decode(chunks: &[&str]) -> Vec<(String, String, Option<String>)> {
    let mut d = SseDecoder::new();
    let mut out = Vec::new();
    for c in chunks { out.extend(d.push(c)); }
    out.extend(d.finish());
    out.into_iter().map(|e| ((match e.kind { ParsedEventKind::Done => "Done", ParsedEventKind::InvalidJson => "InvalidJson", ParsedEventKind::Event => "Event" }).to_string(), e.raw, e.event)).collect()
}

fn main() {
    let args: Vec<String> = std::env::args().collect();
    let label = args.get(1).cloned().unwrap_or_default();
    if !label.contains("chunking_invariant") { mapper_clauses(); return; }
    // streams built from SSE pieces (LF and CRLF variants), cut at every byte position (two chunks) and at every pair of positions for short ones
    let pieces = ["data: {\"a\":1}", "data: {\"b\":", "data: 2}", "event: x", "data: [DONE]", "data: oops", ": c", "", "", "data:"];
    let nls = ["\n", "\r\n"];
    let mut streams: Vec<String> = Vec::new();
    for n in 1..=4usize {
        for code in 0..pieces.len().pow(n as u32) {
            for nl in nls {
                for trailing in [true, false] {
                    let mut c = code; let mut s = String::new();
                    for k in 0..n { let p = pieces[c % pieces.len()]; c /= pieces.len(); s.push_str(p); if k + 1 < n || trailing { s.push_str(nl); } }
                    if trailing { s.push_str(nl); }
                    streams.push(s);
                }
            }
        }
    }
    streams.push("data: h\u{e9}llo \u{20ac}\n\ndata: [DONE]\n\n".to_string());
    for s in &streams {
        let whole = decode(&[s.as_str()]);
        for cut in 0..=s.len() {
            if !s.is_char_boundary(cut) { continue; }
            let got = decode(&[&s[..cut], &s[cut..]]);
            if got != whole {
                println!("WITNESS {{\"function\": \"SseDecoder::push/finish\", \"stream\": {:?}, \"cut_at_byte\": {}, \"events_unsplit\": {:?}, \"events_split\": {:?}, \"problem\": \"decoded events depend on how the bytes were chunked\"}}", s, cut, whole, got);
                return;
            }
            if s.len() <= 24 {
                for cut2 in cut..=s.len() {
                    if !s.is_char_boundary(cut2) { continue; }
                    let got = decode(&[&s[..cut], &s[cut..cut2], &s[cut2..]]);
                    if got != whole {
                        println!("WITNESS {{\"function\": \"SseDecoder::push/finish\", \"stream\": {:?}, \"cuts_at_bytes\": [{}, {}], \"events_unsplit\": {:?}, \"events_split\": {:?}, \"problem\": \"decoded events depend on how the bytes were chunked\"}}", s, cut, cut2, whole, got);
                        return;
                    }
                }
            }
        }
        // one provider event per server-sent event, in order, payload unchanged: the unsplit decoding equals an independent reading of
        // the stream - lines end with LF / CRLF; `data:` lines (one leading space dropped) accumulate, blank ones included; `event:` names
        // the event; `:` lines are comments; a blank line dispatches the event if it has at least one data line, payload = the data
        // lines joined with LF; an event that is not terminated by a blank line when the stream ends is not dispatched.
        {
            let mut want: Vec<(String, String, Option<String>)> = Vec::new();
            let mut data: Vec<String> = Vec::new(); let mut name: Option<String> = None;
            let mut rest: &str = s.as_str();
            loop {
                let (line, more) = match rest.find('\n') { Some(i) => (&rest[..i], Some(&rest[i + 1..])), None => (rest, None) };
                let terminated = more.is_some();
                let line = line.strip_suffix('\r').unwrap_or(line);
                if terminated || !line.is_empty() {
                    if let Some(v) = line.strip_prefix("event:") { let v = v.trim(); name = if v.is_empty() { None } else { Some(v.to_string()) }; }
                    else if let Some(v) = line.strip_prefix("data:") { data.push(v.strip_prefix(' ').unwrap_or(v).to_string()); }
                    else if line.is_empty() && terminated {
                        if !data.is_empty() {
                            let raw = data.join("\n");
                            let kind = if raw == "[DONE]" { "Done" } else if json::from_str_value(&raw).is_ok() { "Event" } else { "InvalidJson" };
                            want.push((kind.to_string(), raw, if kind == "Done" { None } else { name.clone() }));
                            data.clear(); name = None;
                        }
                    }
                }
                match more { Some(m) => rest = m, None => break }
            }
            let whole_cmp: Vec<(String, String, Option<String>)> = whole.iter().map(|(k, r, n)| (k.clone(), r.clone(), if k == "Done" { None } else { n.clone() })).collect();
            if whole_cmp != want {
                println!("WITNESS {{\"function\": \"SseDecoder::push/finish\", \"stream\": {:?}, \"events_decoded\": {:?}, \"server_sent_events_in_the_stream\": {:?}, \"problem\": \"not exactly one event per server-sent event, in order, with the payload unchanged\"}}", s, whole, want);
                return;
            }
        }
    }
}
