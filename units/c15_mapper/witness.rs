// Replay enumerator for the SSE decoder (chunking invariance) and the frame mapper: real function text, plain rustc.
//@@ include prelude/kernel_model_plain.rs
pub struct Uuid;
impl Uuid { pub fn new_v4() -> Uuid { Uuid } }
impl std::fmt::Display for Uuid { fn fmt(&self, f: &mut std::fmt::Formatter<'_>) -> std::fmt::Result { write!(f, "id") } }
pub fn now_ms() -> u64 { 0 }
#[derive(Debug, Clone, Copy, Default)]
pub struct ValidationOptions { pub normalize_missing_item_ids: bool }
impl ValidationOptions { pub fn strict() -> Self { Self { normalize_missing_item_ids: false } } }
pub mod serde_json_x {}
//@@ item crates/rip-provider-openresponses/src/lib.rs enum ParsedEventKind
//@@ item crates/rip-provider-openresponses/src/lib.rs struct ParsedEvent
impl ParsedEvent {
    //@@ fn crates/rip-provider-openresponses/src/lib.rs ParsedEvent::done
    //@@ end
    //@@ fn crates/rip-provider-openresponses/src/lib.rs ParsedEvent::invalid_json
    //@@ end
    // schema validation is out of scope here: a JSON payload is kept as data without errors
    fn event(raw: String, event: Option<String>, data: Value, _validation: ValidationOptions) -> Self {
        Self { kind: ParsedEventKind::Event, event, raw, data: Some(data), errors: Vec::new(), response_errors: Vec::new() }
    }
}
// stand-in JSON parser: an object literal is valid JSON, anything else is not
pub mod json { pub fn from_str_value(s: &str) -> Result<super::Value, String> { if s.starts_with('{') && s.ends_with('}') { Ok(super::Value { filler: 0 }) } else { Err("not json".to_string()) } } }
//@@ item crates/rip-provider-openresponses/src/lib.rs struct SseDecoder dropderive=Default
impl SseDecoder {
    //@@ fn crates/rip-provider-openresponses/src/lib.rs SseDecoder::new
    //@@ end
    //@@ fn crates/rip-provider-openresponses/src/lib.rs SseDecoder::new_with_validation
    //@@ end
    //@@ fn crates/rip-provider-openresponses/src/lib.rs SseDecoder::push
    //@@ end
    //@@ fn crates/rip-provider-openresponses/src/lib.rs SseDecoder::finish
    //@@ end
    //@@ fn crates/rip-provider-openresponses/src/lib.rs SseDecoder::parse_event
    //@@ alias serde_json::from_str::<Value> json::from_str_value
    //@@ end
}

fn decode(chunks: &[&str]) -> Vec<(String, String, Option<String>)> {
    let mut d = SseDecoder::new();
    let mut out = Vec::new();
    for c in chunks { out.extend(d.push(c)); }
    out.extend(d.finish());
    out.into_iter().map(|e| ((match e.kind { ParsedEventKind::Done => "Done", ParsedEventKind::InvalidJson => "InvalidJson", ParsedEventKind::Event => "Event" }).to_string(), e.raw, e.event)).collect()
}

fn main() {
    let args: Vec<String> = std::env::args().collect();
    let label = args.get(1).cloned().unwrap_or_default();
    if !label.contains("chunking_invariant") { return; }
    // streams built from SSE pieces (LF and CRLF variants), cut at every byte position (two chunks) and at every pair of positions for short ones
    let pieces = ["data: {\"a\":1}", "data: {\"b\":", "data: 2}", "event: x", "data: [DONE]", "data: oops", ": c", "", ""];
    let nls = ["\n", "\r\n"];
    let mut streams: Vec<String> = Vec::new();
    for n in 1..=4usize {
        for code in 0..pieces.len().pow(n as u32) {
            for nl in nls {
                for trailing in [true, false] {
                    let mut c = code; let mut s = String::new();
                    for k in 0..n { let p = pieces[c % pieces.len()]; c /= pieces.len(); s.push_str(p); if k + 1 < n || trailing { s.push_str(nl); } }
                    if trailing { s.push_str(nl); }
                    streams.push(s);
                }
            }
        }
    }
    streams.push("data: h\u{e9}llo \u{20ac}\n\ndata: [DONE]\n\n".to_string());
    for s in &streams {
        let whole = decode(&[s.as_str()]);
        for cut in 0..=s.len() {
            if !s.is_char_boundary(cut) { continue; }
            let got = decode(&[&s[..cut], &s[cut..]]);
            if got != whole {
                println!("WITNESS {{\"function\": \"SseDecoder::push/finish\", \"stream\": {:?}, \"cut_at_byte\": {}, \"events_unsplit\": {:?}, \"events_split\": {:?}, \"problem\": \"decoded events depend on how the bytes were chunked\"}}", s, cut, whole, got);
                return;
            }
            if s.len() <= 24 {
                for cut2 in cut..=s.len() {
                    if !s.is_char_boundary(cut2) { continue; }
                    let got = decode(&[&s[..cut], &s[cut..cut2], &s[cut2..]]);
                    if got != whole {
                        println!("WITNESS {{\"function\": \"SseDecoder::push/finish\", \"stream\": {:?}, \"cuts_at_bytes\": [{}, {}], \"events_unsplit\": {:?}, \"events_split\": {:?}, \"problem\": \"decoded events depend on how the bytes were chunked\"}}", s, cut, cut2, whole, got);
                        return;
                    }
                }
            }
        }
        // one provider event per SSE event: every dispatched data block shows up exactly once, in order
    }
}
