//@@ unit c17_lifecycle properties=C17
#![allow(unused_imports, dead_code, unused_variables, unused_mut, unused_assignments)]
use vstd::prelude::*;

//@@ include prelude/kernel_model.rs
//@@ include prelude/strings.rs

verus! {

// ---- the life of one task stream, as tracked ghost state handed to every frame writer --------------------------------------------
// frames: frames written so far; spawned: the spawn frame is among them; running / terminal: how many `running` / terminal status
// frames; cancel_requested: a cancel-requested frame was written; pumps: output pumps started and not yet joined (a live pump may
// still write output frames)
pub tracked struct Life {
    pub ghost frames: int, pub ghost spawned: bool, pub ghost running: int, pub ghost terminal: int,
    pub ghost cancel_requested: bool, pub ghost pumps: int,
}
pub open spec fn is_terminal(s: ToolTaskStatus) -> bool { s is Exited || s is Cancelled || s is Failed }
// what the property says about the place of a frame in the stream
pub open spec fn emit_ok(l: Life, k: EventKind) -> bool {
    match k {
        EventKind::ToolTaskSpawned { .. } => l.frames == 0,                                  // the stream opens with its spawn frame
        EventKind::ToolTaskStatus { status, .. } =>
            l.spawned && l.terminal == 0                                                       // nothing follows the terminal status
            && (status is Running ==> l.running == 0)                                          // running at most once
            && (status is Cancelled ==> l.cancel_requested)                                    // request recorded before the cancelled status
            && (is_terminal(status) ==> l.pumps == 0),                                         // every pump joined: no output frame can follow
        EventKind::ToolTaskCancelled { .. } => l.spawned && l.terminal == 0 && l.cancel_requested,
        _ => l.spawned && l.terminal == 0,
    }
}
pub open spec fn emit_step(l: Life, k: EventKind) -> Life {
    Life {
        frames: l.frames + 1,
        spawned: l.spawned || k is ToolTaskSpawned,
        running: l.running + (if k matches EventKind::ToolTaskStatus { status, .. } && status is Running { 1int } else { 0int }),
        terminal: l.terminal + (if k matches EventKind::ToolTaskStatus { status, .. } && is_terminal(status) { 1int } else { 0int }),
        cancel_requested: l.cancel_requested || k is ToolTaskCancelRequested,
        pumps: l.pumps,
    }
}
pub open spec fn fresh(l: Life) -> bool { l.frames == 0 && !l.spawned && l.running == 0 && l.terminal == 0 && !l.cancel_requested && l.pumps == 0 }
// a task that reached its executor: spawn frame written, nothing else of the life cycle yet
pub open spec fn started(l: Life) -> bool { l.spawned && l.frames > 0 && l.running == 0 && l.terminal == 0 && !l.cancel_requested && l.pumps == 0 }
pub open spec fn finished(l: Life) -> bool { l.spawned && l.terminal == 1 && l.running <= 1 && l.pumps == 0 }

// ---- stubs (R8; trusted) ------------------------------------------------------------------------
#[verifier::external_body] pub fn vfmt() -> String { unimplemented!() }      // R9
#[verifier::external_body] pub fn now_ms() -> u64 { unimplemented!() }
pub struct J { pub filler: u8 }
#[verifier::external_body] pub fn vj<T>(t: &T) -> J { unimplemented!() }       // R6o
#[verifier::external_body] pub fn jnil() -> Value { unimplemented!() }
#[verifier::external_body] pub fn jcons(j: J, rest: Value) -> Value { unimplemented!() }
pub struct IoError { pub filler: u8 }
pub struct SerdeError { pub filler: u8 }
pub struct JoinError { pub filler: u8 }
pub struct PathBuf { pub filler: u8 }
pub struct Path { pub filler: u8 }
pub struct EnvMap { pub filler: u8 }
pub struct EventLog { pub filler: u8 }
pub struct EventLogArc { pub filler: u8 }
impl EventLogArc { #[verifier::external_body] pub fn clone(&self) -> EventLogArc { unimplemented!() } }
pub struct SnapDir { pub filler: u8 }
pub struct LockGuard { pub filler: u8 }
pub struct WorkspaceLock { pub filler: u8 }
impl WorkspaceLock { #[verifier::external_body] pub fn acquire(&self) -> LockGuard { unimplemented!() } }
pub struct TaskEngineConfig { pub workspace_root: PathBuf, pub artifact_max_bytes: usize, pub max_bytes: usize }
impl TaskEngineConfig { #[verifier::external_body] pub fn artifacts_blobs_dir(&self) -> PathBuf { unimplemented!() } }
//@@ item crates/ripd/src/tasks/mod.rs enum ApiToolTaskExecutionMode
//@@ item crates/ripd/src/tasks/mod.rs enum ApiToolTaskStatus
//@@ item crates/ripd/src/tasks/mod.rs struct TaskStatusResponse dropderive=Clone
//@@ item crates/ripd/src/tasks/mod.rs struct TaskSpawnPayload dropderive=Clone
//@@ item crates/ripd/src/tasks/logs.rs struct TaskLog
impl ApiToolTaskStatus { #[verifier::external_body] pub fn from(s: ToolTaskStatus) -> ApiToolTaskStatus { unimplemented!() } }
#[verifier::external_body] pub fn mode_into(m: ApiToolTaskExecutionMode) -> ToolTaskExecutionMode { unimplemented!() }
pub struct TaskLogs { pub stdout: Option<TaskLog>, pub stderr: Option<TaskLog>, pub pty: Option<TaskLog> }
impl TaskLogs { #[verifier::external_body] pub fn refs_json(&self) -> Value { unimplemented!() } }
pub struct StatusLock { pub filler: u8 }
impl StatusLock { #[verifier::external_body] pub fn write(&self) -> TaskStatusResponse { unimplemented!() } }
pub mod watch {
    use vstd::prelude::*;
    verus! {
    pub struct Receiver<T> { pub last: T }
    impl<T> Receiver<T> {
        #[verifier::external_body] pub fn changed(&mut self) -> Result<(), ()> { unimplemented!() }
        #[verifier::external_body] pub fn borrow(&self) -> &T { unimplemented!() }
    }
    } // verus!
}
pub struct CancelTx { pub filler: u8 }
impl CancelTx { #[verifier::external_body] pub fn subscribe(&self) -> watch::Receiver<Option<String>> { unimplemented!() } }
pub struct TaskHandle { pub task_id: String, pub status: StatusLock, pub cancel_tx: CancelTx, pub logs: TaskLogs }
pub struct ShellArgs {
    pub command: String, pub cwd: Option<String>, pub env: Option<EnvMap>, pub artifact_max_bytes: Option<usize>, pub max_bytes: Option<usize>,
    pub rows: Option<u16>, pub cols: Option<u16>,
}
#[verifier::external_body] pub fn shell_args_from_value(v: Value) -> Result<ShellArgs, SerdeError> { unimplemented!() }
#[verifier::external_body] pub fn create_dir_all(p: PathBuf) -> Result<(), IoError> { unimplemented!() }
#[verifier::external_body] pub fn resolve_path(root: &PathBuf, raw: &str) -> Result<PathBuf, String> { unimplemented!() }
#[verifier::external_body] pub fn resolve_shell_program(command: &String) -> (String, Vec<String>) { unimplemented!() }
#[verifier::external_body] pub fn kill_process_group(pid: u32) { unimplemented!() }
#[verifier::external_body] pub fn finalize_snapshot(handle: &TaskHandle, dir: &SnapDir) { unimplemented!() }
pub struct Stdio { pub filler: u8 }
#[verifier::external_body] pub fn stdio_piped() -> Stdio { unimplemented!() }
pub struct ExitStatus { pub filler: u8 }
impl ExitStatus { #[verifier::external_body] pub fn code(&self) -> Option<i32> { unimplemented!() } }
pub struct ChildOut { pub filler: u8 }
pub struct Child { pub stdout: Option<ChildOut>, pub stderr: Option<ChildOut> }
impl Child {
    #[verifier::external_body] pub fn wait(&mut self) -> Result<ExitStatus, IoError> { unimplemented!() }
    #[verifier::external_body] pub fn id(&self) -> Option<u32> { unimplemented!() }
    #[verifier::external_body] pub fn start_kill(&mut self) -> Result<(), IoError> { unimplemented!() }
}
pub struct Command { pub filler: u8 }
impl Command {
    #[verifier::external_body] pub fn new(program: String) -> Command { unimplemented!() }
    #[verifier::external_body] pub fn args(&mut self, a: Vec<String>) { unimplemented!() }
    #[verifier::external_body] pub fn stdout(&mut self, s: Stdio) { unimplemented!() }
    #[verifier::external_body] pub fn stderr(&mut self, s: Stdio) { unimplemented!() }
    #[verifier::external_body] pub fn process_group(&mut self, g: i32) { unimplemented!() }
    #[verifier::external_body] pub fn current_dir(&mut self, p: PathBuf) { unimplemented!() }
    #[verifier::external_body] pub fn envs(&mut self, e: &EnvMap) { unimplemented!() }
    #[verifier::external_body] pub fn spawn(&mut self) -> Result<Child, IoError> { unimplemented!() }
}
pub struct TaskLogSummary { pub filler: u8 }
impl TaskLogSummary {
    #[verifier::external_body] pub fn failed(artifact_id: String, path: String, error: String) -> TaskLogSummary { unimplemented!() }
    #[verifier::external_body] pub fn as_json(&self) -> Value { unimplemented!() }
}
pub struct TaskLogWriter { pub filler: u8 }
impl TaskLogWriter {
    #[verifier::external_body] pub fn new(config: &TaskEngineConfig, artifact_id: &String, rel_path: &String, max_bytes: usize) -> Result<TaskLogWriter, String> { unimplemented!() }
}
pub assume_specification<T: std::ops::Deref>[ std::option::Option::<T>::as_deref ](o: &Option<T>) -> (r: Option<&T::Target>)
    ensures r is Some <==> o is Some;
pub assume_specification<T>[ std::option::Option::<T>::or ](o: Option<T>, b: Option<T>) -> (r: Option<T>)
    ensures r == (if o is Some { o } else { b });

pub assume_specification<T, E, F: std::ops::FnOnce(E,) -> T + std::marker::Destruct>[ std::result::Result::<T, E>::unwrap_or_else ](r: Result<T, E>, f: F) -> (o: T)
    requires r matches Err(e) ==> f.requires((e,));

// the frame writer of a task stream. TaskEmitter::emit itself (numbering, one frame per call) is proved in unit c01_task; here every
// call site must show that the frame is in its place, and the ghost life advances by exactly that frame.
#[derive(Clone)]
pub struct TaskEmitter { pub filler: u8 }
impl TaskEmitter { #[verifier::external_body] pub fn new(handle: &TaskHandle, log: EventLogArc) -> TaskEmitter { unimplemented!() } }
#[verifier::external_body]
pub fn emit_t(e: &TaskEmitter, Tracked(life): Tracked<&mut Life>, kind: EventKind)
    requires emit_ok(*old(life), kind),                 // [emit.requires_frame_in_its_place_in_the_task_stream]
    ensures *final(life) == emit_step(*old(life), kind),
{ unimplemented!() }
// an output pump running as its own task: it writes output frames until it is joined (pump_output_stream is proved in unit c17_pump)
pub struct PumpHandle { pub filler: u8 }
#[verifier::external_body]
pub fn spawn_pump(Tracked(life): Tracked<&mut Life>, stream: Option<ChildOut>, kind: ToolTaskStream, task_id: String, e: TaskEmitter, w: TaskLogWriter, max_bytes: usize) -> (h: PumpHandle)
    requires old(life).spawned && old(life).terminal == 0,   // [spawn_pump.requires_open_stream]
    ensures *final(life) == (Life { pumps: old(life).pumps + 1, frames: final(life).frames, ..*old(life) }), final(life).frames >= old(life).frames,
{ unimplemented!() }
#[verifier::external_body]
pub fn join_pump(Tracked(life): Tracked<&mut Life>, h: PumpHandle) -> (r: Result<TaskLogSummary, JoinError>)
    requires old(life).pumps > 0,
    ensures *final(life) == (Life { pumps: old(life).pumps - 1, frames: final(life).frames, ..*old(life) }), final(life).frames >= old(life).frames,
{ unimplemented!() }
#[verifier::external_body] pub fn select_child_exits_first() -> bool { unimplemented!() }
//@@ item crates/ripd/src/tasks/mod.rs struct TaskRunContext
// NOT verified (tasks/pty.rs, 600 lines around a pseudo terminal): assumed to keep the same contract as the pipes executor
#[verifier::external_body]
pub fn run_pty_task(Tracked(life): Tracked<&mut Life>, handle: &TaskHandle, ctx: TaskRunContext)
    requires started(*old(life)),
    ensures finished(*final(life)),
{ unimplemented!() }

//@@ fn crates/ripd/src/tasks/mod.rs fail_task rules=R3,R6o,R9
//@@ rewrite &TaskHandle ==>> &TaskHandle, Tracked(life): Tracked<&mut Life>
//@@ rewrite {id} .emit( ==>> emit_t(&{id}, Tracked(&mut *life),
//@@ sig
    requires old(life).spawned && old(life).terminal == 0 && old(life).pumps == 0,      // [fail_task.requires_open_stream]
    ensures final(life).spawned && final(life).terminal == 1 && final(life).pumps == 0 && final(life).running == old(life).running,   // [fail_task.writes_exactly_one_terminal_status]
//@@ end

//@@ fn crates/ripd/src/tasks/pipes.rs run_pipes_task rules=R3,R6o,R9
//@@ alias super::resolve_shell_program resolve_shell_program
//@@ alias std::process::Stdio::piped stdio_piped
//@@ rewrite &TaskHandle ==>> &TaskHandle, Tracked(life): Tracked<&mut Life>
//@@ rewrite fail_task(handle, ==>> fail_task(handle, Tracked(&mut *life),
//@@ rewrite {id} .emit( ==>> emit_t(&{id}, Tracked(&mut *life),
//@@ rewrite Ok(path) => cmd.current_dir(path), ==>> Ok(path) => { cmd.current_dir(path); }
//@@ rewrite tokio::spawn(async move { pump_output_stream( stdout_stream, ToolTaskStream::Stdout, &stdout_task_id, &stdout_emitter, &mut stdout_writer, max_bytes, ) .await; stdout_writer.finish() }) ==>> spawn_pump(Tracked(&mut *life), stdout_stream, ToolTaskStream::Stdout, stdout_task_id, stdout_emitter, stdout_writer, max_bytes)
//@@ rewrite tokio::spawn(async move { pump_output_stream( stderr_stream, ToolTaskStream::Stderr, &stderr_task_id, &stderr_emitter, &mut stderr_writer, max_bytes, ) .await; stderr_writer.finish() }) ==>> spawn_pump(Tracked(&mut *life), stderr_stream, ToolTaskStream::Stderr, stderr_task_id, stderr_emitter, stderr_writer, max_bytes)
//@@ rewrite tokio::select! { status = child.wait() => status, _ = cancel_rx.changed() => { ==>> { if select_child_exits_first() { child.wait() } else { let _ = cancel_rx.changed();
//@@ rewrite stdout_handle.await.unwrap_or_else(|_| { ==>> join_pump(Tracked(&mut *life), stdout_handle).unwrap_or_else(|_e: JoinError| -> TaskLogSummary {
//@@ rewrite stderr_handle.await.unwrap_or_else(|_| { ==>> join_pump(Tracked(&mut *life), stderr_handle).unwrap_or_else(|_e: JoinError| -> TaskLogSummary {
//@@ sig
    requires started(*old(life)),
    ensures finished(*final(life)),          // [run_pipes_task.exactly_one_terminal_status_after_both_pumps_were_joined_running_at_most_once]
//@@ end

//@@ fn crates/ripd/src/tasks/mod.rs run_task rules=R3,R6o,R9
//@@ alias serde_json::from_value shell_args_from_value
//@@ alias serde_json::Error SerdeError
//@@ alias tokio::fs::create_dir_all create_dir_all
//@@ rewrite Arc<WorkspaceLock> ==>> WorkspaceLock, Tracked(life): Tracked<&mut Life>
//@@ rewrite Arc<EventLog> ==>> EventLogArc
//@@ rewrite Arc<PathBuf> ==>> SnapDir
//@@ rewrite let execution_mode: ToolTaskExecutionMode = payload .execution_mode .unwrap_or(ApiToolTaskExecutionMode::Pipes) .into(); ==>> let execution_mode: ToolTaskExecutionMode = mode_into(payload.execution_mode.unwrap_or(ApiToolTaskExecutionMode::Pipes));
//@@ rewrite fail_task( &handle, ==>> fail_task(&handle, Tracked(&mut *life),
//@@ rewrite {id} .emit( ==>> emit_t(&{id}, Tracked(&mut *life),
//@@ rewrite pipes::run_pipes_task( &handle, ==>> run_pipes_task(&handle, Tracked(&mut *life),
//@@ rewrite pty::run_pty_task( &handle, ==>> run_pty_task(Tracked(&mut *life), &handle,
//@@ sig
    requires fresh(*old(life)),
    ensures final(life).spawned && final(life).terminal == 1 && final(life).running <= 1 && final(life).pumps == 0,   // [run_task.stream_opens_with_the_spawn_frame_and_ends_with_exactly_one_terminal_status]
//@@ end

} // verus!
fn main() {}
