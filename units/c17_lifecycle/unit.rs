//@@ unit c17_lifecycle properties=C17
#![allow(unused_imports, dead_code, unused_variables, unused_mut, unused_assignments)]
use vstd::prelude::*;

//@@ include prelude/kernel_model.rs
//@@ include prelude/strings.rs

verus! {

// ---- the life of one task stream, as tracked ghost state handed to every frame writer --------------------------------------------
// frames: frames written so far; spawned: the spawn frame is among them; running / terminal: how many `running` / terminal status
// frames; cancel_requested: a cancel-requested frame was written; pumps: output pumps started and not yet joined (a live pump may
// still write output frames)
pub tracked struct Life {
    pub ghost frames: int, pub ghost spawned: bool, pub ghost running: int, pub ghost terminal: int,
    pub ghost cancel_requested: bool, pub ghost pumps: int,
}
pub open spec fn is_terminal(s: ToolTaskStatus) -> bool { s is Exited || s is Cancelled || s is Failed }
// what the property says about the place of a frame in the stream
pub open spec fn emit_ok(l: Life, k: EventKind) -> bool {
    match k {
        EventKind::ToolTaskSpawned { .. } => l.frames == 0,                                  // the stream opens with its spawn frame
        EventKind::ToolTaskStatus { status, .. } =>
            l.spawned && l.terminal == 0                                                       // nothing follows the terminal status
            && (status is Running ==> l.running == 0)                                          // running at most once
            && (status is Cancelled ==> l.cancel_requested)                                    // request recorded before the cancelled status
            && (is_terminal(status) ==> l.pumps == 0),                                         // every pump joined: no output frame can follow
        EventKind::ToolTaskCancelled { .. } => l.spawned && l.terminal == 0 && l.cancel_requested,
        _ => l.spawned && l.terminal == 0,
    }
}
pub open spec fn emit_step(l: Life, k: EventKind) -> Life {
    Life {
        frames: l.frames + 1,
        spawned: l.spawned || k is ToolTaskSpawned,
        running: l.running + (if k matches EventKind::ToolTaskStatus { status, .. } && status is Running { 1int } else { 0int }),
        terminal: l.terminal + (if k matches EventKind::ToolTaskStatus { status, .. } && is_terminal(status) { 1int } else { 0int }),
        cancel_requested: l.cancel_requested || k is ToolTaskCancelRequested,
        pumps: l.pumps,
    }
}
pub open spec fn fresh(l: Life) -> bool { l.frames == 0 && !l.spawned && l.running == 0 && l.terminal == 0 && !l.cancel_requested && l.pumps == 0 }
// a task that reached its executor: spawn frame written, nothing else of the life cycle yet
pub open spec fn started(l: Life) -> bool { l.spawned && l.frames > 0 && l.running == 0 && l.terminal == 0 && !l.cancel_requested && l.pumps == 0 }
pub open spec fn finished(l: Life) -> bool { l.spawned && l.terminal == 1 && l.running <= 1 && l.pumps == 0 }

// ---- stubs (R8; trusted) ------------------------------------------------------------------------
#[verifier::external_body] pub fn vfmt() -> String { unimplemented!() }      // R9
#[verifier::external_body] pub fn now_ms() -> u64 { unimplemented!() }
pub struct J { pub filler: u8 }
#[verifier::external_body] pub fn vj<T>(t: &T) -> J { unimplemented!() }       // R6o
#[verifier::external_body] pub fn jnil() -> Value { unimplemented!() }
#[verifier::external_body] pub fn jcons(j: J, rest: Value) -> Value { unimplemented!() }
pub struct IoError { pub filler: u8 }
pub struct SerdeError { pub filler: u8 }
pub struct JoinError { pub filler: u8 }
pub struct PathBuf { pub filler: u8 }
pub struct Path { pub filler: u8 }
pub struct EnvMap { pub filler: u8 }
pub struct EventLog { pub filler: u8 }
pub struct EventLogArc { pub filler: u8 }
impl EventLogArc { #[verifier::external_body] pub fn clone(&self) -> EventLogArc { unimplemented!() } }
pub struct SnapDir { pub filler: u8 }
pub struct LockGuard { pub filler: u8 }
pub struct WorkspaceLock { pub filler: u8 }
impl WorkspaceLock { #[verifier::external_body] pub fn acquire(&self) -> LockGuard { unimplemented!() } }
pub struct TaskEngineConfig { pub workspace_root: PathBuf, pub artifact_max_bytes: usize, pub max_bytes: usize }
impl TaskEngineConfig { #[verifier::external_body] pub fn artifacts_blobs_dir(&self) -> PathBuf { unimplemented!() } }
//@@ item crates/ripd/src/tasks/mod.rs enum ApiToolTaskExecutionMode
//@@ item crates/ripd/src/tasks/mod.rs enum ApiToolTaskStatus
//@@ item crates/ripd/src/tasks/mod.rs struct TaskStatusResponse dropderive=Clone
//@@ item crates/ripd/src/tasks/mod.rs struct TaskSpawnPayload dropderive=Clone
//@@ item crates/ripd/src/tasks/logs.rs struct TaskLog
impl ApiToolTaskStatus { #[verifier::external_body] pub fn from(s: ToolTaskStatus) -> ApiToolTaskStatus { unimplemented!() } }
#[verifier::external_body] pub fn mode_into(m: ApiToolTaskExecutionMode) -> ToolTaskExecutionMode { unimplemented!() }
pub struct TaskLogs { pub stdout: Option<TaskLog>, pub stderr: Option<TaskLog>, pub pty: Option<TaskLog> }
impl TaskLogs { #[verifier::external_body] pub fn refs_json(&self) -> Value { unimplemented!() } }
pub struct StatusLock { pub filler: u8 }
impl StatusLock { #[verifier::external_body] pub fn write(&self) -> TaskStatusResponse { unimplemented!() } }
pub mod watch {
    use vstd::prelude::*;
    verus! {
    pub struct Receiver<T> { pub last: T }
    impl<T> Receiver<T> {
        #[verifier::external_body] pub fn changed(&mut self) -> Result<(), ()> { unimplemented!() }
        #[verifier::external_body] pub fn borrow(&self) -> &T { unimplemented!() }
    }
    } // verus!
}
pub struct CancelTx { pub filler: u8 }
impl CancelTx { #[verifier::external_body] pub fn subscribe(&self) -> watch::Receiver<Option<String>> { unimplemented!() } }
pub struct TaskHandle { pub task_id: String, pub status: StatusLock, pub cancel_tx: CancelTx, pub logs: TaskLogs, pub control_tx: ControlSlot }
pub struct ShellArgs {
    pub command: String, pub cwd: Option<String>, pub env: Option<EnvMap>, pub artifact_max_bytes: Option<usize>, pub max_bytes: Option<usize>,
    pub rows: Option<u16>, pub cols: Option<u16>,
}
#[verifier::external_body] pub fn shell_args_from_value(v: Value) -> Result<ShellArgs, SerdeError> { unimplemented!() }
#[verifier::external_body] pub fn create_dir_all(p: PathBuf) -> Result<(), IoError> { unimplemented!() }
#[verifier::external_body] pub fn resolve_path(root: &PathBuf, raw: &str) -> Result<PathBuf, String> { unimplemented!() }
#[verifier::external_body] pub fn resolve_shell_program(command: &String) -> (String, Vec<String>) { unimplemented!() }
#[verifier::external_body] pub fn kill_process_group(pid: u32) { unimplemented!() }
#[verifier::external_body] pub fn finalize_snapshot(handle: &TaskHandle, dir: &SnapDir) { unimplemented!() }
pub struct Stdio { pub filler: u8 }
#[verifier::external_body] pub fn stdio_piped() -> Stdio { unimplemented!() }
pub struct ExitStatus { pub filler: u8 }
impl ExitStatus { #[verifier::external_body] pub fn code(&self) -> Option<i32> { unimplemented!() } }
pub struct ChildOut { pub filler: u8 }
pub struct Child { pub stdout: Option<ChildOut>, pub stderr: Option<ChildOut> }
impl Child {
    #[verifier::external_body] pub fn wait(&mut self) -> Result<ExitStatus, IoError> { unimplemented!() }
    #[verifier::external_body] pub fn id(&self) -> Option<u32> { unimplemented!() }
    #[verifier::external_body] pub fn start_kill(&mut self) -> Result<(), IoError> { unimplemented!() }
}
pub struct Command { pub filler: u8 }
impl Command {
    #[verifier::external_body] pub fn new(program: String) -> Command { unimplemented!() }
    #[verifier::external_body] pub fn args(&mut self, a: Vec<String>) { unimplemented!() }
    #[verifier::external_body] pub fn stdout(&mut self, s: Stdio) { unimplemented!() }
    #[verifier::external_body] pub fn stderr(&mut self, s: Stdio) { unimplemented!() }
    #[verifier::external_body] pub fn process_group(&mut self, g: i32) { unimplemented!() }
    #[verifier::external_body] pub fn current_dir(&mut self, p: PathBuf) { unimplemented!() }
    #[verifier::external_body] pub fn envs(&mut self, e: &EnvMap) { unimplemented!() }
    #[verifier::external_body] pub fn spawn(&mut self) -> Result<Child, IoError> { unimplemented!() }
}
pub struct TaskLogSummary { pub filler: u8 }
impl TaskLogSummary {
    #[verifier::external_body] pub fn failed(artifact_id: String, path: String, error: String) -> TaskLogSummary { unimplemented!() }
    #[verifier::external_body] pub fn as_json(&self) -> Value { unimplemented!() }
}
pub struct TaskLogWriter { pub filler: u8 }
impl TaskLogWriter {
    #[verifier::external_body] pub fn new(config: &TaskEngineConfig, artifact_id: &String, rel_path: &String, max_bytes: usize) -> Result<TaskLogWriter, String> { unimplemented!() }
    #[verifier::external_body] pub fn append(&mut self, chunk: &[u8]) -> Result<LogValue, ()> { unimplemented!() }
    #[verifier::external_body] pub fn finish(self) -> TaskLogSummary { unimplemented!() }
}
pub assume_specification<T: std::ops::Deref>[ std::option::Option::<T>::as_deref ](o: &Option<T>) -> (r: Option<&T::Target>)
    ensures r is Some <==> o is Some;
pub assume_specification<T>[ std::option::Option::<T>::or ](o: Option<T>, b: Option<T>) -> (r: Option<T>)
    ensures r == (if o is Some { o } else { b });

pub assume_specification<T, E, F: std::ops::FnOnce(E,) -> T + std::marker::Destruct>[ std::result::Result::<T, E>::unwrap_or_else ](r: Result<T, E>, f: F) -> (o: T)
    requires r matches Err(e) ==> f.requires((e,));

// the frame writer of a task stream. TaskEmitter::emit itself (numbering, one frame per call) is proved in unit c01_task; here every
// call site must show that the frame is in its place, and the ghost life advances by exactly that frame.
#[derive(Clone)]
pub struct TaskEmitter { pub filler: u8 }
impl TaskEmitter { #[verifier::external_body] pub fn new(handle: &TaskHandle, log: EventLogArc) -> TaskEmitter { unimplemented!() } }
#[verifier::external_body]
pub fn emit_t(e: &TaskEmitter, Tracked(life): Tracked<&mut Life>, kind: EventKind)
    requires emit_ok(*old(life), kind),                 // [emit.requires_frame_in_its_place_in_the_task_stream]
    ensures *final(life) == emit_step(*old(life), kind),
{ unimplemented!() }
// an output pump running as its own task: it writes output frames until it is joined (pump_output_stream is proved in unit c17_pump)
pub struct PumpHandle { pub filler: u8 }
#[verifier::external_body]
pub fn spawn_pump(Tracked(life): Tracked<&mut Life>, stream: Option<ChildOut>, kind: ToolTaskStream, task_id: String, e: TaskEmitter, w: TaskLogWriter, max_bytes: usize) -> (h: PumpHandle)
    requires old(life).spawned && old(life).terminal == 0,   // [spawn_pump.requires_open_stream]
    ensures *final(life) == (Life { pumps: old(life).pumps + 1, frames: final(life).frames, ..*old(life) }), final(life).frames >= old(life).frames,
{ unimplemented!() }
#[verifier::external_body]
pub fn join_pump(Tracked(life): Tracked<&mut Life>, h: PumpHandle) -> (r: Result<TaskLogSummary, JoinError>)
    requires old(life).pumps > 0,
    ensures *final(life) == (Life { pumps: old(life).pumps - 1, frames: final(life).frames, ..*old(life) }), final(life).frames >= old(life).frames,
{ unimplemented!() }
#[verifier::external_body] pub fn select_child_exits_first() -> bool { unimplemented!() }
//@@ item crates/ripd/src/tasks/mod.rs struct TaskRunContext
// ---- the pseudo-terminal world (portable_pty, blocking helper threads, channels): stand-ins without contracts unless stated ----------
pub struct PtyError { pub filler: u8 }
pub struct PtySize { pub rows: u16, pub cols: u16, pub pixel_width: u16, pub pixel_height: u16 }
pub struct PtyReader { pub filler: u8 }
pub struct PtyWriter { pub filler: u8 }
pub struct Killer { pub filler: u8 }
pub struct Shared<T> { pub inner: T }
impl<T> Shared<T> { #[verifier::external_body] pub fn clone(&self) -> Shared<T> { unimplemented!() } }
#[verifier::external_body] pub fn shared<T>(t: T) -> Shared<T> { unimplemented!() }
pub struct PtyExitStatus { pub filler: u8 }
impl PtyExitStatus { #[verifier::external_body] pub fn exit_code(&self) -> u32 { unimplemented!() } }
pub struct PtyChild { pub filler: u8 }
impl PtyChild { #[verifier::external_body] pub fn clone_killer(&self) -> Killer { unimplemented!() } }
pub struct MasterPty { pub filler: u8 }
impl MasterPty {
    #[verifier::external_body] pub fn try_clone_reader(&self) -> Result<PtyReader, PtyError> { unimplemented!() }
    #[verifier::external_body] pub fn take_writer(&self) -> Result<PtyWriter, PtyError> { unimplemented!() }
}
pub struct CommandBuilder { pub filler: u8 }
impl CommandBuilder {
    #[verifier::external_body] pub fn new(program: String) -> CommandBuilder { unimplemented!() }
    #[verifier::external_body] pub fn args(&mut self, a: Vec<String>) { unimplemented!() }
    #[verifier::external_body] pub fn cwd(&mut self, p: PathBuf) { unimplemented!() }
    #[verifier::external_body] pub fn envs(&mut self, e: &EnvMap) { unimplemented!() }
}
pub struct SlavePty { pub filler: u8 }
impl SlavePty { #[verifier::external_body] pub fn spawn_command(&self, cmd: CommandBuilder) -> Result<PtyChild, PtyError> { unimplemented!() } }
pub struct PtyPair { pub master: MasterPty, pub slave: SlavePty }
pub struct PtySystem { pub filler: u8 }
impl PtySystem { #[verifier::external_body] pub fn openpty(&self, size: PtySize) -> Result<PtyPair, PtyError> { unimplemented!() } }
#[verifier::external_body] pub fn native_pty_system() -> PtySystem { unimplemented!() }
//@@ item crates/ripd/src/tasks/mod.rs enum TaskControl
pub struct ControlTx { pub filler: u8 }
pub struct ControlRx { pub filler: u8 }
impl ControlRx { #[verifier::external_body] pub fn recv(&mut self) -> Option<TaskControl> { unimplemented!() } }
#[verifier::external_body] pub fn control_channel() -> (ControlTx, ControlRx) { unimplemented!() }
pub struct OutputTx { pub filler: u8 }
pub struct OutputRx { pub filler: u8 }
pub enum TryRecvError { Empty, Disconnected }
impl OutputRx {
    #[verifier::external_body] pub fn recv(&mut self) -> Option<Vec<u8>> { unimplemented!() }
    #[verifier::external_body] pub fn try_recv(&mut self) -> Result<Vec<u8>, TryRecvError> { unimplemented!() }
}
#[verifier::external_body] pub fn output_channel() -> (OutputTx, OutputRx) { unimplemented!() }
pub struct ControlSlotGuard { pub filler: u8 }
impl ControlSlotGuard {
    #[verifier::external_body] pub fn set(&mut self, tx: ControlTx) { unimplemented!() }
    #[verifier::external_body] pub fn take(&mut self) -> Option<ControlTx> { unimplemented!() }
}
pub struct ControlSlot { pub filler: u8 }
impl ControlSlot { #[verifier::external_body] pub fn lock(&self) -> ControlSlotGuard { unimplemented!() } }
pub struct ReaderThread { pub filler: u8 }
pub struct WaitThread { pub filler: u8 }
// the blocking reader thread copies pty output into the channel; it writes no frame (its closure body is replaced as a whole)
#[verifier::external_body] pub fn spawn_pty_reader(r: PtyReader, tx: OutputTx) -> ReaderThread { unimplemented!() }
#[verifier::external_body] pub fn spawn_wait(c: PtyChild) -> WaitThread { unimplemented!() }
#[verifier::external_body] pub fn join_wait(w: &mut WaitThread) -> Result<Result<PtyExitStatus, IoError>, JoinError> { unimplemented!() }
#[verifier::external_body] pub fn join_reader(r: ReaderThread) -> Result<(), JoinError> { unimplemented!() }
#[verifier::external_body] pub fn kill_blocking(k: Shared<Killer>) { unimplemented!() }
#[verifier::external_body] pub fn select_arm() -> u8 { unimplemented!() }
// control operations (stdin, resize, signal): the blocking writes to the pty and the kill are stand-ins (their closures are replaced
// as a whole; they write no frame); which control frame is written, and that it is written into an open stream, is under contract
//@@ item crates/ripd/src/tasks/pty.rs enum SignalAction
#[verifier::external_body] pub fn normalize_signal(signal: &String) -> Option<SignalAction> { unimplemented!() }
#[verifier::external_body] pub fn write_blocking(stdin: Shared<PtyWriter>, bytes: Vec<u8>) -> Result<Result<(), IoError>, JoinError> { unimplemented!() }
#[verifier::external_body] pub fn write_byte_blocking(stdin: Shared<PtyWriter>, b: u8) -> Result<Result<(), IoError>, JoinError> { unimplemented!() }
#[verifier::external_body] pub fn kill_blocking_result(k: Shared<Killer>) -> Result<bool, JoinError> { unimplemented!() }
impl MasterPty { #[verifier::external_body] pub fn resize(&mut self, s: PtySize) -> Result<(), PtyError> { unimplemented!() } }

//@@ fn crates/ripd/src/tasks/pty.rs handle_control rules=R3
//@@ rewrite &TaskEmitter ==>> &TaskEmitter, Tracked(life): Tracked<&mut Life>
//@@ rewrite &Arc<StdMutex<Box<dyn Write + Send>>> ==>> &Shared<PtyWriter>
//@@ rewrite &Arc<StdMutex<Box<dyn portable_pty::ChildKiller + Send + Sync>>> ==>> &Shared<Killer>
//@@ rewrite &mut Box<dyn portable_pty::MasterPty + Send> ==>> &mut MasterPty
//@@ rewrite {id} .emit( ==>> emit_t(&{id}, Tracked(&mut *life),
//@@ rewrite tokio::task::spawn_blocking(move || { let mut guard = stdin.lock().expect("stdin writer lock"); guard.write_all(&bytes).and_then(|_| guard.flush()) }) .await ==>> write_blocking(stdin, bytes)
//@@ rewrite tokio::task::spawn_blocking(move || { let mut guard = stdin.lock().expect("stdin writer lock"); guard.write_all(&[0x03]).and_then(|_| guard.flush()) }) .await ==>> write_byte_blocking(stdin, 0x03)
//@@ rewrite tokio::task::spawn_blocking(move || { let mut guard = stdin.lock().expect("stdin writer lock"); guard.write_all(&[0x1c]).and_then(|_| guard.flush()) }) .await ==>> write_byte_blocking(stdin, 0x1c)
//@@ rewrite tokio::task::spawn_blocking(move || { let mut guard = killer.lock().expect("killer lock"); guard.kill().is_ok() }) .await ==>> kill_blocking_result(killer)
//@@ sig
    requires old(life).spawned && old(life).terminal == 0,
    ensures *final(life) == (Life { frames: final(life).frames, ..*old(life) }), final(life).frames >= old(life).frames,      // [handle_control.writes_only_control_frames_into_an_open_stream]
//@@ end
pub mod logs {
    use vstd::prelude::*;
    verus! { #[verifier::external_body] pub fn truncate_utf8(bytes: &[u8], max_bytes: usize) -> (String, bool, usize) { unimplemented!() } }
}
pub const OUTPUT_EVENT_MAX_BYTES: usize = 8 * 1024;
pub struct LogValue { pub filler: u8 }

//@@ fn crates/ripd/src/tasks/pty.rs emit_output rules=R3,R6o,R9
//@@ alias super::logs::truncate_utf8 logs::truncate_utf8
//@@ alias super::OUTPUT_EVENT_MAX_BYTES OUTPUT_EVENT_MAX_BYTES
//@@ rewrite &TaskEmitter ==>> &TaskEmitter, Tracked(life): Tracked<&mut Life>
//@@ rewrite {id} .emit( ==>> emit_t(&{id}, Tracked(&mut *life),
//@@ sig
    requires old(life).spawned && old(life).terminal == 0,
    ensures *final(life) == (Life { frames: final(life).frames, ..*old(life) }), final(life).frames >= old(life).frames,      // [emit_output.writes_at_most_one_output_frame_into_an_open_stream]
//@@ end

//@@ fn crates/ripd/src/tasks/pty.rs drain_output rules=R3 attr=verifier::exec_allows_no_decreases_clause
//@@ alias tokio::sync::mpsc::error::TryRecvError TryRecvError
//@@ rewrite &TaskEmitter ==>> &TaskEmitter, Tracked(life): Tracked<&mut Life>
//@@ rewrite &mut tokio::sync::mpsc::Receiver<Vec<u8>> ==>> &mut OutputRx
//@@ rewrite emit_output(task_id, emitter, ==>> emit_output(task_id, emitter, Tracked(&mut *life),
//@@ sig
    requires old(life).spawned && old(life).terminal == 0,
    ensures *final(life) == (Life { frames: final(life).frames, ..*old(life) }), final(life).frames >= old(life).frames,
//@@ loop 0
    invariant life.spawned && life.terminal == 0, *life == (Life { frames: life.frames, ..*old(life) }), life.frames >= old(life).frames,
//@@ end

//@@ fn crates/ripd/src/tasks/pty.rs run_pty_task rules=R3,R6o,R9 attr=verifier::exec_allows_no_decreases_clause
//@@ alias super::resolve_shell_program resolve_shell_program
//@@ alias portable_pty::ExitStatus PtyExitStatus
//@@ alias std::io::Error IoError
//@@ alias tokio::task::JoinError JoinError
//@@ rewrite &TaskHandle ==>> &TaskHandle, Tracked(life): Tracked<&mut Life>
//@@ rewrite fail_task(handle, ==>> fail_task(handle, Tracked(&mut *life),
//@@ rewrite {id} .emit( ==>> emit_t(&{id}, Tracked(&mut *life),
//@@ rewrite Ok(path) => cmd.cwd(path), ==>> Ok(path) => { cmd.cwd(path); }
//@@ rewrite for (key, value) in envs { cmd.env(key, value); } ==>> cmd.envs(envs);
//@@ rewrite Arc::new(StdMutex::new(child.clone_killer())) ==>> shared(child.clone_killer())
//@@ rewrite Ok(writer) => Arc::new(StdMutex::new(writer)), ==>> Ok(writer) => shared(writer),
//@@ rewrite tokio::sync::mpsc::channel::<TaskControl>(1024) ==>> control_channel()
//@@ rewrite tokio::sync::mpsc::channel::<Vec<u8>>(64) ==>> output_channel()
//@@ rewrite *guard = Some(control_tx); ==>> guard.set(control_tx);
//@@ rewrite tokio::task::spawn_blocking(move || { let mut reader = reader; let mut buf = [0u8; 8192]; loop { let n = match reader.read(&mut buf) { Ok(0) => break, Ok(n) => n, Err(err) if err.kind() == std::io::ErrorKind::Interrupted => continue, Err(_) => break, }; if output_tx.blocking_send(buf[..n].to_vec()).is_err() { break; } } }) ==>> spawn_pty_reader(reader, output_tx)
//@@ rewrite tokio::task::spawn_blocking(move || child.wait()) ==>> spawn_wait(child)
//@@ rewrite tokio::select! { status = &mut wait_handle, if exit_status.is_none() => { ==>> { let __arm = select_arm(); if __arm == 0 && exit_status.is_none() { let status = join_wait(&mut wait_handle);
//@@ rewrite } _ = cancel_rx.changed(), if cancel_reason.is_none() => { ==>> } else if __arm == 1 && cancel_reason.is_none() { let _ = cancel_rx.changed();
//@@ rewrite } maybe_control = control_rx.recv() => { ==>> } else if __arm == 2 { let maybe_control = control_rx.recv();
//@@ rewrite } maybe_chunk = output_rx.recv(), if !output_closed => { ==>> } else if __arm == 3 && !output_closed { let maybe_chunk = output_rx.recv();
//@@ rewrite let _ = tokio::task::spawn_blocking(move || { let mut guard = killer.lock().expect("killer lock"); let _ = guard.kill(); }).await; ==>> kill_blocking(killer);
//@@ rewrite output_thread.await ==>> join_reader(output_thread)
//@@ rewrite drain_output(&task_id, &emitter, ==>> drain_output(&task_id, &emitter, Tracked(&mut *life),
//@@ rewrite handle_control(&task_id, &emitter, ==>> handle_control(&task_id, &emitter, Tracked(&mut *life),
//@@ rewrite emit_output(&task_id, &emitter, ==>> emit_output(&task_id, &emitter, Tracked(&mut *life),
//@@ sig
    requires started(*old(life)),
    ensures finished(*final(life)),          // [run_pty_task.exactly_one_terminal_status_running_at_most_once_cancel_request_before_cancelled]
//@@ loop 2
    invariant life.spawned && life.terminal == 0 && life.running == 1 && life.pumps == 0,
        cancel_reason is Some ==> life.cancel_requested,
//@@ end

//@@ fn crates/ripd/src/tasks/mod.rs fail_task rules=R3,R6o,R9
//@@ rewrite &TaskHandle ==>> &TaskHandle, Tracked(life): Tracked<&mut Life>
//@@ rewrite {id} .emit( ==>> emit_t(&{id}, Tracked(&mut *life),
//@@ sig
    requires old(life).spawned && old(life).terminal == 0 && old(life).pumps == 0,      // [fail_task.requires_open_stream]
    ensures final(life).spawned && final(life).terminal == 1 && final(life).pumps == 0 && final(life).running == old(life).running,   // [fail_task.writes_exactly_one_terminal_status]
//@@ end

//@@ fn crates/ripd/src/tasks/pipes.rs run_pipes_task rules=R3,R6o,R9
//@@ alias super::resolve_shell_program resolve_shell_program
//@@ alias std::process::Stdio::piped stdio_piped
//@@ rewrite &TaskHandle ==>> &TaskHandle, Tracked(life): Tracked<&mut Life>
//@@ rewrite fail_task(handle, ==>> fail_task(handle, Tracked(&mut *life),
//@@ rewrite {id} .emit( ==>> emit_t(&{id}, Tracked(&mut *life),
//@@ rewrite Ok(path) => cmd.current_dir(path), ==>> Ok(path) => { cmd.current_dir(path); }
//@@ rewrite tokio::spawn(async move { pump_output_stream( stdout_stream, ToolTaskStream::Stdout, &stdout_task_id, &stdout_emitter, &mut stdout_writer, max_bytes, ) .await; stdout_writer.finish() }) ==>> spawn_pump(Tracked(&mut *life), stdout_stream, ToolTaskStream::Stdout, stdout_task_id, stdout_emitter, stdout_writer, max_bytes)
//@@ rewrite tokio::spawn(async move { pump_output_stream( stderr_stream, ToolTaskStream::Stderr, &stderr_task_id, &stderr_emitter, &mut stderr_writer, max_bytes, ) .await; stderr_writer.finish() }) ==>> spawn_pump(Tracked(&mut *life), stderr_stream, ToolTaskStream::Stderr, stderr_task_id, stderr_emitter, stderr_writer, max_bytes)
//@@ rewrite tokio::select! { status = child.wait() => status, _ = cancel_rx.changed() => { ==>> { if select_child_exits_first() { child.wait() } else { let _ = cancel_rx.changed();
//@@ rewrite stdout_handle.await ==>> join_pump(Tracked(&mut *life), stdout_handle)
//@@ rewrite stderr_handle.await ==>> join_pump(Tracked(&mut *life), stderr_handle)
//@@ rewrite? unwrap_or_else(|_| { ==>> unwrap_or_else(|_e: JoinError| -> TaskLogSummary {
//@@ sig
    requires started(*old(life)),
    ensures finished(*final(life)),          // [run_pipes_task.exactly_one_terminal_status_after_both_pumps_were_joined_running_at_most_once]
//@@ end

//@@ fn crates/ripd/src/tasks/mod.rs run_task rules=R3,R6o,R9
//@@ alias serde_json::from_value shell_args_from_value
//@@ alias serde_json::Error SerdeError
//@@ alias tokio::fs::create_dir_all create_dir_all
//@@ rewrite Arc<WorkspaceLock> ==>> WorkspaceLock, Tracked(life): Tracked<&mut Life>
//@@ rewrite Arc<EventLog> ==>> EventLogArc
//@@ rewrite Arc<PathBuf> ==>> SnapDir
//@@ rewrite let execution_mode: ToolTaskExecutionMode = payload .execution_mode .unwrap_or(ApiToolTaskExecutionMode::Pipes) .into(); ==>> let execution_mode: ToolTaskExecutionMode = mode_into(payload.execution_mode.unwrap_or(ApiToolTaskExecutionMode::Pipes));
//@@ rewrite fail_task( &handle, ==>> fail_task(&handle, Tracked(&mut *life),
//@@ rewrite {id} .emit( ==>> emit_t(&{id}, Tracked(&mut *life),
//@@ rewrite pipes::run_pipes_task( &handle, ==>> run_pipes_task(&handle, Tracked(&mut *life),
//@@ rewrite pty::run_pty_task( &handle, ==>> run_pty_task(&handle, Tracked(&mut *life),
//@@ sig
    requires fresh(*old(life)),
    ensures final(life).spawned && final(life).terminal == 1 && final(life).running <= 1 && final(life).pumps == 0,   // [run_task.stream_opens_with_the_spawn_frame_and_ends_with_exactly_one_terminal_status]
//@@ end

} // verus!
fn main() {}
