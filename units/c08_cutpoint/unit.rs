//@@ unit c08_cutpoint properties=C08 bounded=cutpoint_full.tail_and_full_read_paths_agree_on_the_cut
#![allow(unused_imports, dead_code, unused_variables, unused_mut)]
use vstd::prelude::*;
use vstd::std_specs::iter::IteratorSpec;

//@@ include prelude/kernel_model.rs
//@@ include prelude/strings.rs

verus! {

// assumed std contract: position returns the first index whose element satisfies the predicate
pub assume_specification<'a, T, P: FnMut(&'a T) -> bool>[ <std::slice::Iter<'a, T> as Iterator>::position ](it: &mut std::slice::Iter<'a, T>, pred: P) -> (r: Option<usize>)
    where std::slice::Iter<'a, T>: Sized
    requires forall|x: &'a T| #[trigger] pred.requires((x,)),
    ensures
        match r {
            Some(i) => i < old(it).remaining().len()
                && pred.ensures((old(it).remaining()[i as int],), true)
                && forall|j: int| 0 <= j < i ==> pred.ensures((#[trigger] old(it).remaining()[j],), false),
            None => forall|j: int| 0 <= j < old(it).remaining().len() ==> pred.ensures((#[trigger] old(it).remaining()[j],), false),
        };

// ---- specification from the property statement: "the cut point is the last frame before the next
// message after the triggering message (or the head)" -----------------------------------------
pub open spec fn is_anchor(msgs: Seq<(u64, String)>, anchor: Seq<char>, idx: int) -> bool {
    &&& 0 <= idx < msgs.len()
    &&& msgs[idx].1@ == anchor
}

pub open spec fn cut_after(msgs: Seq<(u64, String)>, head_seq: u64, idx: int) -> u64 {
    if idx + 1 < msgs.len() {
        if msgs[idx + 1].0 >= 1 { (msgs[idx + 1].0 - 1) as u64 } else { 0u64 }
    } else {
        head_seq
    }
}

//@@ fn crates/ripd/src/continuities.rs resolve_cutpoint_from_tail rules=R4
//@@ sig
    ensures
        ret matches Some(pair) ==> exists|idx: int| is_anchor(message_events@, anchor_message_id@, idx)
            && pair.0 == message_events@[idx].0
            && pair.1 == cut_after(message_events@, head_seq, idx),                                                                    // [cutpoint_tail.cut_is_frame_before_next_message_or_head]
//@@ entry
    broadcast use group_string_eq;
    proof { axiom_slice_len_fits(message_events); }
//@@ closure 0
    -> (r: bool) ensures r == (__p0_0.1@ == anchor_message_id@)
//@@ closure 1
    -> (r: u64) ensures r == __p1_0.0
//@@ closure 2
    -> (r: u64) ensures r == __p2_0.0
//@@ afterclosure 2
    proof {
        assert(is_anchor(message_events@, anchor_message_id@, anchor_idx as int));
        assert(message_seq == message_events@[anchor_idx as int].0);
        assert(anchor_idx + 1 < message_events@.len() ==> next_message_seq == Some(message_events@[anchor_idx + 1].0));
        assert(anchor_idx + 1 >= message_events@.len() ==> next_message_seq is None);
    }
//@@ tail
    proof {
        assert(from_seq == cut_after(message_events@, head_seq, anchor_idx as int));   // [cutpoint_tail.cut_is_frame_before_next_message_or_head]
    }
//@@ end

// ---- full-replay path: the same cut, computed from the whole event sequence ------------------------------------
#[verifier::external_body] pub fn vfmt() -> String { unimplemented!() }       // R9
pub open spec fn is_msg(e: Event) -> bool { e.kind is ContinuityMessageAppended }
pub open spec fn is_anchor_at(ev: Seq<Event>, a: int, id: Seq<char>) -> bool {
    0 <= a < ev.len() && is_msg(ev[a]) && ev[a].id@ == id && forall|j: int| 0 <= j < a ==> !(is_msg(#[trigger] ev[j]) && ev[j].id@ == id)
}
// the first message frame after position a (or ev.len() when there is none)
pub open spec fn is_next_msg(ev: Seq<Event>, a: int, nx: int) -> bool {
    a < nx <= ev.len() && (nx < ev.len() ==> is_msg(ev[nx])) && forall|j: int| a < j < nx ==> !is_msg(#[trigger] ev[j])
}
pub open spec fn sat_sub1(x: u64) -> u64 { if x >= 1 { (x - 1) as u64 } else { 0 } }
pub open spec fn max_u64(a: u64, b: u64) -> u64 { if a >= b { a } else { b } }

// index of the first message frame with that id among ev[..n], or -1
pub open spec fn anchor_idx(ev: Seq<Event>, n: int, id: Seq<char>) -> int
    decreases n
{
    if n <= 0 { -1 } else {
        let r = anchor_idx(ev, n - 1, id);
        if r >= 0 { r } else if is_msg(ev[n - 1]) && ev[n - 1].id@ == id { n - 1 } else { -1 }
    }
}
pub proof fn lemma_anchor_idx(ev: Seq<Event>, n: int, id: Seq<char>)
    requires 0 <= n <= ev.len(),
    ensures
        -1 <= anchor_idx(ev, n, id) < n,
        anchor_idx(ev, n, id) >= 0 ==> is_anchor_at(ev, anchor_idx(ev, n, id), id),
        anchor_idx(ev, n, id) < 0 ==> forall|j: int| 0 <= j < n ==> !(is_msg(#[trigger] ev[j]) && ev[j].id@ == id),
    decreases n
{
    if n > 0 { lemma_anchor_idx(ev, n - 1, id); }
}
pub proof fn lemma_anchor_stable(ev: Seq<Event>, n: int, m: int, id: Seq<char>)
    requires 0 <= n <= m <= ev.len(), anchor_idx(ev, n, id) >= 0,
    ensures anchor_idx(ev, m, id) == anchor_idx(ev, n, id),
    decreases m - n
{
    if n < m { lemma_anchor_stable(ev, n, m - 1, id); }
}

//@@ fn crates/ripd/src/continuities.rs resolve_context_compile_cutpoint_full rules=R9 r7=0
//@@ sig
    ensures
        // Err exactly when the triggering message is not in the thread
        ret is Err ==> forall|j: int| 0 <= j < continuity_events@.len() ==> !(is_msg(#[trigger] continuity_events@[j]) && continuity_events@[j].id@ == message_id@),     // [cutpoint_full.err_only_if_anchor_absent]
        // the cut is the last frame before the next message after the triggering message (or the head), never before the message itself
        ret matches Ok(t) ==> exists|a: int, nx: int| #![auto] is_anchor_at(continuity_events@, a, message_id@) && is_next_msg(continuity_events@, a, nx)
            && t.0 == max_u64(if nx < continuity_events@.len() { sat_sub1(continuity_events@[nx].seq) } else { continuity_events@[continuity_events@.len() - 1].seq }, continuity_events@[a].seq)
            && t.1 is Some && t.1->Some_0@ == message_id@,                                                                                                                  // [cutpoint_full.cut_is_frame_before_next_message_or_head]
//@@ closure 0
    -> (r: u64) ensures r == event.seq
//@@ entry
    broadcast use group_string_eq;
//@@ loop 0
    invariant_except_break
        next_message_seq is None,
        message_seq is Some ==> forall|j: int| anchor_idx(continuity_events@, __i0 as int, message_id@) < j < __i0 ==> !is_msg(#[trigger] continuity_events@[j]),
    invariant
        __s0@ == continuity_events@,
        __i0 <= __s0@.len(),
        message_seq is Some == (anchor_idx(continuity_events@, __i0 as int, message_id@) >= 0),
        message_seq matches Some(ms) ==> ms == continuity_events@[anchor_idx(continuity_events@, __i0 as int, message_id@)].seq,      // [cutpoint_full.loop.anchor_is_first_message_with_the_id]
    ensures
        message_seq is Some == (anchor_idx(continuity_events@, continuity_events@.len() as int, message_id@) >= 0),
        message_seq matches Some(ms) ==> ms == continuity_events@[anchor_idx(continuity_events@, continuity_events@.len() as int, message_id@)].seq,
        message_seq is None ==> next_message_seq is None,
        (message_seq is Some && next_message_seq is None) ==> forall|j: int| anchor_idx(continuity_events@, continuity_events@.len() as int, message_id@) < j < continuity_events@.len() ==> !is_msg(#[trigger] continuity_events@[j]),
        (message_seq is Some && next_message_seq is Some) ==> (1 <= __i0 <= continuity_events@.len()
            && anchor_idx(continuity_events@, continuity_events@.len() as int, message_id@) < __i0 - 1
            && is_msg(continuity_events@[__i0 - 1]) && next_message_seq->Some_0 == continuity_events@[__i0 - 1].seq
            && forall|j: int| anchor_idx(continuity_events@, continuity_events@.len() as int, message_id@) < j < __i0 - 1 ==> !is_msg(#[trigger] continuity_events@[j])),
    decreases __s0@.len() - __i0
//@@ loopbody 0
    broadcast use group_string_eq;
    proof {
        lemma_anchor_idx(continuity_events@, __i0 as int - 1, message_id@);
        lemma_anchor_idx(continuity_events@, __i0 as int, message_id@);
    }
//@@ before break 0
    proof { lemma_anchor_stable(continuity_events@, __i0 as int, continuity_events@.len() as int, message_id@); lemma_anchor_stable(continuity_events@, __i0 as int - 1, __i0 as int, message_id@); }
//@@ afterloop 0
    proof {
        let ev = continuity_events@;
        lemma_anchor_idx(ev, ev.len() as int, message_id@);
        if message_seq is Some {
            let a = anchor_idx(ev, ev.len() as int, message_id@);
            let nx: int = if next_message_seq is Some { __i0 as int - 1 } else { ev.len() as int };
            assert(is_anchor_at(ev, a, message_id@));
            assert(is_next_msg(ev, a, nx));
        }
    }
//@@ end

} // verus!
fn main() {}
