//@@ unit c08_cutpoint properties=C08
#![allow(unused_imports, dead_code, unused_variables, unused_mut)]
use vstd::prelude::*;
use vstd::std_specs::iter::IteratorSpec;

//@@ include prelude/kernel_model.rs
//@@ include prelude/strings.rs

verus! {

// assumed std contract: position returns the first index whose element satisfies the predicate
pub assume_specification<'a, T, P: FnMut(&'a T) -> bool>[ <std::slice::Iter<'a, T> as Iterator>::position ](it: &mut std::slice::Iter<'a, T>, pred: P) -> (r: Option<usize>)
    where std::slice::Iter<'a, T>: Sized
    requires forall|x: &'a T| #[trigger] pred.requires((x,)),
    ensures
        match r {
            Some(i) => i < old(it).remaining().len()
                && pred.ensures((old(it).remaining()[i as int],), true)
                && forall|j: int| 0 <= j < i ==> pred.ensures((#[trigger] old(it).remaining()[j],), false),
            None => forall|j: int| 0 <= j < old(it).remaining().len() ==> pred.ensures((#[trigger] old(it).remaining()[j],), false),
        };

// ---- specification from the property statement: "the cut point is the last frame before the next
// message after the triggering message (or the head)" -----------------------------------------
pub open spec fn is_anchor(msgs: Seq<(u64, String)>, anchor: Seq<char>, idx: int) -> bool {
    &&& 0 <= idx < msgs.len()
    &&& msgs[idx].1@ == anchor
}

pub open spec fn cut_after(msgs: Seq<(u64, String)>, head_seq: u64, idx: int) -> u64 {
    if idx + 1 < msgs.len() {
        if msgs[idx + 1].0 >= 1 { (msgs[idx + 1].0 - 1) as u64 } else { 0u64 }
    } else {
        head_seq
    }
}

//@@ fn crates/ripd/src/continuities.rs resolve_cutpoint_from_tail rules=R4
//@@ sig
    ensures
        ret matches Some(pair) ==> exists|idx: int| is_anchor(message_events@, anchor_message_id@, idx)
            && pair.0 == message_events@[idx].0
            && pair.1 == cut_after(message_events@, head_seq, idx),                                                                    // [cutpoint_tail.cut_is_frame_before_next_message_or_head]
//@@ entry
    broadcast use group_string_eq;
    proof { axiom_slice_len_fits(message_events); }
//@@ closure 0
    -> (r: bool) ensures r == (__p0_0.1@ == anchor_message_id@)
//@@ closure 1
    -> (r: u64) ensures r == __p1_0.0
//@@ closure 2
    -> (r: u64) ensures r == __p2_0.0
//@@ afterclosure 2
    proof {
        assert(is_anchor(message_events@, anchor_message_id@, anchor_idx as int));
        assert(message_seq == message_events@[anchor_idx as int].0);
        assert(anchor_idx + 1 < message_events@.len() ==> next_message_seq == Some(message_events@[anchor_idx + 1].0));
        assert(anchor_idx + 1 >= message_events@.len() ==> next_message_seq is None);
    }
//@@ tail
    proof {
        assert(from_seq == cut_after(message_events@, head_seq, anchor_idx as int));   // [cutpoint_tail.cut_is_frame_before_next_message_or_head]
    }
//@@ end

} // verus!
fn main() {}
