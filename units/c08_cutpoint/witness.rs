// Replay enumerator for cut-point resolution: real function text, plain rustc.
//@@ include prelude/kernel_model_plain.rs
//@@ fn crates/ripd/src/continuities.rs resolve_cutpoint_from_tail
//@@ end
//@@ fn crates/ripd/src/continuities.rs resolve_context_compile_cutpoint_full
//@@ end

fn frame(seq: u64, code: usize) -> Event {
    let (id, kind) = match code {
        1 => ("a".to_string(), EventKind::ContinuityMessageAppended { actor_id: "u".into(), origin: "o".into(), content: "c".into() }),
        2 => ("b".to_string(), EventKind::ContinuityMessageAppended { actor_id: "u".into(), origin: "o".into(), content: "c".into() }),
        _ => (format!("f{seq}"), EventKind::ContinuityRunSpawned { run_session_id: "s".into(), message_id: "a".into(), actor_id: None, origin: None }),
    };
    Event { id, session_id: "t".into(), timestamp_ms: 0, seq, kind }
}
fn check_full() -> bool {
    // streams of <= 6 frames (seq = 2*index, so consecutive seqs differ by 2), each frame a message a / message b / another frame
    for n in 0..=6usize { for code in 0..3usize.pow(n as u32) {
        let mut c = code; let mut ev = Vec::new();
        for i in 0..n { ev.push(frame(2 * i as u64, c % 3)); c /= 3; }
        for id in ["a", "b", "zz"] {
            let got = resolve_context_compile_cutpoint_full(&ev, id);
            let is_msg = |e: &Event| matches!(e.kind, EventKind::ContinuityMessageAppended { .. });
            let a = ev.iter().position(|e| is_msg(e) && e.id == id);
            let want = a.map(|a| { let nx = ev.iter().enumerate().find(|(j, e)| *j > a && is_msg(e)).map(|(_, e)| e.seq.saturating_sub(1)).unwrap_or(ev.last().map(|e| e.seq).unwrap_or(0)); (nx.max(ev[a].seq), Some(id.to_string())) });
            // agreement with the tail path on the message projection
            let proj: Vec<(u64, String)> = ev.iter().filter(|e| is_msg(e)).map(|e| (e.seq, e.id.clone())).collect();
            let tail = resolve_cutpoint_from_tail(&proj, ev.last().map(|e| e.seq).unwrap_or(0), id).map(|(ms, from)| (from.max(ms), Some(id.to_string())));
            if got.clone().ok() != want || tail != want {
                println!("WITNESS {{\"function\": \"resolve_context_compile_cutpoint_full / resolve_cutpoint_from_tail\", \"frames\": {:?}, \"message_id\": {:?}, \"full_path\": {:?}, \"tail_path\": {:?}, \"expected\": {:?}, \"problem\": \"cut is not the frame before the next message after the triggering message (or the head), or the two read paths disagree\"}}",
                    ev.iter().map(|e| format!("{}:{}", e.seq, if is_msg(e) { format!("msg({})", e.id) } else { "other".to_string() })).collect::<Vec<_>>(), id, got, tail, want);
                return false;
            }
        }
    } }
    true
}

fn main() {
    let a: Vec<String> = std::env::args().collect();
    if a.get(1).map(|l| l.starts_with("cutpoint_full") || l.contains("agree")).unwrap_or(false) { check_full(); return; }
    // message frames: ascending seqs out of 0..=6, ids out of {a,b,c}; head >= last seq
    let ids = ["a", "b", "c"];
    for n in 0..=3usize {
        let mut seqs = vec![0u64; n];
        loop {
            let asc = seqs.windows(2).all(|w| w[0] < w[1]);
            if asc {
                for idcode in 0..3usize.pow(n as u32) {
                    let mut c = idcode;
                    let msgs: Vec<(u64, String)> = (0..n).map(|i| { let id = ids[c % 3]; c /= 3; (seqs[i], id.to_string()) }).collect();
                    let last = msgs.last().map(|m| m.0).unwrap_or(0);
                    for head in last..=last + 2 {
                        for anchor in ids {
                            let got = resolve_cutpoint_from_tail(&msgs, head, anchor);
                            // specification: the anchor is a message with that id; the cut is the frame before the next message, or the head
                            let ok = match got {
                                None => !msgs.iter().any(|m| m.1 == anchor),
                                Some((ms, from)) => msgs.iter().enumerate().any(|(i, m)| m.1 == anchor && m.0 == ms
                                    && from == (if i + 1 < msgs.len() { msgs[i + 1].0.saturating_sub(1) } else { head })),
                            };
                            if !ok {
                                println!("WITNESS {{\"function\": \"resolve_cutpoint_from_tail\", \"message_events\": {:?}, \"head_seq\": {}, \"anchor\": {:?}, \"returned\": {:?}, \"problem\": \"cut is not the frame before the next message after the anchor (or the head)\"}}",
                                    msgs, head, anchor, got);
                                return;
                            }
                        }
                    }
                }
            }
            // next seq vector over 0..=6
            let mut k = 0;
            while k < n { seqs[k] += 1; if seqs[k] <= 6 { break; } seqs[k] = 0; k += 1; }
            if k == n { break; }
        }
    }
}
