// Replay enumerator for cut-point resolution: real function text, plain rustc.
//@@ fn crates/ripd/src/continuities.rs resolve_cutpoint_from_tail
//@@ end

fn main() {
    // message frames: ascending seqs out of 0..=6, ids out of {a,b,c}; head >= last seq
    let ids = ["a", "b", "c"];
    for n in 0..=3usize {
        let mut seqs = vec![0u64; n];
        loop {
            let asc = seqs.windows(2).all(|w| w[0] < w[1]);
            if asc {
                for idcode in 0..3usize.pow(n as u32) {
                    let mut c = idcode;
                    let msgs: Vec<(u64, String)> = (0..n).map(|i| { let id = ids[c % 3]; c /= 3; (seqs[i], id.to_string()) }).collect();
                    let last = msgs.last().map(|m| m.0).unwrap_or(0);
                    for head in last..=last + 2 {
                        for anchor in ids {
                            let got = resolve_cutpoint_from_tail(&msgs, head, anchor);
                            // specification: the anchor is a message with that id; the cut is the frame before the next message, or the head
                            let ok = match got {
                                None => !msgs.iter().any(|m| m.1 == anchor),
                                Some((ms, from)) => msgs.iter().enumerate().any(|(i, m)| m.1 == anchor && m.0 == ms
                                    && from == (if i + 1 < msgs.len() { msgs[i + 1].0.saturating_sub(1) } else { head })),
                            };
                            if !ok {
                                println!("WITNESS {{\"function\": \"resolve_cutpoint_from_tail\", \"message_events\": {:?}, \"head_seq\": {}, \"anchor\": {:?}, \"returned\": {:?}, \"problem\": \"cut is not the frame before the next message after the anchor (or the head)\"}}",
                                    msgs, head, anchor, got);
                                return;
                            }
                        }
                    }
                }
            }
            // next seq vector over 0..=6
            let mut k = 0;
            while k < n { seqs[k] += 1; if seqs[k] <= 6 { break; } seqs[k] = 0; k += 1; }
            if k == n { break; }
        }
    }
}
