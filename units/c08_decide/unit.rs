//@@ unit c08_decide properties=C08
// compile_context_bundle_for_run (session.rs): the function that reads the compile input, picks the strategy, compiles the bundle and builds
// the selection decision that is logged (C08: "the bundle and the logged selection decision ...").  Proved on the real text: the strategy
// follows the number of checkpoints in the hierarchy alone (0: recent messages, 1: summaries, >= 2: hierarchical); the compiler of exactly
// that strategy is the one that runs, on the loaded input's events and cut and on exactly the hierarchy's checkpoints (all of them, in order /
// the last one / none); the decision names that strategy, lists the hierarchy's checkpoints one to one in order and carries the last of them
// as `compaction_checkpoint`; the cut reported with the compiled context is the loaded input's.  The three compilers are stubs here (proved
// in c08_assemble), naming what they were called with.
#![allow(unused_imports, dead_code, unused_variables, unused_mut)]
use vstd::prelude::*;

//@@ include prelude/kernel_model.rs
//@@ include prelude/strings.rs

verus! {
global size_of usize == 8;

#[verifier::external_body] pub fn vfmt() -> String { unimplemented!() }        // R9
pub struct EventLog { pub filler: u8 }
pub struct Path { pub filler: u8 }
pub struct ItemParam { pub filler: u8 }
pub struct ContextBundleV1 { pub filler: u8 }
pub mod rip_kernel { pub use super::{ContextSelectionCompactionCheckpointV1, ContextSelectionResetV1}; }
// json! values are opaque (R6o): members are still evaluated
pub struct J { pub filler: u8 }
#[verifier::external_body] pub fn vj<T>(t: &T) -> J { unimplemented!() }       // R6o
#[verifier::external_body] pub fn jnil() -> Value { unimplemented!() }
#[verifier::external_body] pub fn jcons(j: J, rest: Value) -> Value { unimplemented!() }
//@@ item crates/ripd/src/continuities.rs struct ContextCompileInput dropderive=Clone
//@@ item crates/ripd/src/continuities.rs struct CompactionCheckpointForCompile dropderive=Clone
//@@ item crates/ripd/src/continuities.rs struct ContinuityRunLink dropderive=Clone
//@@ item crates/ripd/src/compaction_summary.rs const COMPACTION_SUMMARY_KIND_CUMULATIVE_V1
//@@ item crates/ripd/src/context_compiler.rs const CONTEXT_COMPILER_ID_V1
//@@ item crates/ripd/src/context_compiler.rs const CONTEXT_COMPILER_STRATEGY_RECENT_MESSAGES_V1
//@@ item crates/ripd/src/context_compiler.rs const CONTEXT_COMPILER_STRATEGY_SUMMARIES_RECENT_MESSAGES_V1
//@@ item crates/ripd/src/context_compiler.rs const CONTEXT_COMPILER_STRATEGY_HIERARCHICAL_SUMMARIES_RECENT_MESSAGES_V1
//@@ item crates/ripd/src/context_compiler.rs const RECENT_MESSAGES_V1_LIMIT
//@@ item crates/ripd/src/context_compiler.rs const HIERARCHICAL_SUMMARIES_V1_MAX_REFS
//@@ item crates/ripd/src/context_compiler.rs struct HierarchicalSummaryRefV1 dropderive=Clone
//@@ item crates/ripd/src/context_compiler.rs struct CompileHierarchicalSummariesRecentMessagesV1Request
//@@ item crates/ripd/src/context_compiler.rs struct CompileSummariesRecentMessagesV1Request
//@@ item crates/ripd/src/context_compiler.rs struct CompileRecentMessagesV1Request
//@@ item crates/ripd/src/session.rs struct CompiledContextForRun
//@@ item crates/ripd/src/session.rs struct ContextSelectionDecisionForRun
//@@ item crates/ripd/src/session.rs struct ContextCompileOutcomeForRun

// timeless facts: which compiler produced a bundle, from what
pub uninterp spec fn compiled_recent(b: ContextBundleV1, events: Seq<Event>, from_seq: u64) -> bool;
pub uninterp spec fn compiled_summary(b: ContextBundleV1, events: Seq<Event>, from_seq: u64, artifact: Seq<char>, to_seq: u64) -> bool;
pub uninterp spec fn compiled_hier(b: ContextBundleV1, events: Seq<Event>, from_seq: u64, refs: Seq<HierarchicalSummaryRefV1>) -> bool;
pub uninterp spec fn bundle_written(b: ContextBundleV1, artifact: Seq<char>) -> bool;
#[verifier::external_body] pub fn compile_recent_messages_v1(req: CompileRecentMessagesV1Request<'_>) -> (r: Result<ContextBundleV1, String>)
    ensures r matches Ok(b) ==> compiled_recent(b, req.continuity_events@, req.from_seq) { unimplemented!() }
#[verifier::external_body] pub fn compile_summaries_recent_messages_v1(req: CompileSummariesRecentMessagesV1Request<'_>) -> (r: Result<ContextBundleV1, String>)
    ensures r matches Ok(b) ==> compiled_summary(b, req.continuity_events@, req.from_seq, req.summary_artifact_id@, req.summary_to_seq) { unimplemented!() }
#[verifier::external_body] pub fn compile_hierarchical_summaries_recent_messages_v1(req: CompileHierarchicalSummariesRecentMessagesV1Request<'_>) -> (r: Result<ContextBundleV1, String>)
    ensures r matches Ok(b) ==> compiled_hier(b, req.continuity_events@, req.from_seq, req.summaries@) { unimplemented!() }
#[verifier::external_body] pub fn write_bundle_v1(root: &Path, b: &ContextBundleV1) -> (r: Result<String, String>) ensures r matches Ok(id) ==> bundle_written(*b, id@) { unimplemented!() }
#[verifier::external_body] pub fn openresponses_items_from_context_bundle(root: &Path, b: &ContextBundleV1) -> Result<Vec<ItemParam>, String> { unimplemented!() }
pub struct ContinuityStore { pub filler: u8 }
pub uninterp spec fn input_loaded(thread: Seq<char>, message: Seq<char>, events: Seq<Event>, from_seq: u64) -> bool;
pub uninterp spec fn hierarchy_at(thread: Seq<char>, from_seq: u64, h: Seq<CompactionCheckpointForCompile>) -> bool;
impl ContinuityStore {
    #[verifier::external_body] pub fn load_context_compile_input_recent_messages_v1(&self, thread: &str, message: &str) -> (r: Result<ContextCompileInput, String>)
        ensures r matches Ok(i) ==> input_loaded(thread@, message@, i.continuity_events@, i.from_seq) { unimplemented!() }
    #[verifier::external_body] pub fn hierarchical_compaction_checkpoints_for_compile_v1(&self, thread: &str, from_seq: u64, max_levels: usize) -> (r: Result<Vec<CompactionCheckpointForCompile>, String>)
        ensures r matches Ok(h) ==> hierarchy_at(thread@, from_seq, h@) { unimplemented!() }
    #[verifier::external_body] pub fn latest_compaction_checkpoint_for_compile_v1(&self, thread: &str, from_seq: u64) -> Result<Option<CompactionCheckpointForCompile>, String> { unimplemented!() }
    #[verifier::external_body] pub fn workspace_root(&self) -> &Path { unimplemented!() }
}
#[verifier::external_body] pub fn vrefs(h: &Vec<CompactionCheckpointForCompile>) -> (r: Vec<HierarchicalSummaryRefV1>)
    ensures r@.len() == h@.len(), forall|i: int| 0 <= i < h@.len() ==> (#[trigger] r@[i]).artifact_id@ == h@[i].summary_artifact_id@ && r@[i].to_seq == h@[i].to_seq,
{ unimplemented!() }

#[verifier::external_body] pub fn vto_string(s: &str) -> (r: String) ensures r@ == s@ { unimplemented!() }      // str::to_string
pub open spec fn strategy_for(n: int) -> Seq<char> {
    if n == 0 { CONTEXT_COMPILER_STRATEGY_RECENT_MESSAGES_V1@ } else if n == 1 { CONTEXT_COMPILER_STRATEGY_SUMMARIES_RECENT_MESSAGES_V1@ } else { CONTEXT_COMPILER_STRATEGY_HIERARCHICAL_SUMMARIES_RECENT_MESSAGES_V1@ }
}
pub open spec fn lists(d: Seq<ContextSelectionCompactionCheckpointV1>, h: Seq<CompactionCheckpointForCompile>) -> bool {
    d.len() == h.len() && forall|i: int| 0 <= i < h.len() ==> (#[trigger] d[i]).checkpoint_id@ == h[i].checkpoint_id@ && d[i].summary_artifact_id@ == h[i].summary_artifact_id@
        && d[i].summary_kind@ == h[i].summary_kind@ && d[i].to_seq == h[i].to_seq
}

// what the outcome says, in terms of what was loaded (events, cut), the hierarchy h and the bundle b
pub open spec fn outcome_ok(strategy: Seq<char>, dec_list: Seq<ContextSelectionCompactionCheckpointV1>, dec_cp: Option<ContextSelectionCompactionCheckpointV1>, artifact: Seq<char>,
        from_seq: u64, thread: Seq<char>, message: Seq<char>, events: Seq<Event>, h: Seq<CompactionCheckpointForCompile>, b: ContextBundleV1) -> bool {
    &&& input_loaded(thread, message, events, from_seq)      // [decide.the_cut_reported_is_the_loaded_inputs]
    &&& hierarchy_at(thread, from_seq, h)
    &&& strategy == strategy_for(h.len() as int)      // [decide.strategy_follows_the_number_of_checkpoints_in_the_hierarchy]
    &&& lists(dec_list, h)      // [decide.decision_lists_the_hierarchys_checkpoints_one_to_one_in_order]
    &&& (h.len() == 0 ==> dec_cp is None) && (h.len() > 0 ==> dec_cp is Some)      // (a clone of the last entry; the derived Clone has no specification here)
    &&& bundle_written(b, artifact)
    // [decide.the_compiler_of_that_strategy_ran_on_the_loaded_input_and_exactly_these_checkpoints]
    &&& (h.len() == 0 ==> compiled_recent(b, events, from_seq))
    &&& (h.len() == 1 ==> compiled_summary(b, events, from_seq, h[0].summary_artifact_id@, h[0].to_seq))
    &&& (h.len() >= 2 ==> exists|refs: Seq<HierarchicalSummaryRefV1>| #![trigger compiled_hier(b, events, from_seq, refs)] compiled_hier(b, events, from_seq, refs) && refs.len() == h.len()
            && forall|i: int| 0 <= i < h.len() ==> (#[trigger] refs[i]).artifact_id@ == h[i].summary_artifact_id@ && refs[i].to_seq == h[i].to_seq)
}

//@@ fn crates/ripd/src/session.rs compile_context_bundle_for_run rules=R6o,R9 r7=0
//@@ rewrite let summaries: Vec<HierarchicalSummaryRefV1> = checkpoint_hierarchy .iter() .map(|checkpoint| HierarchicalSummaryRefV1 { artifact_id: checkpoint.summary_artifact_id.clone(), to_seq: checkpoint.to_seq, }) .collect(); ==>> let summaries: Vec<HierarchicalSummaryRefV1> = vrefs(&checkpoint_hierarchy);
//@@ rewrite Ok(ContextCompileOutcomeForRun { ==>> let out = ContextCompileOutcomeForRun {
//@@ rewrite from_message_id: input.from_message_id, }, }) ==>> from_message_id: input.from_message_id, }, }; proof { assert(outcome_ok(out.decision.compiler_strategy@, out.decision.compaction_checkpoints@, out.decision.compaction_checkpoint, out.compiled.bundle_artifact_id@, out.compiled.from_seq, run.continuity_id@, run.message_id@, input.continuity_events@, checkpoint_hierarchy@, bundle)); } Ok(out)
//@@ rewrite compiler_strategy: strategy.to_string(), ==>> compiler_strategy: vto_string(strategy),
//@@ sig
    ensures
        ret matches Ok(out) ==> exists|events: Seq<Event>, h: Seq<CompactionCheckpointForCompile>, b: ContextBundleV1|
            #[trigger] outcome_ok(out.decision.compiler_strategy@, out.decision.compaction_checkpoints@, out.decision.compaction_checkpoint, out.compiled.bundle_artifact_id@, out.compiled.from_seq,
                run.continuity_id@, run.message_id@, events, h, b),
//@@ entry
    proof {
        reveal_strlit("recent_messages_v1"); reveal_strlit("summaries_recent_messages_v1"); reveal_strlit("hierarchical_summaries_recent_messages_v1");
    }
//@@ loop 0
    invariant __i0 <= __s0.len(), __s0@ == checkpoint_hierarchy@, lists(compaction_checkpoints@, checkpoint_hierarchy@.take(__i0 as int)),
    decreases __s0.len() - __i0
//@@ afterloop 0
    proof { assert(checkpoint_hierarchy@.take(checkpoint_hierarchy@.len() as int) =~= checkpoint_hierarchy@); }
//@@ end

} // verus!
fn main() {}
