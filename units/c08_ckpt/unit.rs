//@@ unit c08_ckpt properties=C08,C04,C02 forbid=^(append|append_[a-z_]+|create_continuity(_locked)?|rebuild_truth|truncate|set_len|remove_file|write|write_all)$
// The summary checkpoint a run's context is compiled after (C08: "after the selected summary checkpoint"; C04: the answer is the one the
// truth log determines whatever the caches say; C02: selecting it writes nothing).  latest_compaction_checkpoint_for_compile_v1 is
// verified against a fold over the thread's truth stream: among the checkpoint frames whose to_seq is at or before the cut, the greatest
// to_seq, the later frame winning a tie.  Only a PRESENT cache answer is assumed to be that frame; an absent, failing or ill-typed cache
// answer is proved to fall back to the truth stream and to give the same result.
#![allow(unused_imports, dead_code, unused_variables, unused_mut)]
use vstd::prelude::*;
use vstd::std_specs::iter::IteratorSpec;
use std::collections::HashMap;
use std::cmp::Ordering;

//@@ include prelude/kernel_model.rs
//@@ include prelude/strings.rs

verus! {
global size_of usize == 8;

#[verifier::external_body] pub fn vfmt() -> String { unimplemented!() }        // R9
pub mod io { use vstd::prelude::*; verus! { pub struct Error { pub filler: u8 } pub type Result<T> = std::result::Result<T, Error>; } }

pub uninterp spec fn truth(id: Seq<char>) -> Seq<Event>;            // frames of the thread in the event log at the time of the call
pub type CkRow = (Seq<char>, Seq<char>, Seq<char>, u64);            // (checkpoint id, summary kind, summary artifact id, to_seq)

pub open spec fn selected(ev: Seq<Event>, from_seq: u64) -> Option<CkRow>
    decreases ev.len()
{
    if ev.len() == 0 { None } else {
        let p = selected(ev.drop_last(), from_seq);
        match ev.last().kind {
            EventKind::ContinuityCompactionCheckpointCreated { checkpoint_id, summary_kind, summary_artifact_id, to_seq, .. } =>
                if to_seq > from_seq { p } else { match p {
                    None => Some((checkpoint_id@, summary_kind@, summary_artifact_id@, to_seq)),
                    Some(c) => if to_seq >= c.3 { Some((checkpoint_id@, summary_kind@, summary_artifact_id@, to_seq)) } else { p },
                } },
            _ => p,
        }
    }
}
pub open spec fn row_of(c: CompactionCheckpointForCompile) -> CkRow { (c.checkpoint_id@, c.summary_kind@, c.summary_artifact_id@, c.to_seq) }
pub open spec fn opt_row(o: Option<CompactionCheckpointForCompile>) -> Option<CkRow> { match o { Some(c) => Some(row_of(c)), None => None } }

pub struct ContinuityStreamCache { pub filler: u8 }
impl ContinuityStreamCache {
    #[verifier::external_body] pub fn hierarchical_compaction_checkpoints_before_or_at_seq_v1(&self, id: &str, max_to_seq: u64, max_levels: usize, summary_kind: Option<&str>) -> (r: io::Result<Option<Vec<CompactionCheckpointIndexEntryV1>>>)
        ensures r matches Ok(Some(v)) ==> v@.len() <= max_levels,      // the cache walk stops at the requested number of levels: proved for the real function in unit c04_gate
    { unimplemented!() }
    // ASSUMED (decided for the cache primitives in units c04_*): a checkpoint frame the cache hands out is the one the truth stream determines
    #[verifier::external_body] pub fn latest_compaction_checkpoint_before_or_at_seq_v1(&self, id: &str, max_to_seq: u64) -> (r: io::Result<Option<Event>>)
        ensures
            r matches Ok(Some(e)) ==> (e.kind matches EventKind::ContinuityCompactionCheckpointCreated { checkpoint_id, summary_kind, summary_artifact_id, to_seq, .. }
                ==> selected(truth(id@), max_to_seq) == Some((checkpoint_id@, summary_kind@, summary_artifact_id@, to_seq))),
    { unimplemented!() }
}
pub struct ContinuityStore { pub stream_cache: ContinuityStreamCache }
//@@ item crates/ripd/src/continuities.rs struct CompactionCheckpointForCompile
//@@ item crates/ripd/src/compaction_checkpoint_index.rs struct CompactionCheckpointIndexEntryV1 dropderive=Clone
//@@ item crates/ripd/src/compaction_summary.rs const COMPACTION_SUMMARY_KIND_CUMULATIVE_V1
pub assume_specification<'a, T, F: FnMut(&'a T) -> Ordering>[ <[T]>::binary_search_by ](s: &'a [T], f: F) -> (r: Result<usize, usize>)
    requires forall|x: &'a T| #[trigger] f.requires((x,));
// stand-ins for iterator chains and comparators outside this Verus (R11); no contract: hierarchical selection is decided here only for
// what it reaches and for termination, its answer by the bounded replay of unit c04_status
#[verifier::external_body] pub fn entries_to_records(entries: Vec<CompactionCheckpointIndexEntryV1>) -> (r: Vec<CompactionCheckpointForCompile>) ensures r@.len() == entries@.len() { unimplemented!() }
#[verifier::external_body] pub fn vsort_by_to_seq(v: &mut Vec<CompactionCheckpointForCompile>) ensures final(v)@.len() == old(v)@.len() { unimplemented!() }
pub struct LatestByToSeq { pub filler: u8 }
impl LatestByToSeq {
    #[verifier::external_body] pub fn new() -> LatestByToSeq { unimplemented!() }
    #[verifier::external_body] pub fn existing_seq(&self, to_seq: &u64) -> Option<u64> { unimplemented!() }
    #[verifier::external_body] pub fn insert(&mut self, to_seq: u64, v: (u64, CompactionCheckpointForCompile)) { unimplemented!() }
    #[verifier::external_body] pub fn into_records(self) -> Vec<CompactionCheckpointForCompile> { unimplemented!() }
}

impl ContinuityStore {
    #[verifier::external_body] pub fn replay_events(&self, id: &str) -> (r: io::Result<Vec<Event>>)
        ensures r matches Ok(v) ==> v@ == truth(id@),
    { unimplemented!() }

    //@@ fn crates/ripd/src/continuities.rs ContinuityStore::latest_compaction_checkpoint_for_compile_v1 rules=R9 r7=0
    //@@ sig
        ensures
            ret matches Ok(o) ==> opt_row(o) == selected(truth(continuity_id@), from_seq),      // [compile_checkpoint.is_the_frame_the_truth_stream_determines_whatever_the_cache_answers]
    //@@ loop 0
        invariant __i0 <= __s0.len(), __s0@ == events@, events@ == truth(continuity_id@),
            opt_row(best) == selected(events@.take(__i0 as int), from_seq),      // [compile_checkpoint.greatest_to_seq_at_or_before_the_cut_later_frame_wins_a_tie]
        decreases __s0.len() - __i0
    //@@ loopbody 0
        proof { assert(events@.take(__i0 as int).drop_last() =~= events@.take(__i0 as int - 1)); }
    //@@ afterloop 0
        proof { assert(events@.take(events@.len() as int) =~= events@); }
    //@@ end

    //@@ fn crates/ripd/src/continuities.rs ContinuityStore::hierarchical_compaction_checkpoints_for_compile_v1 rules=R9 r7=0
    //@@ rewrite entries.into_iter().map(|entry| CompactionCheckpointForCompile { checkpoint_id: entry.checkpoint_id, summary_kind: entry.summary_kind, summary_artifact_id: entry.summary_artifact_id, to_seq: entry.to_seq, }).collect() ==>> entries_to_records(entries)
    //@@ rewrite {id}.sort_by(|a, b| a.to_seq.cmp(&b.to_seq)); ==>> vsort_by_to_seq(&mut {id});
    //@@ rewrite HashMap<u64, (u64, CompactionCheckpointForCompile)> = HashMap::new() ==>> LatestByToSeq = LatestByToSeq::new()
    //@@ rewrite match latest_by_to_seq.get(to_seq) { Some((existing_seq, _)) if *existing_seq >= event.seq => {} ==>> match latest_by_to_seq.existing_seq(to_seq) { Some(existing_seq) if existing_seq >= event.seq => {}
    //@@ rewrite latest_by_to_seq.into_values().map(|(_, record)| record).collect() ==>> latest_by_to_seq.into_records()
    //@@ sig
        ensures
            ret matches Ok(v) ==> v@.len() <= max_levels,      // [compile_checkpoint.hierarchy_has_at_most_the_requested_levels]
    //@@ loop 0
        invariant __i0 <= __s0.len(),
        decreases __s0.len() - __i0
    //@@ loop 1
        invariant selected@.len() <= max_levels,
        decreases max_levels - selected@.len()      // [compile_checkpoint.hierarchy_walk_terminates]
    //@@ end
}

} // verus!
fn main() {}
