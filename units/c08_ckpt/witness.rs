// vx: label-insensitive
// Replayed by the read-capability enumerator (shared with unit c04_status): both checkpoint selections in every cache state.
//@@ include units/c04_status/witness.rs
