//@@ unit c01_cont properties=C01
#![allow(unused_imports, dead_code, unused_variables, unused_mut)]
use vstd::prelude::*;

//@@ include prelude/kernel_model.rs
//@@ include prelude/seq_discipline.rs

verus! {

// ---- stubs for everything ContinuityStore's writers call (R8; all in trusted_base) ---------
pub mod io {
    use vstd::prelude::*;
    verus! {
    pub struct Error { pub filler: u8 }
    pub enum ErrorKind { NotFound, Other }
    impl Error {
        #[verifier::external_body]
        pub fn new(kind: ErrorKind, msg: &str) -> Error { unimplemented!() }
    }
    pub type Result<T> = std::result::Result<T, Error>;
    } // verus!
}

#[verifier::external_body]
pub fn vfmt() -> String { unimplemented!() }            // R9: opaque formatted message
#[verifier::external_body]
pub fn now_ms() -> u64 { unimplemented!() }

pub struct Uuid { pub filler: u8 }
impl Uuid {
    #[verifier::external_body]
    pub fn new_v4() -> Uuid { unimplemented!() }
    // trusted: a freshly generated id names a stream that does not exist yet (its next seq is 0)
    #[verifier::external_body]
    pub fn to_string(&self) -> (s: String) ensures reserved(s@, 0) { unimplemented!() }
}

pub struct SendError { pub filler: u8 }
pub struct Sender { pub filler: u8 }
impl Sender {
    #[verifier::external_body]
    pub fn send(&self, e: Event) -> Result<usize, SendError> { unimplemented!() }
}

pub struct ContinuityStreamCache { pub filler: u8 }
impl ContinuityStreamCache {
    #[verifier::external_body]
    pub fn append_best_effort(&self, e: &Event) { unimplemented!() }
    // assumed (cache fidelity is C04/C05 territory): the sidecar tail is the stream's last frame
    #[verifier::external_body]
    pub fn try_read_last_seq(&self, id: &str) -> (r: io::Result<Option<u64>>)
        ensures r matches Ok(Some(l)) ==> l < u64::MAX - 1 && reserved(id@, (l + 1) as u64),
    { unimplemented!() }
}

pub struct IndexGuard { pub workspaces: StrMap, pub continuities: MetaMap }
pub struct IndexLockResult { pub filler: u8 }
pub struct IndexMutex { pub filler: u8 }
impl IndexMutex { #[verifier::external_body] pub fn lock(&self) -> IndexLockResult { unimplemented!() } }
impl IndexLockResult { #[verifier::external_body] pub fn expect(self, msg: &str) -> IndexGuard { unimplemented!() } }
pub struct StrMap { pub filler: u8 }
impl StrMap { #[verifier::external_body] pub fn insert(&mut self, k: String, v: String) -> Option<String> { unimplemented!() } }
pub struct MetaMap { pub filler: u8 }
impl MetaMap { #[verifier::external_body] pub fn insert(&mut self, k: String, v: ContinuityMetaV1) -> Option<ContinuityMetaV1> { unimplemented!() } }
pub struct PathBuf { pub filler: u8 }
#[verifier::external_body]
pub fn index_path(data_dir: &PathBuf) -> PathBuf { unimplemented!() }
#[verifier::external_body]
pub fn save_index(path: &PathBuf, index: &IndexGuard) -> io::Result<()> { unimplemented!() }

//@@ item crates/ripd/src/continuities.rs struct ContinuityMetaV1 dropderive=Clone
//@@ item crates/ripd/src/continuities.rs struct ContinuityRunLink
//@@ item crates/ripd/src/continuities.rs struct ToolSideEffects
//@@ item crates/ripd/src/continuities.rs struct ContextCompiledPayload
//@@ item crates/ripd/src/continuities.rs struct ContextSelectionDecidedPayload
//@@ item crates/ripd/src/continuities.rs struct ProviderCursorUpdatedPayload
//@@ item crates/ripd/src/continuities.rs struct CompactionCheckpointCreatedPayload
//@@ item crates/ripd/src/continuities.rs struct CompactionAutoScheduleDecidedPayload
//@@ item crates/ripd/src/continuities.rs struct JobEndedPayload

pub mod rip_kernel {
    pub(crate) use super::ContextSelectionCompactionCheckpointV1;
    pub(crate) use super::ContextSelectionResetV1;
}

// stub of the store: same field names as the real struct, stub field types
pub struct ContinuityStore {
    pub data_dir: PathBuf,
    pub workspace_root: PathBuf,
    pub event_log: EventLog,
    pub stream_cache: ContinuityStreamCache,
    pub sender: Sender,
    pub index: IndexMutex,
    pub next_seq: SeqMutex,
}

impl ContinuityStore {
    // assumed: a full replay returns the stream in order; its last frame determines the next seq
    #[verifier::external_body]
    pub fn replay_events(&self, continuity_id: &str) -> (r: io::Result<Vec<Event>>)
        ensures r matches Ok(evs) ==> (evs@.len() > 0 ==> evs@.last().seq < u64::MAX - 1 && reserved(continuity_id@, (evs@.last().seq + 1) as u64)),
    { unimplemented!() }

    //@@ fn crates/ripd/src/continuities.rs ContinuityStore::load_next_seq_for
    //@@ sig
        ensures ret matches Ok(v) ==> reserved(continuity_id@, v) && v < u64::MAX,     // [load_next_seq.reserved]
    //@@ end

    //@@ fn crates/ripd/src/continuities.rs ContinuityStore::append_message rules=R9
    //@@ sig
        ensures
            // Ok only if a frame (continuity_id, s) reached the truth log and the counter then moved to s+1
            ret is Ok ==> exists|s: u64| #![auto] appended(continuity_id@, s) && advanced(continuity_id@, (s + 1) as u64),   // [append_message.appended_then_advanced]
    //@@ end

    //@@ fn crates/ripd/src/continuities.rs ContinuityStore::append_run_spawned rules=R9
    //@@ sig
        ensures
            // Ok only if a frame (continuity_id, s) reached the truth log and the counter then moved to s+1
            ret is Ok ==> exists|s: u64| #![auto] appended(continuity_id@, s) && advanced(continuity_id@, (s + 1) as u64),   // [append_run_spawned.appended_then_advanced]
    //@@ end

    //@@ fn crates/ripd/src/continuities.rs ContinuityStore::append_context_selection_decided rules=R9
    //@@ sig
        ensures
            // Ok only if a frame (continuity_id, s) reached the truth log and the counter then moved to s+1
            ret is Ok ==> exists|s: u64| #![auto] appended(continuity_id@, s) && advanced(continuity_id@, (s + 1) as u64),   // [append_context_selection_decided.appended_then_advanced]
    //@@ end

    //@@ fn crates/ripd/src/continuities.rs ContinuityStore::append_context_compiled rules=R9
    //@@ sig
        ensures
            // Ok only if a frame (continuity_id, s) reached the truth log and the counter then moved to s+1
            ret is Ok ==> exists|s: u64| #![auto] appended(continuity_id@, s) && advanced(continuity_id@, (s + 1) as u64),   // [append_context_compiled.appended_then_advanced]
    //@@ end

    //@@ fn crates/ripd/src/continuities.rs ContinuityStore::append_provider_cursor_updated rules=R9
    //@@ sig
        ensures
            // Ok only if a frame (continuity_id, s) reached the truth log and the counter then moved to s+1
            ret is Ok ==> exists|s: u64| #![auto] appended(continuity_id@, s) && advanced(continuity_id@, (s + 1) as u64),   // [append_provider_cursor_updated.appended_then_advanced]
    //@@ end

    //@@ fn crates/ripd/src/continuities.rs ContinuityStore::append_compaction_checkpoint_created rules=R9
    //@@ sig
        ensures
            // Ok only if a frame (continuity_id, s) reached the truth log and the counter then moved to s+1
            ret is Ok ==> exists|s: u64| #![auto] appended(continuity_id@, s) && advanced(continuity_id@, (s + 1) as u64),   // [append_compaction_checkpoint_created.appended_then_advanced]
    //@@ end

    //@@ fn crates/ripd/src/continuities.rs ContinuityStore::append_compaction_auto_schedule_decided rules=R9
    //@@ sig
        ensures
            // Ok only if a frame (continuity_id, s) reached the truth log and the counter then moved to s+1
            ret is Ok ==> exists|s: u64| #![auto] appended(continuity_id@, s) && advanced(continuity_id@, (s + 1) as u64),   // [append_compaction_auto_schedule_decided.appended_then_advanced]
    //@@ end

    //@@ fn crates/ripd/src/continuities.rs ContinuityStore::append_job_spawned rules=R9
    //@@ sig
        ensures
            // Ok only if a frame (continuity_id, s) reached the truth log and the counter then moved to s+1
            ret is Ok ==> exists|s: u64| #![auto] appended(continuity_id@, s) && advanced(continuity_id@, (s + 1) as u64),   // [append_job_spawned.appended_then_advanced]
    //@@ end

    //@@ fn crates/ripd/src/continuities.rs ContinuityStore::append_job_ended rules=R9
    //@@ sig
        ensures
            // Ok only if a frame (continuity_id, s) reached the truth log and the counter then moved to s+1
            ret is Ok ==> exists|s: u64| #![auto] appended(continuity_id@, s) && advanced(continuity_id@, (s + 1) as u64),   // [append_job_ended.appended_then_advanced]
    //@@ end

    //@@ fn crates/ripd/src/continuities.rs ContinuityStore::append_run_ended rules=R9
    //@@ sig
        ensures
            // Ok only if a frame (continuity_id, s) reached the truth log and the counter then moved to s+1
            ret is Ok ==> exists|s: u64| #![auto] appended(continuity_id@, s) && advanced(continuity_id@, (s + 1) as u64),   // [append_run_ended.appended_then_advanced]
    //@@ end

    //@@ fn crates/ripd/src/continuities.rs ContinuityStore::append_tool_side_effects rules=R9
    //@@ sig
        ensures
            ret is Ok ==> exists|s: u64| #![auto] appended(run.continuity_id@, s) && advanced(run.continuity_id@, (s + 1) as u64),   // [append_tool_side_effects.appended_then_advanced]
    //@@ end

    //@@ fn crates/ripd/src/continuities.rs ContinuityStore::create_continuity rules=R9
    //@@ sig
        requires continuity_id matches Some(id) ==> reserved(id@, 0),
        ensures
            ret matches Ok(id) ==> appended(id@, 0),                                       // [create_continuity.creation_frame_at_seq0]
            ret matches Ok(id) ==> (continuity_id matches Some(given) ==> id@ == given@),  // [create_continuity.id_frame]
    //@@ closure 0
        -> (r: String) ensures reserved(r@, 0)
    //@@ end
}

} // verus!
fn main() {}
