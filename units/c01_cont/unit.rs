//@@ unit c01_cont properties=C01,C07 nodegrade strictcallees
#![allow(unused_imports, dead_code, unused_variables, unused_mut)]
use vstd::prelude::*;

//@@ include prelude/kernel_model.rs
//@@ include prelude/seq_discipline.rs

//@@ include prelude/cont_store_stubs.rs

verus! {

impl ContinuityStore {
    // assumed: a full replay returns the stream in order; its last frame determines the next seq
    #[verifier::external_body]
    pub fn replay_events(&self, continuity_id: &str) -> (r: io::Result<Vec<Event>>)
        ensures r matches Ok(evs) ==> (evs@.len() > 0 ==> evs@.last().seq < u64::MAX - 1 && reserved(continuity_id@, (evs@.last().seq + 1) as u64)),
    { unimplemented!() }

    //@@ fn crates/ripd/src/continuities.rs ContinuityStore::load_next_seq_for
    //@@ sig
        ensures ret matches Ok(v) ==> reserved(continuity_id@, v) && v < u64::MAX,     // [load_next_seq.reserved]
    //@@ end

    //@@ fn crates/ripd/src/continuities.rs ContinuityStore::append_message rules=R9
    //@@ rewrite self.stream_cache.append_best_effort(&event); => self.stream_cache.append_best_effort_locked(&next_seq, &event);
    //@@ rewrite? drop(next_seq); => vrelease(&mut next_seq);
    //@@ sig
        ensures
            // Ok only if a frame (continuity_id, s) reached the truth log and the counter then moved to s+1
            ret is Ok ==> exists|s: u64| #![auto] appended(continuity_id@, s) && advanced(continuity_id@, (s + 1) as u64),   // [append_message.appended_then_advanced]
    //@@ end

    //@@ fn crates/ripd/src/continuities.rs ContinuityStore::append_run_spawned rules=R9
    //@@ rewrite self.stream_cache.append_best_effort(&event); => self.stream_cache.append_best_effort_locked(&next_seq, &event);
    //@@ rewrite? drop(next_seq); => vrelease(&mut next_seq);
    //@@ sig
        ensures
            // Ok only if a frame (continuity_id, s) reached the truth log and the counter then moved to s+1
            ret is Ok ==> exists|s: u64| #![auto] appended(continuity_id@, s) && advanced(continuity_id@, (s + 1) as u64),   // [append_run_spawned.appended_then_advanced]
    //@@ end

    //@@ fn crates/ripd/src/continuities.rs ContinuityStore::append_context_selection_decided rules=R9
    //@@ rewrite self.stream_cache.append_best_effort(&event); => self.stream_cache.append_best_effort_locked(&next_seq, &event);
    //@@ rewrite? drop(next_seq); => vrelease(&mut next_seq);
    //@@ sig
        ensures
            // Ok only if a frame (continuity_id, s) reached the truth log and the counter then moved to s+1
            ret is Ok ==> exists|s: u64| #![auto] appended(continuity_id@, s) && advanced(continuity_id@, (s + 1) as u64),   // [append_context_selection_decided.appended_then_advanced]
    //@@ end

    //@@ fn crates/ripd/src/continuities.rs ContinuityStore::append_context_compiled rules=R9
    //@@ rewrite self.stream_cache.append_best_effort(&event); => self.stream_cache.append_best_effort_locked(&next_seq, &event);
    //@@ rewrite? drop(next_seq); => vrelease(&mut next_seq);
    //@@ sig
        ensures
            // Ok only if a frame (continuity_id, s) reached the truth log and the counter then moved to s+1
            ret is Ok ==> exists|s: u64| #![auto] appended(continuity_id@, s) && advanced(continuity_id@, (s + 1) as u64),   // [append_context_compiled.appended_then_advanced]
    //@@ end

    //@@ fn crates/ripd/src/continuities.rs ContinuityStore::append_provider_cursor_updated rules=R9
    //@@ rewrite self.stream_cache.append_best_effort(&event); => self.stream_cache.append_best_effort_locked(&next_seq, &event);
    //@@ rewrite? drop(next_seq); => vrelease(&mut next_seq);
    //@@ sig
        ensures
            // Ok only if a frame (continuity_id, s) reached the truth log and the counter then moved to s+1
            ret is Ok ==> exists|s: u64| #![auto] appended(continuity_id@, s) && advanced(continuity_id@, (s + 1) as u64),   // [append_provider_cursor_updated.appended_then_advanced]
    //@@ end

    //@@ fn crates/ripd/src/continuities.rs ContinuityStore::append_compaction_checkpoint_created rules=R9
    //@@ rewrite self.stream_cache.append_best_effort(&event); => self.stream_cache.append_best_effort_locked(&next_seq, &event);
    //@@ rewrite? drop(next_seq); => vrelease(&mut next_seq);
    //@@ sig
        ensures
            // Ok only if a frame (continuity_id, s) reached the truth log and the counter then moved to s+1
            ret is Ok ==> exists|s: u64| #![auto] appended(continuity_id@, s) && advanced(continuity_id@, (s + 1) as u64),   // [append_compaction_checkpoint_created.appended_then_advanced]
    //@@ end

    //@@ fn crates/ripd/src/continuities.rs ContinuityStore::append_compaction_auto_schedule_decided rules=R9
    //@@ rewrite self.stream_cache.append_best_effort(&event); => self.stream_cache.append_best_effort_locked(&next_seq, &event);
    //@@ rewrite? drop(next_seq); => vrelease(&mut next_seq);
    //@@ sig
        ensures
            // Ok only if a frame (continuity_id, s) reached the truth log and the counter then moved to s+1
            ret is Ok ==> exists|s: u64| #![auto] appended(continuity_id@, s) && advanced(continuity_id@, (s + 1) as u64),   // [append_compaction_auto_schedule_decided.appended_then_advanced]
    //@@ end

    //@@ fn crates/ripd/src/continuities.rs ContinuityStore::append_job_spawned rules=R9
    //@@ rewrite self.stream_cache.append_best_effort(&event); => self.stream_cache.append_best_effort_locked(&next_seq, &event);
    //@@ rewrite? drop(next_seq); => vrelease(&mut next_seq);
    //@@ sig
        ensures
            // Ok only if a frame (continuity_id, s) reached the truth log and the counter then moved to s+1
            ret is Ok ==> exists|s: u64| #![auto] appended(continuity_id@, s) && advanced(continuity_id@, (s + 1) as u64),   // [append_job_spawned.appended_then_advanced]
    //@@ end

    //@@ fn crates/ripd/src/continuities.rs ContinuityStore::append_job_ended rules=R9
    //@@ rewrite self.stream_cache.append_best_effort(&event); => self.stream_cache.append_best_effort_locked(&next_seq, &event);
    //@@ rewrite? drop(next_seq); => vrelease(&mut next_seq);
    //@@ sig
        ensures
            // Ok only if a frame (continuity_id, s) reached the truth log and the counter then moved to s+1
            ret is Ok ==> exists|s: u64| #![auto] appended(continuity_id@, s) && advanced(continuity_id@, (s + 1) as u64),   // [append_job_ended.appended_then_advanced]
    //@@ end

    //@@ fn crates/ripd/src/continuities.rs ContinuityStore::append_run_ended rules=R9
    //@@ rewrite self.stream_cache.append_best_effort(&event); => self.stream_cache.append_best_effort_locked(&next_seq, &event);
    //@@ rewrite? drop(next_seq); => vrelease(&mut next_seq);
    //@@ sig
        ensures
            // Ok only if a frame (continuity_id, s) reached the truth log and the counter then moved to s+1
            ret is Ok ==> exists|s: u64| #![auto] appended(continuity_id@, s) && advanced(continuity_id@, (s + 1) as u64),   // [append_run_ended.appended_then_advanced]
    //@@ end

    //@@ fn crates/ripd/src/continuities.rs ContinuityStore::append_tool_side_effects rules=R9
    //@@ rewrite self.stream_cache.append_best_effort(&event); => self.stream_cache.append_best_effort_locked(&next_seq, &event);
    //@@ rewrite? drop(next_seq); => vrelease(&mut next_seq);
    //@@ sig
        ensures
            ret is Ok ==> exists|s: u64| #![auto] appended(run.continuity_id@, s) && advanced(run.continuity_id@, (s + 1) as u64),   // [append_tool_side_effects.appended_then_advanced]
    //@@ end

    //@@ fn crates/ripd/src/continuities.rs ContinuityStore::create_continuity
    //@@ sig
        requires continuity_id matches Some(id) ==> reserved(id@, 0),
        ensures
            ret matches Ok(id) ==> appended(id@, 0),                                       // [create_continuity.creation_frame_at_seq0]
            ret matches Ok(id) ==> (continuity_id matches Some(given) ==> id@ == given@),  // [create_continuity.id_frame]
    //@@ end

    // creation under the caller's guard: frame 0 with the reserved seq, counter set to 1 through the SAME guard, and only for a
    // thread id the guard does not know yet
    //@@ fn crates/ripd/src/continuities.rs ContinuityStore::create_continuity_locked rules=R9
    //@@ rewrite self.stream_cache.append_best_effort(&created); => self.stream_cache.append_best_effort_locked(next_seq, &created);
    //@@ rewrite &mut HashMap<String, u64> => &mut SeqGuard
    //@@ sig
        requires continuity_id matches Some(id) ==> reserved(id@, 0), old(next_seq).held(),
        ensures
            final(next_seq).held(),
            ret matches Ok(id) ==> appended(id@, 0) && reserved(id@, 1),                                                  // [create_continuity.creation_frame_at_seq0]
            ret matches Ok(id) ==> (continuity_id matches Some(given) ==> id@ == given@),                                    // [create_continuity.id_frame]
            ret matches Ok(id) ==> !old(next_seq)@.contains_key(id@) && final(next_seq)@ == old(next_seq)@.insert(id@, 1),   // [create_continuity.counter_set_to_one_under_the_same_guard]
            ret is Err ==> final(next_seq)@ == old(next_seq)@,
    //@@ closure 0
        -> (r: String) ensures reserved(r@, 0)
    //@@ end
}

} // verus!
fn main() {}
