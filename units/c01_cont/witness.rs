// Replay enumerator for the continuity writers: real text (R1 only) of load_next_seq_for and six append_* writers over an
// in-memory truth log with two sidecars (full stream; messages+runs only), each present, absent or unreadable, after a
// restart (empty counter cache) and mid-run, with append failures injected.
use std::cell::RefCell;
use std::collections::HashMap;
use std::io;
use std::sync::Mutex;
//@@ include prelude/kernel_model_plain.rs
pub struct Uuid;
thread_local! { static CTR: RefCell<u64> = RefCell::new(0); }
impl Uuid { pub fn new_v4() -> Uuid { Uuid } }
impl std::fmt::Display for Uuid { fn fmt(&self, f: &mut std::fmt::Formatter<'_>) -> std::fmt::Result { let n = CTR.with(|c| { *c.borrow_mut() += 1; *c.borrow() }); write!(f, "uuid-{n}") } }
pub fn now_ms() -> u64 { 0 }
pub struct EventLog { pub frames: RefCell<Vec<Event>>, pub fail_next: RefCell<bool> }
impl EventLog { pub fn append(&self, e: &Event) -> Result<(), String> { if self.fail_next.replace(false) { return Err("disk full".into()); } self.frames.borrow_mut().push(e.clone()); Ok(()) } }
pub struct Sender;
impl Sender { pub fn send(&self, _e: Event) -> Result<usize, ()> { Ok(0) } }
// sidecar modes: 0 absent, 1 present (faithful), 2 unreadable
pub struct ContinuityStreamCache { pub full: RefCell<Vec<Event>>, pub full_mode: u8, pub mr_mode: u8 }
fn is_mr(e: &Event) -> bool { matches!(e.kind, EventKind::ContinuityMessageAppended { .. } | EventKind::ContinuityRunSpawned { .. } | EventKind::ContinuityRunEnded { .. }) }
impl ContinuityStreamCache {
    pub fn append_best_effort(&self, e: &Event) { self.full.borrow_mut().push(e.clone()); }
    pub fn try_read_last_seq(&self, id: &str) -> io::Result<Option<u64>> { match self.full_mode { 0 => Ok(None), 2 => Err(io::Error::new(io::ErrorKind::Other, "unreadable")), _ => Ok(self.full.borrow().iter().filter(|e| e.session_id == id).map(|e| e.seq).last()) } }
    pub fn try_read_last_seq_messages_runs_v1(&self, id: &str) -> io::Result<Option<u64>> { match self.mr_mode { 0 => Ok(None), 2 => Err(io::Error::new(io::ErrorKind::Other, "unreadable")), _ => Ok(self.full.borrow().iter().filter(|e| e.session_id == id && is_mr(e)).map(|e| e.seq).last()) } }
}
//@@ item crates/ripd/src/continuities.rs struct ContinuityRunLink
//@@ item crates/ripd/src/continuities.rs struct ContextCompiledPayload
//@@ item crates/ripd/src/continuities.rs struct ContextSelectionDecidedPayload
//@@ item crates/ripd/src/continuities.rs struct ProviderCursorUpdatedPayload
//@@ item crates/ripd/src/continuities.rs struct CompactionAutoScheduleDecidedPayload
//@@ item crates/ripd/src/continuities.rs struct ToolSideEffects
//@@ item crates/ripd/src/continuities.rs struct ContinuityMetaV1
pub mod rip_kernel { pub use super::{ContextSelectionCompactionCheckpointV1, ContextSelectionResetV1}; }
pub struct ContinuityIndexV1 { pub workspaces: HashMap<String, String>, pub continuities: HashMap<String, ContinuityMetaV1> }
pub fn index_path(p: &std::path::PathBuf) -> std::path::PathBuf { p.clone() }
pub fn save_index(_p: &std::path::PathBuf, _i: &ContinuityIndexV1) -> io::Result<()> { Ok(()) }
//@@ item crates/ripd/src/continuities.rs struct JobEndedPayload
//@@ item crates/ripd/src/continuities.rs struct CompactionCheckpointCreatedPayload
pub struct ContinuityStore { pub data_dir: std::path::PathBuf, pub index: Mutex<ContinuityIndexV1>, pub event_log: EventLog, pub stream_cache: ContinuityStreamCache, pub sender: Sender, pub next_seq: Mutex<HashMap<String, u64>> }
impl ContinuityStore {
    pub fn replay_events(&self, id: &str) -> io::Result<Vec<Event>> { Ok(self.event_log.frames.borrow().iter().filter(|e| e.session_id == id).cloned().collect()) }
    //@@ fn crates/ripd/src/continuities.rs ContinuityStore::load_next_seq_for
    //@@ end
    //@@ fn crates/ripd/src/continuities.rs ContinuityStore::append_message
    //@@ end
    //@@ fn crates/ripd/src/continuities.rs ContinuityStore::append_run_spawned
    //@@ end
    //@@ fn crates/ripd/src/continuities.rs ContinuityStore::append_run_ended
    //@@ end
    //@@ fn crates/ripd/src/continuities.rs ContinuityStore::append_job_spawned
    //@@ end
    //@@ fn crates/ripd/src/continuities.rs ContinuityStore::append_job_ended
    //@@ end
    //@@ fn crates/ripd/src/continuities.rs ContinuityStore::append_compaction_checkpoint_created
    //@@ end
    //@@ fn crates/ripd/src/continuities.rs ContinuityStore::append_context_selection_decided
    //@@ end
    //@@ fn crates/ripd/src/continuities.rs ContinuityStore::append_context_compiled
    //@@ end
    //@@ fn crates/ripd/src/continuities.rs ContinuityStore::append_provider_cursor_updated
    //@@ end
    //@@ fn crates/ripd/src/continuities.rs ContinuityStore::append_compaction_auto_schedule_decided
    //@@ end
    //@@ fn crates/ripd/src/continuities.rs ContinuityStore::append_tool_side_effects
    //@@ end
    //@@ fn crates/ripd/src/continuities.rs ContinuityStore::create_continuity
    //@@ end
    //@@ fn crates/ripd/src/continuities.rs ContinuityStore::create_continuity_locked
    //@@ end
}
fn new_index() -> Mutex<ContinuityIndexV1> { Mutex::new(ContinuityIndexV1 { workspaces: HashMap::new(), continuities: HashMap::new() }) }
const T: &str = "t";
fn call(st: &ContinuityStore, op: u8) -> Result<String, String> {
    match op {
        0 => st.append_message(T, "u".into(), "o".into(), "c".into()),
        1 => st.append_run_spawned(T, "m", "s", "u".into(), "o".into()),
        2 => st.append_run_ended(T, "m", "s", "done".into(), "u".into(), "o".into()),
        3 => st.append_job_spawned(T, "j", "k", None, "u".into(), "o".into()),
        4 => st.append_job_ended(T, JobEndedPayload { job_id: "j".into(), job_kind: "k".into(), status: "completed".into(), result: None, error: None, actor_id: "u".into(), origin: "o".into() }),
        6 => st.append_context_selection_decided(T, ContextSelectionDecidedPayload { run_session_id: "s".into(), message_id: "m".into(), compiler_id: "c".into(), compiler_strategy: "s".into(), limits: Value { filler: 0 }, compaction_checkpoint: None, compaction_checkpoints: vec![], resets: vec![], reason: None, actor_id: "u".into(), origin: "o".into() }),
        7 => st.append_context_compiled(T, ContextCompiledPayload { run_session_id: "s".into(), bundle_artifact_id: "b".into(), compiler_id: "c".into(), compiler_strategy: "s".into(), from_seq: 0, from_message_id: None, actor_id: "u".into(), origin: "o".into() }),
        8 => st.append_provider_cursor_updated(T, ProviderCursorUpdatedPayload { provider: "p".into(), endpoint: None, model: None, cursor: None, action: "set".into(), reason: None, run_session_id: None, actor_id: "u".into(), origin: "o".into() }),
        9 => st.append_compaction_auto_schedule_decided(T, CompactionAutoScheduleDecidedPayload { decision_id: "d".into(), policy_id: "p".into(), decision: "noop".into(), execute: false, stride_messages: 1, max_new_checkpoints: 1, block_on_inflight: true, message_count: 0, cut_rule_id: "r".into(), planned: vec![], job_id: None, job_kind: None, reason: None, actor_id: "u".into(), origin: "o".into() }),
        10 => st.append_tool_side_effects(&ContinuityRunLink { continuity_id: T.into(), message_id: "m".into(), actor_id: "u".into(), origin: "o".into() }, "s", ToolSideEffects { tool_id: "t".into(), tool_name: "write".into(), affected_paths: None, checkpoint_id: None }),
        _ => st.append_compaction_checkpoint_created(T, CompactionCheckpointCreatedPayload { cut_rule_id: "r".into(), summary_kind: "k".into(), summary_artifact_id: "a".into(), from_seq: 0, from_message_id: None, to_seq: 0, to_message_id: None, actor_id: "u".into(), origin: "o".into() }),
    }
}
const NAMES: [&str; 11] = ["append_message", "append_run_spawned", "append_run_ended", "append_job_spawned", "append_job_ended", "append_compaction_checkpoint_created", "append_context_selection_decided", "append_context_compiled", "append_provider_cursor_updated", "append_compaction_auto_schedule_decided", "append_tool_side_effects"];

fn main() {
    // history: creation frame + up to 3 earlier frames (each of the six kinds) written through the store itself; then a restart
    // (counter cache emptied) with every sidecar mode; then two more appends, the first of which may fail in the log
    for n in 0..=3usize { for code in 0..6usize.pow(n as u32) { for full_mode in 0..3u8 { for mr_mode in 0..3u8 { for op1 in 0..11u8 { for fail1 in [false, true] { for op2 in [0u8, 3] {
        let mut c = code; let hist: Vec<u8> = (0..n).map(|_| { let o = (c % 6) as u8; c /= 6; o }).collect();
        let st = ContinuityStore { data_dir: std::path::PathBuf::new(), index: new_index(), event_log: EventLog { frames: RefCell::new(vec![]), fail_next: RefCell::new(false) }, stream_cache: ContinuityStreamCache { full: RefCell::new(vec![]), full_mode: 1, mr_mode: 1 }, sender: Sender, next_seq: Mutex::new(HashMap::new()) };
        let created = Event { id: "c0".into(), session_id: T.into(), timestamp_ms: 0, seq: 0, kind: EventKind::ContinuityCreated { workspace: "ws".into(), title: None } };
        st.event_log.append(&created).unwrap(); st.stream_cache.append_best_effort(&created);
        // another thread's frames share the log and the sidecar store
        let other = Event { id: "x0".into(), session_id: "other".into(), timestamp_ms: 0, seq: 0, kind: EventKind::ContinuityCreated { workspace: "ws".into(), title: None } };
        st.event_log.append(&other).unwrap(); st.stream_cache.append_best_effort(&other);
        for h in &hist { call(&st, *h).unwrap(); }
        // restart
        let st = ContinuityStore { data_dir: std::path::PathBuf::new(), index: new_index(), event_log: st.event_log, stream_cache: ContinuityStreamCache { full: st.stream_cache.full, full_mode, mr_mode }, sender: Sender, next_seq: Mutex::new(HashMap::new()) };
        *st.event_log.fail_next.borrow_mut() = fail1;
        let r1 = call(&st, op1);
        let r2 = call(&st, op2);
        let seqs: Vec<u64> = st.event_log.frames.borrow().iter().filter(|e| e.session_id == T).map(|e| e.seq).collect();
        let want: Vec<u64> = (0..seqs.len() as u64).collect();
        let expected_len = 1 + n + (!fail1) as usize + 1;
        let problem = if fail1 != r1.is_err() || r2.is_err() { Some("an append reported the wrong outcome") }
            else if seqs != want { Some("the thread's frames are not numbered 0,1,2,... without gap or duplicate") }
            else if seqs.len() != expected_len { Some("a frame was lost or written twice") }
            else { None };
        if let Some(p) = problem {
            println!("WITNESS {{\"function\": \"ContinuityStore::{}\", \"frames_before_restart\": {:?}, \"full_sidecar\": {:?}, \"messages_runs_sidecar\": {:?}, \"first_append_after_restart\": {:?}, \"log_write_fails_on_it\": {}, \"second_append\": {:?}, \"thread_frame_seqs\": {:?}, \"problem\": {:?}}}",
                NAMES[op1 as usize], hist.iter().map(|h| NAMES[*h as usize]).collect::<Vec<_>>(), ["absent", "present", "unreadable"][full_mode as usize], ["absent", "present", "unreadable"][mr_mode as usize], NAMES[op1 as usize], fail1, NAMES[op2 as usize], seqs, p);
            return;
        }
    } } } } } } }
    // create_continuity: the new thread's creation frame is seq 0 and the next append to it is seq 1 (sequential use; the race F4a needs a schedule)
    for fail in [false, true] { for op in [0u8, 3] {
        let st = ContinuityStore { data_dir: std::path::PathBuf::new(), index: new_index(), event_log: EventLog { frames: RefCell::new(vec![]), fail_next: RefCell::new(fail) }, stream_cache: ContinuityStreamCache { full: RefCell::new(vec![]), full_mode: 1, mr_mode: 1 }, sender: Sender, next_seq: Mutex::new(HashMap::new()) };
        let r = st.create_continuity("ws".into(), Some(T.into()), None, true);
        if fail { if r.is_ok() || !st.event_log.frames.borrow().is_empty() { println!("WITNESS {{\"function\": \"ContinuityStore::create_continuity\", \"problem\": \"a failed creation reported success or left a frame\"}}"); return; } continue; }
        call(&st, op).unwrap();
        let seqs: Vec<u64> = st.event_log.frames.borrow().iter().filter(|e| e.session_id == T).map(|e| e.seq).collect();
        if r.is_err() || seqs != vec![0, 1] { println!("WITNESS {{\"function\": \"ContinuityStore::create_continuity\", \"thread_frame_seqs\": {:?}, \"problem\": \"a new thread does not start at seq 0 followed by seq 1\"}}", seqs); return; }
    } }
}
