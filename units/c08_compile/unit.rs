//@@ unit c08_compile properties=C08 noverus bounded=compile.bundle_is_summary_refs_plus_most_recent_messages_with_replies_independent_of_later_frames
// This unit carries no Verus obligations: the three compile_* functions use Iterator::max / sort_by / HashMap::get over
// values produced by closures and build serde-facing bundle types; the kernels they call (both selection functions,
// ended_runs_by_message_id, aggregate_output_text_from_events) ARE proved in unit c08_select.  The composition is checked
// here as a BOUNDED stand-in by units/c08_compile/witness.rs on the extracted real text: every thread of up to 6 (quick) /
// 7 (thorough) frames over {message, run-ended for the newest / second newest earlier message, run-spawned}, every cut
// point, every single checkpoint and every ordered choice of up to three checkpoints at or before the cut, reply texts
// present / empty / unreadable, plus threads of 17-19 messages to reach the documented limit of 16.  Never counted as proved.
fn main() {}
