// vx: label-insensitive
// Bounded replay of the three context-bundle compilers: real text (R1 only) of compile_recent_messages_v1,
// compile_summaries_recent_messages_v1, compile_hierarchical_summaries_recent_messages_v1, both selection kernels,
// ended_runs_by_message_id, aggregate_session_output_text, aggregate_output_text_from_events and ContextBundleV1::new,
// against an oracle written from the property statement.
use std::collections::HashMap;
use std::io;
use std::path::{Path, PathBuf};
//@@ include prelude/kernel_model_plain.rs
pub struct EventLog { pub replies: HashMap<String, Option<String>> }
impl EventLog {
    // a run session's stream: one start frame, its reply text in two deltas, one end frame; None = unreadable
    pub fn replay_session(&self, sid: &str) -> io::Result<Vec<Event>> {
        match self.replies.get(sid) {
            Some(Some(t)) => { let (a, b) = t.split_at(t.len() / 2); let mk = |seq, kind| Event { id: format!("{sid}-{seq}"), session_id: sid.to_string(), timestamp_ms: 0, seq, kind };
                Ok(vec![mk(0, EventKind::SessionStarted { input: "i".into() }), mk(1, EventKind::OutputTextDelta { delta: a.to_string() }), mk(2, EventKind::OutputTextDelta { delta: b.to_string() }), mk(3, EventKind::SessionEnded { reason: "completed".into() })]) }
            Some(None) => Err(io::Error::new(io::ErrorKind::Other, "unreadable")),
            None => Ok(vec![]),
        }
    }
}
pub fn read_snapshot(_p: &PathBuf) -> io::Result<Vec<Event>> { Err(io::Error::new(io::ErrorKind::NotFound, "no snapshot")) }
fn is_valid_session_snapshot(_e: &[Event], _s: &str) -> bool { false }
//@@ item crates/ripd/src/context_bundle.rs const CONTEXT_BUNDLE_SCHEMA_V1
//@@ item crates/ripd/src/context_bundle.rs struct ContextBundleV1
//@@ item crates/ripd/src/context_bundle.rs struct ContextBundleCompilerV1
//@@ item crates/ripd/src/context_bundle.rs struct ContextBundleSourceV1
//@@ item crates/ripd/src/context_bundle.rs struct ContextBundleProvenanceV1
//@@ item crates/ripd/src/context_bundle.rs enum ContextBundleItemV1
impl ContextBundleV1 {
    //@@ fn crates/ripd/src/context_bundle.rs ContextBundleV1::new
    //@@ end
}
//@@ item crates/ripd/src/context_compiler.rs const CONTEXT_COMPILER_ID_V1
//@@ item crates/ripd/src/context_compiler.rs const CONTEXT_COMPILER_STRATEGY_RECENT_MESSAGES_V1
//@@ item crates/ripd/src/context_compiler.rs const CONTEXT_COMPILER_STRATEGY_SUMMARIES_RECENT_MESSAGES_V1
//@@ item crates/ripd/src/context_compiler.rs const CONTEXT_COMPILER_STRATEGY_HIERARCHICAL_SUMMARIES_RECENT_MESSAGES_V1
//@@ item crates/ripd/src/context_compiler.rs const RECENT_MESSAGES_V1_LIMIT
//@@ item crates/ripd/src/context_compiler.rs struct CompileRecentMessagesV1Request
//@@ item crates/ripd/src/context_compiler.rs struct CompileSummariesRecentMessagesV1Request
//@@ item crates/ripd/src/context_compiler.rs struct HierarchicalSummaryRefV1
//@@ item crates/ripd/src/context_compiler.rs struct CompileHierarchicalSummariesRecentMessagesV1Request
//@@ item crates/ripd/src/context_compiler.rs struct SelectedMessage
//@@ fn crates/ripd/src/context_compiler.rs compile_recent_messages_v1
//@@ end
//@@ fn crates/ripd/src/context_compiler.rs compile_summaries_recent_messages_v1
//@@ end
//@@ fn crates/ripd/src/context_compiler.rs compile_hierarchical_summaries_recent_messages_v1
//@@ end
//@@ fn crates/ripd/src/context_compiler.rs select_recent_messages
//@@ end
//@@ fn crates/ripd/src/context_compiler.rs select_recent_messages_after_seq
//@@ end
//@@ fn crates/ripd/src/context_compiler.rs ended_runs_by_message_id
//@@ end
//@@ fn crates/ripd/src/context_compiler.rs aggregate_session_output_text
//@@ end
//@@ fn crates/ripd/src/context_compiler.rs aggregate_output_text_from_events
//@@ end

const LIMIT: usize = 16;   // the documented limit (RECENT_MESSAGES_V1_LIMIT is checked against it below)
fn is_msg(e: &Event) -> bool { matches!(e.kind, EventKind::ContinuityMessageAppended { .. }) }
// frame codes: 0 message; 1 run-ended for the newest earlier message; 2 run-ended for the message before that; 3 run-spawned (other)
fn history(codes: &[u8]) -> Vec<Event> {
    let mut ev = vec![Event { id: "c0".into(), session_id: "t".into(), timestamp_ms: 0, seq: 0, kind: EventKind::ContinuityCreated { workspace: "ws".into(), title: None } }];
    let mut msgs: Vec<String> = Vec::new();
    for (i, c) in codes.iter().enumerate() {
        let seq = i as u64 + 1;
        let kind = match c {
            0 => { msgs.push(format!("m{seq}")); EventKind::ContinuityMessageAppended { actor_id: "u".into(), origin: "o".into(), content: format!("content {seq}") } }
            1 | 2 => { let k = *c as usize; if msgs.len() < k { EventKind::ContinuityRunSpawned { run_session_id: "none".into(), message_id: "none".into(), actor_id: None, origin: None } }
                       else { EventKind::ContinuityRunEnded { run_session_id: format!("run{seq}"), message_id: msgs[msgs.len() - k].clone(), reason: "completed".into(), actor_id: None, origin: None } } }
            _ => EventKind::ContinuityRunSpawned { run_session_id: format!("run{seq}"), message_id: msgs.last().cloned().unwrap_or("none".into()), actor_id: None, origin: None },
        };
        let id = if *c == 0 { format!("m{seq}") } else { format!("f{seq}") };
        ev.push(Event { id, session_id: "t".into(), timestamp_ms: 0, seq, kind });
    }
    ev
}
fn replies(ev: &[Event]) -> HashMap<String, Option<String>> {
    // reply text per run session: normally "reply of <session>"; sessions whose frame seq is divisible by 5 produced no text; by 7: unreadable
    ev.iter().filter_map(|e| match &e.kind { EventKind::ContinuityRunEnded { run_session_id, .. } => Some((run_session_id.clone(), if e.seq % 7 == 0 { None } else if e.seq % 5 == 0 { Some(String::new()) } else { Some(format!("reply of {run_session_id}")) })), _ => None }).collect()
}
#[derive(Debug, PartialEq, Clone)]
enum Item { Summary(String), User { seq: u64, id: String, content: String }, Assistant(String) }
fn expected(ev: &[Event], from_seq: u64, summaries: &[(String, u64)], rep: &HashMap<String, Option<String>>) -> Vec<Item> {
    let mut out: Vec<Item> = Vec::new();
    let mut sorted = summaries.to_vec(); sorted.sort_by_key(|s| s.1);          // summary references, oldest coverage first
    for s in &sorted { out.push(Item::Summary(s.0.clone())); }
    let after: Option<u64> = summaries.iter().map(|s| s.1).max();            // messages after the (latest) selected checkpoint
    let elig: Vec<&Event> = ev.iter().filter(|e| is_msg(e) && e.seq <= from_seq && after.map(|a| e.seq > a).unwrap_or(true)).collect();
    for m in &elig[elig.len().saturating_sub(LIMIT)..] {
        let EventKind::ContinuityMessageAppended { content, .. } = &m.kind else { unreachable!() };
        out.push(Item::User { seq: m.seq, id: m.id.clone(), content: content.clone() });
        // the run that answered it: the last run-ended frame at or before the cut point naming this message
        let run = ev.iter().filter(|e| e.seq <= from_seq).filter_map(|e| match &e.kind { EventKind::ContinuityRunEnded { run_session_id, message_id, .. } if *message_id == m.id => Some(run_session_id.clone()), _ => None }).last();
        if let Some(r) = run { if let Some(Some(t)) = rep.get(&r) { if !t.is_empty() { out.push(Item::Assistant(t.clone())); } } }
    }
    out
}
fn items_of(b: &ContextBundleV1) -> Vec<Item> {
    b.items.iter().map(|it| match it {
        ContextBundleItemV1::SummaryRef { artifact_id, .. } => Item::Summary(artifact_id.clone()),
        ContextBundleItemV1::Message { role, content, thread_seq, thread_event_id, .. } => if role == "user" { Item::User { seq: thread_seq.unwrap_or(u64::MAX), id: thread_event_id.clone().unwrap_or_default(), content: content.clone() } } else { Item::Assistant(content.clone()) },
    }).collect()
}
fn report(func: &str, codes: &[u8], from_seq: u64, summaries: &[(String, u64)], got: &[Item], want: &[Item], what: &str) -> ! {
    println!("WITNESS {{\"function\": {:?}, \"frames_after_creation\": {:?}, \"from_seq\": {}, \"summary_refs\": {:?}, \"bundle_items\": {:?}, \"expected_items\": {:?}, \"problem\": {:?}}}", func,
        codes.iter().map(|c| ["message", "run_ended(newest earlier message)", "run_ended(message before that)", "run_spawned"][*c as usize]).collect::<Vec<_>>(), from_seq, summaries, format!("{:?}", got), format!("{:?}", want), what);
    std::process::exit(0)
}
fn check(codes: &[u8]) {
    let ev = history(codes); let rep = replies(&ev); let log = EventLog { replies: rep.clone() }; let dir = PathBuf::from("/snap");
    let head = ev.last().unwrap().seq;
    for from_seq in 0..=head {
        // (1) recent_messages_v1
        let b = compile_recent_messages_v1(CompileRecentMessagesV1Request { continuity_id: "t", continuity_events: &ev, event_log: &log, snapshot_dir: &dir, from_seq, from_message_id: None, run_session_id: "r", actor_id: "u", origin: "o" }).unwrap();
        let want = expected(&ev, from_seq, &[], &rep);
        if items_of(&b) != want { report("compile_recent_messages_v1", codes, from_seq, &[], &items_of(&b), &want, "the bundle is not the most recent messages at or before the cut point, oldest first, each followed by the reply of the run that answered it"); }
        // frames appended after the cut point must not matter
        let cutlen = ev.iter().filter(|e| e.seq <= from_seq).count();
        let b2 = compile_recent_messages_v1(CompileRecentMessagesV1Request { continuity_id: "t", continuity_events: &ev[..cutlen], event_log: &log, snapshot_dir: &dir, from_seq, from_message_id: None, run_session_id: "r", actor_id: "u", origin: "o" }).unwrap();
        if items_of(&b2) != items_of(&b) { report("compile_recent_messages_v1", codes, from_seq, &[], &items_of(&b), &items_of(&b2), "the bundle depends on frames appended after the cut point"); }
        // (2) summaries_recent_messages_v1: one checkpoint at every to_seq <= from_seq
        for to in 0..=from_seq {
            let s = [("sum".to_string(), to)];
            let b = compile_summaries_recent_messages_v1(CompileSummariesRecentMessagesV1Request { continuity_id: "t", continuity_events: &ev, event_log: &log, snapshot_dir: &dir, from_seq, from_message_id: None, run_session_id: "r", actor_id: "u", origin: "o", summary_artifact_id: "sum", summary_to_seq: to }).unwrap();
            let want = expected(&ev, from_seq, &s, &rep);
            if items_of(&b) != want { report("compile_summaries_recent_messages_v1", codes, from_seq, &s, &items_of(&b), &want, "the bundle is not the summary reference plus the most recent messages after the checkpoint and at or before the cut point"); }
        }
        // (3) hierarchical: every non-empty set of up to three checkpoints, in every order given
        let tos: Vec<u64> = (0..=from_seq).collect();
        for a in &tos { for b_ in tos.iter().map(|x| Some(*x)).chain([None]) { for c in tos.iter().map(|x| Some(*x)).chain([None]) {
            if b_.is_none() && c.is_some() { continue; }
            let mut s: Vec<(String, u64)> = vec![(format!("s{a}"), *a)];
            if let Some(x) = b_ { if x == *a { continue; } s.push((format!("s{x}"), x)); }
            if let Some(x) = c { if s.iter().any(|y| y.1 == x) { continue; } s.push((format!("s{x}"), x)); }
            let b = compile_hierarchical_summaries_recent_messages_v1(CompileHierarchicalSummariesRecentMessagesV1Request { continuity_id: "t", continuity_events: &ev, event_log: &log, snapshot_dir: &dir, from_seq, from_message_id: None, run_session_id: "r", actor_id: "u", origin: "o",
                summaries: s.iter().map(|x| HierarchicalSummaryRefV1 { artifact_id: x.0.clone(), to_seq: x.1 }).collect() }).unwrap();
            let want = expected(&ev, from_seq, &s, &rep);
            if items_of(&b) != want { report("compile_hierarchical_summaries_recent_messages_v1", codes, from_seq, &s, &items_of(&b), &want, "the bundle is not the selected summary references plus the most recent messages after the latest selected checkpoint and at or before the cut point"); }
        } } }
    }
}
// selection kernels on their own: every stream of <= 6 frames, every cut, every checkpoint seq, limits 0..3
fn select_clauses() {
    let msg = |seq: u64| Event { id: format!("m{seq}"), session_id: "t".into(), timestamp_ms: 0, seq, kind: EventKind::ContinuityMessageAppended { actor_id: "u".into(), origin: "o".into(), content: format!("c{seq}") } };
    let other = |seq: u64| Event { id: format!("r{seq}"), session_id: "t".into(), timestamp_ms: 0, seq, kind: EventKind::ContinuityRunSpawned { run_session_id: "s".into(), message_id: "m".into(), actor_id: None, origin: None } };
    for n in 0..=6usize { for code in 0..(1usize << n) {
        let events: Vec<Event> = (0..n).map(|i| if (code >> i) & 1 == 1 { msg(i as u64) } else { other(i as u64) }).collect();
        for from in 0..=(n as u64) { for limit in 0..=3usize { for after in (0..=(n as u64)).map(Some).chain([None]) {
            let got: Vec<u64> = match after { None => select_recent_messages(&events, from, limit).iter().map(|m| m.seq).collect(), Some(a) => select_recent_messages_after_seq(&events, from, a, limit).iter().map(|m| m.seq).collect() };
            let all: Vec<u64> = events.iter().filter(|e| is_msg(e) && e.seq <= from && after.map(|a| e.seq > a).unwrap_or(true)).map(|e| e.seq).collect();
            let want: Vec<u64> = all[all.len().saturating_sub(limit)..].to_vec();
            if got != want {
                println!("WITNESS {{\"function\": \"{}\", \"message_frame_seqs\": {:?}, \"stream_len\": {}, \"from_seq\": {}, \"after_seq\": {:?}, \"limit\": {}, \"selected\": {:?}, \"expected\": {:?}}}",
                    if after.is_some() { "select_recent_messages_after_seq" } else { "select_recent_messages" }, events.iter().filter(|e| is_msg(e)).map(|e| e.seq).collect::<Vec<_>>(), n, from, after, limit, got, want);
                std::process::exit(0);
            }
        } } }
    } }
}
fn main() {
    select_clauses();
    if RECENT_MESSAGES_V1_LIMIT != LIMIT { println!("WITNESS {{\"function\": \"RECENT_MESSAGES_V1_LIMIT\", \"value\": {}, \"documented_limit\": {}}}", RECENT_MESSAGES_V1_LIMIT, LIMIT); return; }
    let max_len: usize = if std::env::var("VX_TIER").as_deref() == Ok("thorough") { 7 } else { 6 };
    for n in 0..=max_len { for code in 0..4usize.pow(n as u32) { let mut c = code; let codes: Vec<u8> = (0..n).map(|_| { let o = (c % 4) as u8; c /= 4; o }).collect(); check(&codes); } }
    // long threads, to reach the limit: 17..19 messages, each optionally answered, with stray frames
    for m in 17..=19usize { for pat in 0..4u8 {
        let mut codes: Vec<u8> = Vec::new();
        for i in 0..m { codes.push(0); if pat & 1 == 1 || i % 3 == 0 { codes.push(3); codes.push(1); } if pat & 2 == 2 && i % 4 == 1 { codes.push(2); } }
        // only a few cut points and checkpoints for the long ones
        let ev = history(&codes); let rep = replies(&ev); let log = EventLog { replies: rep.clone() }; let dir = PathBuf::from("/snap"); let head = ev.last().unwrap().seq;
        for from_seq in [head, head - 1, head / 2, 17, 1] {
            let b = compile_recent_messages_v1(CompileRecentMessagesV1Request { continuity_id: "t", continuity_events: &ev, event_log: &log, snapshot_dir: &dir, from_seq, from_message_id: None, run_session_id: "r", actor_id: "u", origin: "o" }).unwrap();
            let want = expected(&ev, from_seq, &[], &rep);
            if items_of(&b) != want { report("compile_recent_messages_v1", &codes, from_seq, &[], &items_of(&b), &want, "the bundle is not the most recent messages (at most the documented limit) at or before the cut point"); }
            for s in [vec![("a".to_string(), 1u64)], vec![("b".to_string(), 3), ("a".to_string(), 1)], vec![("a".to_string(), 1), ("c".to_string(), from_seq / 2), ("b".to_string(), 2)]] {
                if s.iter().any(|x| x.1 > from_seq) { continue; }
                let mut uniq = s.clone(); uniq.sort_by_key(|x| x.1); uniq.dedup_by_key(|x| x.1); if uniq.len() != s.len() { continue; }
                let b = compile_hierarchical_summaries_recent_messages_v1(CompileHierarchicalSummariesRecentMessagesV1Request { continuity_id: "t", continuity_events: &ev, event_log: &log, snapshot_dir: &dir, from_seq, from_message_id: None, run_session_id: "r", actor_id: "u", origin: "o",
                    summaries: s.iter().map(|x| HierarchicalSummaryRefV1 { artifact_id: x.0.clone(), to_seq: x.1 }).collect() }).unwrap();
                let want = expected(&ev, from_seq, &s, &rep);
                if items_of(&b) != want { report("compile_hierarchical_summaries_recent_messages_v1", &codes, from_seq, &s, &items_of(&b), &want, "the bundle is not the selected summary references plus the most recent messages (at most the documented limit) after the latest selected checkpoint"); }
            }
        }
    } }
}
