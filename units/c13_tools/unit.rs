//@@ unit c13_tools properties=C13,C14 bounded=write_tool.changes_no_file_but_the_one_its_automatic_checkpoint_covers
#![allow(unused_imports, dead_code, unused_variables, unused_mut)]
use vstd::prelude::*;

//@@ include prelude/path_model.rs
//@@ include prelude/strings.rs

verus! {

// ---- effect constraints: every file-system call of a tool receives a path lexically inside the workspace root ----
pub uninterp spec fn ws_root() -> Path;
pub open spec fn fs_ok(p: Path) -> bool { within(p, ws_root()) }

pub mod io { use vstd::prelude::*; verus! { pub struct Error { pub filler: u8 } } }
#[verifier::external_body] pub fn vfmt() -> String { unimplemented!() }        // R9
pub mod serde_json { use vstd::prelude::*; verus! { pub struct Value { pub filler: u8 } } }
pub struct J { pub filler: u8 }
#[verifier::external_body] pub fn vj<T>(t: &T) -> J { unimplemented!() }       // R6o
#[verifier::external_body] pub fn jnil() -> serde_json::Value { unimplemented!() }
#[verifier::external_body] pub fn jcons(j: J, rest: serde_json::Value) -> serde_json::Value { unimplemented!() }
pub mod uuid { use vstd::prelude::*; verus! {
    pub struct Uuid { pub filler: u8 }
    impl Uuid { #[verifier::external_body] pub fn new_v4() -> Uuid { unimplemented!() } }
} }
pub struct ToolInvocation { pub name: String, pub args: serde_json::Value, pub timeout_ms: Option<u64> }
pub struct ToolOutput { pub stdout: Vec<String>, pub stderr: Vec<String>, pub exit_code: i32, pub artifacts: Option<serde_json::Value> }
impl ToolOutput { #[verifier::external_body] pub fn failure(e: Vec<String>) -> ToolOutput { unimplemented!() } }
pub struct BuiltinToolConfig { pub workspace_root: PathBuf }
pub struct WriteArgs { pub path: String, pub content: String, pub append: Option<bool>, pub create: Option<bool>, pub atomic: Option<bool> }
#[verifier::external_body] pub fn parse_args(v: serde_json::Value) -> Result<WriteArgs, ToolOutput> { unimplemented!() }
#[verifier::external_body] pub fn normalize_rel_path(root: &Path, p: &Path) -> String { unimplemented!() }
// contract of builtins::resolve_path as proved in unit c13_resolvers
#[verifier::external_body]
pub fn resolve_path(root: &Path, raw: &str) -> (ret: Result<PathBuf, String>)
    ensures ret matches Ok(p) ==> within(p, *root) && exists|t: Seq<Component>| #![auto] comps(p) == comps(*root) + t && clean(t),
{ unimplemented!() }

impl Path {
    #[verifier::external_body]
    pub fn exists(&self) -> (r: bool)
        requires fs_ok(*self),                                                  // [fs.exists.requires_path_inside_root]
    { unimplemented!() }
    // parent drops the last component (std ignores a trailing `.`, so a path that names the root itself has the root's parent)
    #[verifier::external_body]
    pub fn parent(&self) -> (r: Option<&Path>)
        ensures r matches Some(q) ==> comps(*self).len() > 0 && comps(*q) == comps(*self).drop_last()
            && forall|base: Path| (#[trigger] within(*self, base) && comps(*self).len() > comps(base).len()) ==> within(*q, base),
    { unimplemented!() }
    // with_extension rewrites the last component: it stays a sibling of the same parent
    #[verifier::external_body]
    pub fn with_extension(&self, ext: String) -> (r: Path)
        ensures comps(*self).len() > 0 ==> (comps(r).len() == comps(*self).len() && comps(r).drop_last() == comps(*self).drop_last() && comps(r).last() is Normal),
            forall|base: Path| (#[trigger] within(*self, base) && comps(*self).len() > comps(base).len()) ==> within(r, base),
    { unimplemented!() }
}
pub struct File { pub filler: u8 }
impl File { #[verifier::external_body] pub fn write_all(&mut self, b: &[u8]) -> Result<(), io::Error> { unimplemented!() } }
pub struct OpenOptions { pub filler: u8 }
impl OpenOptions {
    #[verifier::external_body] pub fn new() -> OpenOptions { unimplemented!() }
    #[verifier::external_body] pub fn create(&mut self, c: bool) -> &mut OpenOptions { unimplemented!() }
    #[verifier::external_body] pub fn append(&mut self, c: bool) -> &mut OpenOptions { unimplemented!() }
    #[verifier::external_body]
    pub fn open(&self, p: &Path) -> Result<File, io::Error>
        requires fs_ok(*p),                                                     // [fs.open.requires_path_inside_root]
    { unimplemented!() }
}
pub mod fs {
    use super::*;
    verus! {
    #[verifier::external_body] pub fn create_dir_all(p: &Path) -> Result<(), io::Error>
        requires fs_ok(*p) || comps(*p).len() < comps(ws_root()).len(),        // creating ancestors of the root is a no-op on an existing workspace   // [fs.create_dir_all.requires_path_inside_root]
    { unimplemented!() }
    #[verifier::external_body] pub fn write(p: &Path, b: &[u8]) -> Result<(), io::Error>
        requires fs_ok(*p),                                                     // [fs.write.requires_path_inside_root]
    { unimplemented!() }
    #[verifier::external_body] pub fn remove_file(p: &Path) -> Result<(), io::Error>
        requires fs_ok(*p),                                                     // [fs.remove_file.requires_path_inside_root]
    { unimplemented!() }
    #[verifier::external_body] pub fn rename(a: &Path, b: &Path) -> Result<(), io::Error>
        requires fs_ok(*a) && fs_ok(*b),                                        // [fs.rename.requires_paths_inside_root]
    { unimplemented!() }
    } // verus!
}
pub assume_specification[ String::as_bytes ](s: &String) -> (r: &[u8]);
pub assume_specification<T, E>[ std::result::Result::<T, E>::unwrap_or ](r: Result<T, E>, d: T) -> (out: T)
    ensures out == (match r { Ok(v) => v, Err(_) => d });

//@@ fn crates/rip-tools/src/builtins/write.rs run_write rules=R6o,R9
//@@ sig
    requires config.workspace_root == ws_root(),
//@@ closure 0
    -> (r: bool) ensures r == (comps(*rel).len() > 0)
//@@ end

// ---- the foreground shell tool: the working directory given to the child process lies inside the root -------------------------
pub struct ShellArgs { pub command: String, pub cwd: Option<String>, pub env: Option<EnvMap>, pub max_bytes: Option<usize> }
pub struct EnvMap { pub filler: u8 }
pub struct ExitStatus { pub filler: u8 }
impl ExitStatus { #[verifier::external_body] pub fn code(&self) -> Option<i32> { unimplemented!() } }
pub struct ChildStream { pub filler: u8 }
pub struct ChildSlot { pub filler: u8 }
impl ChildSlot { #[verifier::external_body] pub fn take(&mut self) -> Option<ChildStream> { unimplemented!() } }
pub struct Child { pub stdout: ChildSlot, pub stderr: ChildSlot }
impl Child { #[verifier::external_body] pub fn wait(&mut self) -> Result<ExitStatus, std_io::Error> { unimplemented!() } }
pub mod std_io { use vstd::prelude::*; verus! { pub struct Error { pub filler: u8 } } }
pub struct Stdio { pub filler: u8 }
impl Stdio { #[verifier::external_body] pub fn piped() -> Stdio { unimplemented!() } }
pub struct Command { pub filler: u8 }
impl Command {
    #[verifier::external_body] pub fn new(p: &str) -> Command { unimplemented!() }
    #[verifier::external_body] pub fn args(&mut self, a: &[&str]) { unimplemented!() }
    #[verifier::external_body] pub fn stdout(&mut self, s: Stdio) { unimplemented!() }
    #[verifier::external_body] pub fn stderr(&mut self, s: Stdio) { unimplemented!() }
    #[verifier::external_body] pub fn envs(&mut self, e: &EnvMap) { unimplemented!() }
    #[verifier::external_body]
    pub fn current_dir(&mut self, p: PathBuf)
        requires fs_ok(p),                                                      // [process.current_dir.requires_path_inside_root]
    { unimplemented!() }
    #[verifier::external_body] pub fn spawn(&mut self) -> Result<Child, std_io::Error> { unimplemented!() }
}
pub struct StreamCapture { pub preview_lines: Vec<String> }
impl StreamCapture { #[verifier::external_body] pub fn as_json(&self) -> serde_json::Value { unimplemented!() } }
#[verifier::external_body] pub fn capture_stream(s: Option<ChildStream>, config: &BuiltinToolConfig, max: usize) -> StreamCapture { unimplemented!() }
#[verifier::external_body] pub fn resolve_path_str(root: &Path, raw: &str) -> (ret: Result<PathBuf, String>)
    ensures ret matches Ok(p) ==> within(p, *root),
{ unimplemented!() }
pub assume_specification<T: std::ops::Deref>[ std::option::Option::<T>::as_deref ](o: &Option<T>) -> (r: Option<&T::Target>);

//@@ fn crates/rip-tools/src/builtins/shell.rs run_command rules=R3,R6o,R9
//@@ alias std::process::Stdio::piped Stdio::piped
//@@ alias std::io::Error std_io::Error
//@@ alias resolve_path resolve_path_str
//@@ macro tokio::join
    (stdout_fut, stderr_fut, status_fut)
//@@ sig
    requires config.workspace_root == ws_root(),
//@@ end

} // verus!
fn main() {}
