// Replay enumerator for the write tool: the real run_write and the real builtins::resolve_path run natively on the real file system.
use std::cell::RefCell;
use std::fs::{self, OpenOptions};
use std::io::Write;
use std::path::{Component, Path, PathBuf};
pub mod serde_json { #[derive(Clone, Debug, Default)] pub struct Value; }
pub struct J;
pub fn vj<T>(_t: &T) -> J { J }
pub mod uuid { pub struct Uuid; impl Uuid { pub fn new_v4() -> Uuid { Uuid } } impl std::fmt::Display for Uuid { fn fmt(&self, f: &mut std::fmt::Formatter<'_>) -> std::fmt::Result { write!(f, "u") } } }
macro_rules! json { ($($t:tt)*) => { serde_json::Value } }
pub struct ToolInvocation { pub name: String, pub args: serde_json::Value, pub timeout_ms: Option<u64> }
#[derive(Debug)]
pub struct ToolOutput { pub stdout: Vec<String>, pub stderr: Vec<String>, pub exit_code: i32, pub artifacts: Option<serde_json::Value> }
impl ToolOutput { pub fn failure(e: Vec<String>) -> ToolOutput { ToolOutput { stdout: vec![], stderr: e, exit_code: 1, artifacts: None } } }
pub struct BuiltinToolConfig { pub workspace_root: PathBuf }
#[derive(Clone)]
pub struct WriteArgs { pub path: String, pub content: String, pub append: Option<bool>, pub create: Option<bool>, pub atomic: Option<bool> }
thread_local! { static ARGS: RefCell<Option<WriteArgs>> = RefCell::new(None); }
pub fn parse_args(_v: serde_json::Value) -> Result<WriteArgs, ToolOutput> { Ok(ARGS.with(|a| a.borrow().clone().unwrap())) }
pub fn normalize_rel_path(root: &Path, path: &Path) -> String { path.strip_prefix(root).unwrap_or(path).to_string_lossy().replace('\\', "/") }
//@@ fn crates/rip-tools/src/builtins/mod.rs resolve_path
//@@ end
//@@ fn crates/rip-tools/src/builtins/write.rs run_write
//@@ end
// the foreground shell tool: no process is started; the stand-in records the working directory it was given
pub struct ShellArgs { pub command: String, pub cwd: Option<String>, pub env: Option<std::collections::HashMap<String, String>>, pub max_bytes: Option<usize> }
thread_local! { static CWD: RefCell<Option<PathBuf>> = RefCell::new(None); }
pub struct ExitStatus; impl ExitStatus { pub fn code(&self) -> Option<i32> { Some(0) } }
pub struct Child { pub stdout: Option<()>, pub stderr: Option<()> }
impl Child { pub fn wait(&mut self) -> Result<ExitStatus, std::io::Error> { Ok(ExitStatus) } }
pub struct Command;
impl Command {
    pub fn new(_p: &str) -> Command { Command } pub fn args(&mut self, _a: &[&str]) {} pub fn stdout(&mut self, _s: std::process::Stdio) {} pub fn stderr(&mut self, _s: std::process::Stdio) {}
    pub fn envs(&mut self, _e: &std::collections::HashMap<String, String>) {}
    pub fn current_dir(&mut self, p: PathBuf) { CWD.with(|c| *c.borrow_mut() = Some(p)); }
    pub fn spawn(&mut self) -> Result<Child, std::io::Error> { Ok(Child { stdout: Some(()), stderr: Some(()) }) }
}
pub struct StreamCapture { pub preview_lines: Vec<String> }
impl StreamCapture { pub fn as_json(&self) -> serde_json::Value { serde_json::Value } }
pub fn capture_stream(_s: Option<()>, _c: &BuiltinToolConfig, _m: usize) -> StreamCapture { StreamCapture { preview_lines: vec![] } }
pub mod tokio { macro_rules! join { ($a:expr, $b:expr, $c:expr) => { ($a, $b, $c) } } pub(crate) use join; }
//@@ fn crates/rip-tools/src/builtins/shell.rs run_command rules=R3
//@@ end
fn shell_clause() -> bool {
    let root = PathBuf::from("/ws/root");
    for cwd in ["", ".", "sub", "sub/deeper/", "./sub", "..", "../x", "sub/../..", "sub/../../etc", "/", "/etc", "//x", "a/./b", " ", "..\\x"] {
        CWD.with(|c| *c.borrow_mut() = None);
        let args = ShellArgs { command: "true".into(), cwd: Some(cwd.to_string()), env: None, max_bytes: None };
        let cfg = BuiltinToolConfig { workspace_root: root.clone() };
        let _ = run_command("bash", &["-c", "true"], &args, &cfg, 64);
        if let Some(d) = CWD.with(|c| c.borrow().clone()) {
            let inside = d.strip_prefix(&root).map(|r| !r.components().any(|c| matches!(c, Component::ParentDir | Component::RootDir | Component::Prefix(_)))).unwrap_or(false);
            if !inside { println!("WITNESS {{\"function\": \"run_command\", \"cwd_argument\": {:?}, \"working_directory_given_to_the_child\": {:?}, \"workspace_root\": \"/ws/root\"}}", cwd, d); return true; }
        }
    }
    false
}

fn listing(p: &Path) -> Vec<String> {
    let mut out = vec![];
    fn walk(p: &Path, base: &Path, out: &mut Vec<String>) { if let Ok(rd) = fs::read_dir(p) { for e in rd.flatten() { let q = e.path(); out.push(q.strip_prefix(base).unwrap().to_string_lossy().to_string()); if q.is_dir() { walk(&q, base, out); } } } }
    walk(p, p, &mut out); out.sort(); out
}
fn main() {
    if shell_clause() { return; }
    let base = std::env::temp_dir().join(format!("rip-verif-c13w-{}", std::process::id()));
    let _ = fs::remove_dir_all(&base);
    let paths = ["", ".", "./", "a.txt", "d/b.txt", "./d/./b.txt", "d", "d/", "d/.", "..", "../x", "/etc/x", "a.txt/.", ".hidden", " ", "a b"];
    let mut case = 0;
    for p in paths { for append in [None, Some(true)] { for atomic in [None, Some(false)] { for create in [None, Some(false)] {
        case += 1;
        let outer = base.join(format!("c{case}")); let root = outer.join("ws");
        fs::create_dir_all(root.join("d")).unwrap(); fs::write(root.join("a.txt"), "old").unwrap();
        // files next to every possible target, named like a staging file could be named: the tool must leave them alone
        for sib in ["a.txt.tmp", "a.tmp", "a.txt~", "d/b.txt.tmp", "d/b.tmp", ".hidden.tmp", "a b.tmp", "d/keep.txt"] { fs::write(root.join(sib), "keep").unwrap(); }
        let files_before: std::collections::BTreeMap<String, Vec<u8>> = listing(&root).into_iter().filter_map(|e| fs::read(root.join(&e)).ok().map(|b| (e, b))).collect();
        ARGS.with(|a| *a.borrow_mut() = Some(WriteArgs { path: p.to_string(), content: "x".into(), append, create, atomic }));
        let cfg = BuiltinToolConfig { workspace_root: root.clone() };
        let out = run_write(ToolInvocation { name: "write".into(), args: serde_json::Value, timeout_ms: None }, &cfg);
        let outside: Vec<String> = listing(&outer).into_iter().filter(|e| e != "ws" && !e.starts_with("ws/")).collect();
        if !outside.is_empty() {
            println!("WITNESS {{\"function\": \"run_write\", \"path_argument\": {:?}, \"append\": {:?}, \"atomic\": {:?}, \"create\": {:?}, \"exit_code\": {}, \"created_outside_the_workspace_root\": {:?}}}", p, append, atomic, create, out.exit_code, outside);
            let _ = fs::remove_dir_all(&base); return;
        }
        // the write tool changes no file but the one named by its path argument - the file its automatic checkpoint covers
        // (files_for_invocation: exactly [path]); anything else it touched could not be brought back by a rewind
        let files_after: std::collections::BTreeMap<String, Vec<u8>> = listing(&root).into_iter().filter_map(|e| fs::read(root.join(&e)).ok().map(|b| (e, b))).collect();
        let target: String = Path::new(p).components().filter(|c| matches!(c, std::path::Component::Normal(_))).map(|c| c.as_os_str().to_string_lossy().to_string()).collect::<Vec<_>>().join("/");
        let mut touched: Vec<String> = Vec::new();
        for (k, v) in &files_before { if files_after.get(k) != Some(v) { touched.push(k.clone()); } }
        for k in files_after.keys() { if !files_before.contains_key(k) { touched.push(k.clone()); } }
        touched.retain(|k| *k != target);
        if !touched.is_empty() {
            println!("WITNESS {{\"function\": \"run_write\", \"path_argument\": {:?}, \"append\": {:?}, \"atomic\": {:?}, \"create\": {:?}, \"exit_code\": {}, \"files_changed_besides_the_target\": {:?}, \"problem\": \"the write tool changed a file its automatic checkpoint does not cover\"}}", p, append, atomic, create, out.exit_code, touched);
            let _ = fs::remove_dir_all(&base); return;
        }
        let _ = fs::remove_dir_all(&outer);
    } } } }
    let _ = fs::remove_dir_all(&base);
}
