//@@ unit c01_task properties=C01 nodegrade
#![allow(unused_imports, dead_code, unused_variables, unused_mut)]
use vstd::prelude::*;

//@@ include prelude/kernel_model.rs
//@@ include prelude/seq_discipline.rs

verus! {

#[verifier::external_body] pub fn now_ms() -> u64 { unimplemented!() }
pub struct Uuid { pub filler: u8 }
impl Uuid {
    #[verifier::external_body] pub fn new_v4() -> Uuid { unimplemented!() }
    #[verifier::external_body] pub fn to_string(&self) -> String { unimplemented!() }
}
pub struct SendError { pub filler: u8 }
pub struct Sender { pub filler: u8 }
impl Sender { #[verifier::external_body] pub fn send(&self, e: Event) -> Result<usize, SendError> { unimplemented!() } }

// the per-task counter behind a tokio Mutex: the guard dereferences to the counter; while the guard is alive the value it
// shows is the task stream's next free seq (timeless fact `reserved`, as for the continuity counter map)
pub struct TaskSeqGuard { pub val: u64, pub stream: Ghost<Seq<char>> }
impl std::ops::Deref for TaskSeqGuard { type Target = u64; fn deref(&self) -> (r: &u64) ensures *r == self.val { &self.val } }
impl std::ops::DerefMut for TaskSeqGuard { fn deref_mut(&mut self) -> (r: &mut u64) ensures *r == old(self).val { &mut self.val } }
pub struct TaskSeqMutex { pub stream: Ghost<Seq<char>> }
impl TaskSeqMutex {
    #[verifier::external_body]
    pub fn lock(&self) -> (g: TaskSeqGuard)
        ensures reserved(self.stream@, g.val), g.val < u64::MAX, g.stream@ == self.stream@,
    { unimplemented!() }
}
pub struct EventsGuard { pub filler: u8 }
impl EventsGuard { #[verifier::external_body] pub fn push(&mut self, e: Event) { unimplemented!() } }
pub struct EventsMutex { pub filler: u8 }
impl EventsMutex { #[verifier::external_body] pub fn lock(&self) -> EventsGuard { unimplemented!() } }

pub struct TaskEmitter { pub task_id: String, pub sender: Sender, pub events: EventsMutex, pub seq: TaskSeqMutex, pub event_log: EventLog }

impl TaskEmitter {
    pub open spec fn wf(&self) -> bool { self.seq.stream@ == self.task_id@ }

    //@@ fn crates/ripd/src/tasks/mod.rs TaskEmitter::emit rules=R3
    //@@ sig
        requires self.wf(),
        // the frame that takes the stream's next seq is handed to the truth log (a frame that is only broadcast would leave a gap there)
        ensures exists|s: u64| reserved(self.task_id@, s) && #[trigger] offered(self.task_id@, s),      // [task_emit.the_frame_that_takes_the_next_seq_is_handed_to_the_truth_log]
    //@@ end
}

} // verus!
fn main() {}
