// Replay enumerator for TaskEmitter::emit: real text (R3: async dropped); mutexes are std mutexes, the three sinks record.
use std::cell::RefCell;
use std::sync::Arc;
//@@ include prelude/kernel_model_plain.rs
pub struct Uuid;
impl Uuid { pub fn new_v4() -> Uuid { Uuid } }
impl std::fmt::Display for Uuid { fn fmt(&self, f: &mut std::fmt::Formatter<'_>) -> std::fmt::Result { write!(f, "id") } }
pub fn now_ms() -> u64 { 0 }
pub struct Mutex<T> { inner: std::sync::Mutex<T> }
impl<T> Mutex<T> { pub fn new(t: T) -> Self { Mutex { inner: std::sync::Mutex::new(t) } } pub fn lock(&self) -> std::sync::MutexGuard<'_, T> { self.inner.lock().unwrap() } }
#[derive(Clone)] pub struct Sender { pub sent: RefCell<Vec<u64>> }
impl Sender { pub fn send(&self, e: Event) -> Result<usize, ()> { self.sent.borrow_mut().push(e.seq); Ok(0) } }
pub mod broadcast { pub type Sender<T> = super::SenderOf<T>; }
#[derive(Clone)] pub struct SenderOf<T> { pub inner: Sender, pub _p: std::marker::PhantomData<T> }
impl SenderOf<Event> { pub fn send(&self, e: Event) -> Result<usize, ()> { self.inner.send(e) } }
pub struct EventLog { pub appended: RefCell<Vec<Event>>, pub fail: bool }
impl EventLog { pub fn append(&self, e: &Event) -> Result<(), String> { if self.fail { return Err("disk".into()); } self.appended.borrow_mut().push(e.clone()); Ok(()) } }
//@@ item crates/ripd/src/tasks/mod.rs struct TaskEmitter
impl TaskEmitter {
    //@@ fn crates/ripd/src/tasks/mod.rs TaskEmitter::emit rules=R3
    //@@ end
}
fn main() {
    for start in [0u64, 3] { for n in 0..=4usize { for fail in [false, true] {
        let em = TaskEmitter { task_id: "task".into(), sender: SenderOf { inner: Sender { sent: RefCell::new(vec![]) }, _p: std::marker::PhantomData }, events: Arc::new(Mutex::new(Vec::new())), seq: Arc::new(Mutex::new(start)), event_log: Arc::new(EventLog { appended: RefCell::new(vec![]), fail }) };
        for i in 0..n { em.emit(EventKind::ToolTaskCancelRequested { task_id: format!("t{i}"), reason: String::new() }); }
        let want: Vec<u64> = (0..n as u64).map(|i| start + i).collect();
        let buf: Vec<u64> = em.events.lock().iter().map(|e| e.seq).collect();
        let logged: Vec<u64> = em.event_log.appended.borrow().iter().map(|e| e.seq).collect();
        let sent = em.sender.inner.sent.borrow().clone();
        let streams_ok = em.events.lock().iter().all(|e| e.session_id == "task");
        if buf != want || sent != want || (!fail && logged != want) || *em.seq.lock() != start + n as u64 || !streams_ok {
            println!("WITNESS {{\"function\": \"TaskEmitter::emit\", \"counter_at_start\": {}, \"emits\": {}, \"log_append_fails\": {}, \"buffered_seqs\": {:?}, \"broadcast_seqs\": {:?}, \"logged_seqs\": {:?}, \"counter_after\": {}, \"problem\": \"the task stream's frames are not numbered consecutively on its own stream in every sink\"}}", start, n, fail, buf, sent, logged, *em.seq.lock());
            return;
        }
    } } }
}
