//@@ unit c17_capture properties=C17
#![allow(unused_imports, dead_code, unused_variables, unused_mut)]
#![feature(pattern)]
#![verifier::allow(undeclared_external_trait)]
use vstd::prelude::*;

//@@ include prelude/utf8_model.rs

verus! {

global size_of usize == 8;

#[verifier::external_type_specification]
#[verifier::external_body]
pub struct ExLines<'a>(std::str::Lines<'a>);
pub assume_specification<'a>[ str::lines ](s: &'a str) -> (r: std::str::Lines<'a>)
    ensures vstd::std_specs::iter::IteratorSpec::obeys_prophetic_iter_laws(&r);
pub assume_specification<'a, P: std::str::pattern::Pattern>[ str::trim_end_matches ](s: &'a str, pat: P) -> &'a str
    where for<'b> P::Searcher<'b>: std::str::pattern::ReverseSearcher<'b>;

// ---- stubs (R8; trusted) ----------------------------------------------------------------------
pub struct IoError { pub filler: u8 }
#[verifier::external_body]
pub fn vfmt() -> String { unimplemented!() }      // R9

pub trait AsyncRead: Sized {
    spec fn produced(&self) -> Seq<u8>;
    fn read(&mut self, buf: &mut Vec<u8>) -> (r: Result<usize, IoError>)
        ensures
            final(buf)@.len() == old(buf)@.len(),
            match r {
                Ok(n) => n <= old(buf)@.len() && final(self).produced() == old(self).produced() + final(buf)@.subrange(0, n as int),
                Err(_) => final(self).produced() == old(self).produced(),
            };
}

// artifact file: ghost view of the bytes written; `poisoned` once a write failed (content then unknown)
pub struct File { pub filler: u8 }
impl File {
    pub uninterp spec fn view(&self) -> Seq<u8>;
    pub uninterp spec fn poisoned(&self) -> bool;
    #[verifier::external_body]
    pub fn create(p: &PathBuf) -> (r: Result<File, IoError>)
        ensures r matches Ok(f) ==> f@.len() == 0 && !f.poisoned(),
    { unimplemented!() }
    #[verifier::external_body]
    pub fn write_all(&mut self, b: &[u8]) -> (r: Result<(), IoError>)
        ensures
            r is Ok ==> final(self)@ == old(self)@ + b@ && final(self).poisoned() == old(self).poisoned(),
            r is Err ==> final(self).poisoned(),
    { unimplemented!() }
}
pub struct Digest { pub filler: u8 }
pub uninterp spec fn sha256_of(b: Seq<u8>) -> Digest;
pub uninterp spec fn hex_of(d: Digest) -> Seq<char>;
pub struct Sha256 { pub filler: u8 }
impl Sha256 {
    pub uninterp spec fn view(&self) -> Seq<u8>;
    #[verifier::external_body]
    pub fn new() -> (r: Sha256) ensures r@.len() == 0 { unimplemented!() }
    #[verifier::external_body]
    pub fn update(&mut self, b: &[u8]) ensures final(self)@ == old(self)@ + b@ { unimplemented!() }
    #[verifier::external_body]
    pub fn finalize(self) -> (d: Digest) ensures d == sha256_of(self@) { unimplemented!() }
}
pub mod hex {
    use super::*;
    verus! {
    #[verifier::external_body]
    pub fn encode(d: Digest) -> (s: String) ensures s@ == hex_of(d) { unimplemented!() }
    } // verus!
}
pub struct Uuid { pub filler: u8 }
impl Uuid { #[verifier::external_body] pub fn new_v4() -> Uuid { unimplemented!() } }

pub struct PathBuf { pub filler: u8 }
pub type Path = PathBuf;
pub trait JoinArg: Sized {}
impl<'a> JoinArg for &'a str {}
impl JoinArg for String {}
impl<'a> JoinArg for &'a String {}
impl PathBuf {
    #[verifier::external_body] pub fn join<P: JoinArg>(&self, s: P) -> PathBuf { unimplemented!() }
}
pub mod std_path { pub use super::PathBuf; }
pub struct Metadata { pub filler: u8 }
pub mod tokio { pub mod fs {
    use super::super::*;
    pub use super::super::File;
    verus! {
    #[verifier::external_body] pub fn create_dir_all(p: &PathBuf) -> Result<(), IoError> { unimplemented!() }
    #[verifier::external_body] pub fn remove_file<P>(p: P) -> Result<(), IoError> { unimplemented!() }
    #[verifier::external_body] pub fn metadata(p: &PathBuf) -> Result<Metadata, IoError> { unimplemented!() }
    #[verifier::external_body] pub fn rename(a: &PathBuf, b: &PathBuf) -> Result<(), IoError> { unimplemented!() }
    } // verus!
} }
pub struct BuiltinToolConfig { pub workspace_root: PathBuf, pub artifact_max_bytes: usize }
impl BuiltinToolConfig { #[verifier::external_body] pub fn artifacts_root(&self) -> PathBuf { unimplemented!() } }
#[verifier::external_body]
pub fn path_rel(root: &PathBuf, path: &PathBuf) -> String { unimplemented!() }

// UTF-8 truncation is decided in unit c17_truncate; here only its size contract matters
#[verifier::external_body]
pub fn truncate_utf8(bytes: &[u8], max_bytes: usize) -> (r: (String, bool, usize))
    ensures r.2 <= bytes@.len() && r.2 <= max_bytes,
{ unimplemented!() }

//@@ item crates/rip-tools/src/builtins/shell.rs struct StreamArtifactRef
//@@ item crates/rip-tools/src/builtins/shell.rs struct StreamCapture

impl StreamCapture {
    //@@ fn crates/rip-tools/src/builtins/shell.rs StreamCapture::failed
    //@@ sig
        ensures ret.artifact is None && ret.error is Some && ret.bytes_preview == 0,
    //@@ end
}

pub open spec fn min_int(a: int, b: int) -> int { if a <= b { a } else { b } }
pub open spec fn sat_u64(a: int) -> int { if a <= u64::MAX { a } else { u64::MAX as int } }

//@@ fn crates/rip-tools/src/builtins/shell.rs write_artifact_tail rules=R3
//@@ alias tokio::fs::File File
//@@ sig
    requires
        *old(stored_bytes) <= max_bytes,
    ensures
        // appends exactly the part of the chunk that still fits under the cap, to file and hasher alike
        ret is Ok ==> {
            let take = min_int(max_bytes as int - *old(stored_bytes) as int, chunk@.len() as int);
            &&& final(file)@ == old(file)@ + chunk@.subrange(0, take)
            &&& final(hasher)@ == old(hasher)@ + chunk@.subrange(0, take)
            &&& *final(stored_bytes) == *old(stored_bytes) + take
            &&& final(file).poisoned() == old(file).poisoned()
        },                                                                                          // [write_artifact_tail.appends_prefix_up_to_cap]
        ret is Err ==> final(file).poisoned(),                                                      // [write_artifact_tail.error_poisons]
        *final(stored_bytes) <= max_bytes,                                                          // [write_artifact_tail.stored_within_cap]
//@@ entry
    proof {
        assert(old(file)@ + chunk@.subrange(0, 0) =~= old(file)@);
        assert(old(hasher)@ + chunk@.subrange(0, 0) =~= old(hasher)@);
    }
//@@ end

//@@ fn crates/rip-tools/src/builtins/shell.rs finalize_artifact rules=R3
//@@ alias tokio::fs::File File
//@@ alias std::path::PathBuf PathBuf
//@@ sig
    ensures
        ret matches Some(a) ==> (hasher matches Some(h) && a.id@ == hex_of(sha256_of(h@))),        // [finalize_artifact.named_by_hash_of_hashed_bytes]
        ret matches Some(a) ==> a.bytes == stored_bytes && a.truncated == (bytes_total > stored_bytes),   // [finalize_artifact.bytes_and_truncation_flag]
//@@ end

// bytes of the process output that belong in the preview / in the artifact
pub open spec fn prefix(t: Seq<u8>, n: int) -> Seq<u8> { t.subrange(0, min_int(n, t.len() as int)) }

//@@ fn crates/rip-tools/src/builtins/shell.rs capture_stream rules=R3,R9 attr=verifier::exec_allows_no_decreases_clause
//@@ alias std::str::from_utf8 from_utf8
//@@ alias String::from_utf8_lossy from_utf8_lossy
//@@ alias tokio::fs::File File
//@@ alias std::path::PathBuf PathBuf
//@@ sig
    requires
        stream matches Some(s) ==> s.produced().len() == 0,     // a fresh pipe: nothing has been read from it yet
    ensures
        ret.bytes_preview <= max_preview_bytes,                   // [capture_stream.preview_within_its_limit]
//@@ loop 0
    invariant
        buf@.len() == 8192,
        bytes_total == sat_u64(stream.produced().len() as int),                                                   // [capture_stream.loop.total_counts_every_byte]
        !preview_full ==> (preview@ == stream.produced() && (preview@.len() < max_preview_bytes || preview@.len() == 0)),   // [capture_stream.loop.preview_is_everything_while_not_full]
        preview_full ==> (preview@.len() <= max_preview_bytes && preview@ == stream.produced().subrange(0, preview@.len() as int) && stream.produced().len() >= max_preview_bytes),   // [capture_stream.loop.preview_is_prefix_within_limit]
        (tmp_file is Some) == (hasher is Some),
        (tmp_file is Some) == (tmp_path is Some),
        tmp_file is None ==> stored_bytes == 0,
        (preview_full && config.artifact_max_bytes > 0) ==> tmp_file is Some,
        tmp_file matches Some(f) ==> (preview_full && config.artifact_max_bytes > 0 && stored_bytes <= config.artifact_max_bytes
            && (!f.poisoned() ==> (f@ == prefix(stream.produced(), config.artifact_max_bytes as int)
                && hasher is Some && hasher->Some_0@ == f@
                && stored_bytes == min_int(config.artifact_max_bytes as int, stream.produced().len() as int)))),   // [capture_stream.loop.artifact_is_prefix_up_to_cap_and_hashed]
//@@ loopbody 0
    let ghost tb: Seq<u8> = stream.produced();
//@@ before continue 2
    proof {
        // hand-over from preview to artifact: the file holds preview[..initial] ++ (rest of this chunk up to the cap)
        let t = stream.produced();
        assert(t == tb + chunk@);
        assert(preview@ =~= t.subrange(0, preview@.len() as int));
        assert(preview_before == tb.len());
        assert(already_in_preview == preview@.len() - tb.len());     // [capture_stream.loop.artifact_is_prefix_up_to_cap_and_hashed]
        assert(remainder@ =~= t.subrange(preview@.len() as int, t.len() as int));     // [capture_stream.loop.artifact_is_prefix_up_to_cap_and_hashed]
        if !tmp_file->Some_0.poisoned() {
            assert(tmp_file->Some_0@ =~= prefix(t, config.artifact_max_bytes as int));     // [capture_stream.loop.artifact_is_prefix_up_to_cap_and_hashed]
        }
    }
//@@ afterloop 0
    proof {
        // the clauses of the property, at the point where the stream is exhausted
        assert(preview@.len() <= max_preview_bytes && preview@.len() <= stream.produced().len() && preview@ == stream.produced().subrange(0, preview@.len() as int));   // [capture_stream.preview_is_prefix_of_output_within_limit]
        assert(tmp_file matches Some(f) ==> (!f.poisoned() ==> (f@ == prefix(stream.produced(), config.artifact_max_bytes as int)
            && hasher is Some && hasher->Some_0@ == f@ && stored_bytes == f@.len())));                                 // [capture_stream.artifact_bytes_are_prefix_up_to_cap_and_hash_covers_them]
    }
//@@ end

} // verus!
fn main() {}
