// Replay enumerator for the foreground shell capture: real text (R3: async dropped) of capture_stream, write_artifact_tail,
// finalize_artifact, StreamCapture::failed, path_rel, BuiltinToolConfig::artifacts_root and truncate_utf8 (rip-tools copy) over a
// scripted reader and an in-memory file system; the hash stand-in is a deterministic function of the bytes fed to it.
use std::cell::RefCell;
use std::collections::HashMap;
use std::path::{Path, PathBuf};
thread_local! { static FS: RefCell<HashMap<PathBuf, Vec<u8>>> = RefCell::new(HashMap::new()); static CTR: RefCell<u64> = RefCell::new(0); }
pub struct IoError;
impl std::fmt::Display for IoError { fn fmt(&self, f: &mut std::fmt::Formatter<'_>) -> std::fmt::Result { write!(f, "io") } }
pub trait AsyncRead { fn read(&mut self, buf: &mut [u8]) -> Result<usize, IoError>; }
pub struct Reader { pub src: Vec<u8>, pub pos: usize, pub sizes: Vec<usize>, pub step: usize, pub fail_at: Option<usize> }
impl AsyncRead for Reader {
    fn read(&mut self, buf: &mut [u8]) -> Result<usize, IoError> {
        if self.fail_at == Some(self.step) { return Err(IoError); }
        let n = self.sizes.get(self.step).copied().unwrap_or(usize::MAX); self.step += 1;
        let k = n.min(self.src.len() - self.pos).min(buf.len()); buf[..k].copy_from_slice(&self.src[self.pos..self.pos + k]); self.pos += k; Ok(k)
    }
}
pub struct File { pub path: PathBuf }
impl File { pub fn write_all(&mut self, b: &[u8]) -> Result<(), IoError> { FS.with(|fs| fs.borrow_mut().entry(self.path.clone()).or_default().extend_from_slice(b)); Ok(()) } }
pub mod tokio { pub mod fs {
    use super::super::*;
    pub use super::super::File;
    impl File { pub fn create(p: &PathBuf) -> Result<File, IoError> { FS.with(|fs| fs.borrow_mut().insert(p.clone(), Vec::new())); Ok(File { path: p.clone() }) } }
    pub fn create_dir_all(_p: &PathBuf) -> Result<(), IoError> { Ok(()) }
    pub fn remove_file<P: AsRef<Path>>(p: P) -> Result<(), IoError> { FS.with(|fs| fs.borrow_mut().remove(p.as_ref())); Ok(()) }
    pub fn metadata(p: &PathBuf) -> Result<(), IoError> { if FS.with(|fs| fs.borrow().contains_key(p)) { Ok(()) } else { Err(IoError) } }
    pub fn rename(a: &PathBuf, b: &PathBuf) -> Result<(), IoError> { FS.with(|fs| { let mut fs = fs.borrow_mut(); let v = fs.remove(a).ok_or(IoError)?; fs.insert(b.clone(), v); Ok(()) }) }
} }
pub struct Sha256 { pub fed: Vec<u8> }
impl Sha256 { pub fn new() -> Self { Sha256 { fed: vec![] } } pub fn update(&mut self, b: &[u8]) { self.fed.extend_from_slice(b); } pub fn finalize(self) -> Vec<u8> { digest(&self.fed) } }
pub fn digest(b: &[u8]) -> Vec<u8> { let mut h: u64 = 0xcbf29ce484222325; for x in b { h ^= *x as u64; h = h.wrapping_mul(0x100000001b3); } let mut v = h.to_be_bytes().to_vec(); v.push(b.len() as u8); v }
pub mod hex { pub fn encode(d: Vec<u8>) -> String { d.iter().map(|b| format!("{b:02x}")).collect() } }
pub struct Uuid;
impl Uuid { pub fn new_v4() -> Uuid { Uuid } }
impl std::fmt::Display for Uuid { fn fmt(&self, f: &mut std::fmt::Formatter<'_>) -> std::fmt::Result { let n = CTR.with(|c| { *c.borrow_mut() += 1; *c.borrow() }); write!(f, "uuid-{n}") } }
//@@ item crates/rip-tools/src/builtins/mod.rs struct BuiltinToolConfig
impl BuiltinToolConfig {
    //@@ fn crates/rip-tools/src/builtins/mod.rs BuiltinToolConfig::artifacts_root
    //@@ end
}
//@@ fn crates/rip-tools/src/builtins/mod.rs truncate_utf8
//@@ end
//@@ item crates/rip-tools/src/builtins/shell.rs struct StreamArtifactRef
//@@ item crates/rip-tools/src/builtins/shell.rs struct StreamCapture
impl StreamCapture {
    //@@ fn crates/rip-tools/src/builtins/shell.rs StreamCapture::failed
    //@@ end
}
//@@ fn crates/rip-tools/src/builtins/shell.rs path_rel
//@@ end
//@@ fn crates/rip-tools/src/builtins/shell.rs write_artifact_tail rules=R3
//@@ end
//@@ fn crates/rip-tools/src/builtins/shell.rs finalize_artifact rules=R3
//@@ end
//@@ fn crates/rip-tools/src/builtins/shell.rs capture_stream rules=R3
//@@ end

fn main() {
    let texts: [&[u8]; 4] = [b"ab\ncdefgh", "a\u{e9}\u{20ac}b\u{1f600}c\r\nz".as_bytes(), &[0x61, 0xFF, 0x80, 0x62, 0xC3, 0x28, 0x63], b""];
    let sizes = [1usize, 2, 3, 5, usize::MAX];
    for src in texts { for acap in [0usize, 1, 3, 6, 64] { for preview in [0usize, 1, 2, 4, 5, 64] { for slen in 0..=3usize { for code in 0..sizes.len().pow(slen as u32) { for fail_at in [None, Some(0usize), Some(2)] {
        let mut c = code; let script: Vec<usize> = (0..slen).map(|_| { let s = sizes[c % sizes.len()]; c /= sizes.len(); s }).collect();
        FS.with(|fs| fs.borrow_mut().clear());
        let cfg = BuiltinToolConfig { workspace_root: PathBuf::from("/ws"), artifact_max_bytes: acap, max_bytes: 64, max_results: 10, max_depth: 4, follow_symlinks: false, include_hidden: false };
        let cap = capture_stream(Some(Reader { src: src.to_vec(), pos: 0, sizes: script.clone(), step: 0, fail_at }), &cfg, preview);
        let files: Vec<(PathBuf, Vec<u8>)> = FS.with(|fs| fs.borrow().iter().map(|(k, v)| (k.clone(), v.clone())).collect());
        let mut problem: Option<String> = None;
        if cap.error.is_some() {
            if fail_at.is_none() { problem = Some("capture failed although no read failed".into()); }
        } else if fail_at.is_some() && cap.bytes_total as usize != src.len() { /* the read failure came after EOF was not reached: handled above */ }
        else {
            let out = src;
            let (ptext, _t, pused) = truncate_utf8(&out[..preview.min(out.len())], preview);
            let want_lines: Vec<String> = ptext.lines().map(|l| l.trim_end_matches('\r').to_string()).collect();
            if cap.bytes_total as usize != out.len() { problem = Some(format!("bytes_total {} but the process wrote {}", cap.bytes_total, out.len())); }
            else if cap.bytes_preview > preview || cap.bytes_preview != pused || cap.preview_lines != want_lines { problem = Some(format!("inline preview {:?} ({} bytes) is not the decoding of the prefix of the output within the limit {}", cap.preview_lines, cap.bytes_preview, preview)); }
            else if cap.truncated_preview != (out.len() > preview) { problem = Some("truncated flag does not say whether output exceeded the preview".into()); }
            else if let Some(a) = &cap.artifact {
                let stored = files.iter().find(|(p, _)| p.ends_with(format!("blobs/{}", a.id))).map(|(_, v)| v.clone());
                let want = &out[..acap.min(out.len())];
                match stored {
                    None => problem = Some("the artifact reference names no stored blob".into()),
                    Some(v) => {
                        if v != want { problem = Some(format!("stored artifact {:?} is not the prefix of the output up to the cap {:?}", v, want)); }
                        else if a.id != hex::encode(digest(&v)) { problem = Some("the artifact id is not the hash of its bytes".into()); }
                        else if a.bytes != v.len() as u64 || a.truncated != (out.len() > v.len()) { problem = Some("artifact bytes / truncated do not describe the blob".into()); }
                    }
                }
            } else if out.len() > preview && acap > 0 { problem = Some("output exceeded the preview but no artifact was stored".into()); }
            if problem.is_none() && files.iter().any(|(p, _)| p.to_string_lossy().contains("/tmp/")) { problem = Some("a temporary artifact file was left behind".into()); }
        }
        if let Some(p) = problem {
            println!("WITNESS {{\"function\": \"capture_stream\", \"process_output\": {:?}, \"read_sizes\": {:?}, \"read_fails_at\": {:?}, \"artifact_cap\": {}, \"preview_limit\": {}, \"problem\": {:?}}}", src, script, fail_at, acap, preview, p);
            return;
        }
    } } } } } }
}
