// Replay enumerator for the FrameStore unit: real function text, plain rustc.
use std::collections::VecDeque;
pub struct EventKind { pub filler: u8 }
pub struct Event { pub id: String, pub session_id: String, pub timestamp_ms: u64, pub seq: u64, pub kind: EventKind }
fn ev(seq: u64) -> Event { Event { id: String::new(), session_id: String::new(), timestamp_ms: 0, seq, kind: EventKind { filler: 0 } } }

//@@ item crates/rip-tui/src/frame_store.rs struct FrameStore dropderive=Clone
impl FrameStore {
    //@@ fn crates/rip-tui/src/frame_store.rs FrameStore::new
    //@@ end
    //@@ fn crates/rip-tui/src/frame_store.rs FrameStore::len
    //@@ end
    //@@ fn crates/rip-tui/src/frame_store.rs FrameStore::push
    //@@ end
    //@@ fn crates/rip-tui/src/frame_store.rs FrameStore::first_seq
    //@@ end
    //@@ fn crates/rip-tui/src/frame_store.rs FrameStore::last_seq
    //@@ end
    //@@ fn crates/rip-tui/src/frame_store.rs FrameStore::is_empty
    //@@ end
    //@@ fn crates/rip-tui/src/frame_store.rs FrameStore::index_of_seq
    //@@ end
    //@@ fn crates/rip-tui/src/frame_store.rs FrameStore::get_by_seq
    //@@ end
}

fn main() {
    let args: Vec<String> = std::env::args().collect();
    let label = args.get(1).cloned().unwrap_or_default();
    let seqs: [u64; 5] = [0, 1, 2, 3, u64::MAX];
    // all push histories of length <= 4 over `seqs`, capacities 0..=3, every query in seqs + 4
    for cap in 0usize..=3 {
        for len in 0..=4u32 {
            for code in 0..5usize.pow(len) {
                let mut hist = Vec::new();
                let mut c = code;
                for _ in 0..len { hist.push(seqs[c % 5]); c /= 5; }
                let mut st = FrameStore::new(cap);
                let mut model: Vec<u64> = Vec::new();
                for s in &hist {
                    st.push(ev(*s));
                    model.push(*s);
                    if model.len() > cap.max(1) { model.remove(0); }
                    if st.len() != model.len() && label.starts_with("push") {
                        println!("WITNESS {{\"capacity\": {}, \"pushed_seqs\": {:?}, \"len\": {}, \"expected_len\": {}}}", cap, hist, st.len(), model.len());
                        return;
                    }
                }
                for q in [0u64, 1, 2, 3, 4, u64::MAX] {
                    if let Some(i) = st.index_of_seq(q) {
                        if i >= model.len() || model[i] != q {
                            if label.starts_with("index_of_seq") || label.starts_with("get_by_seq") {
                                println!("WITNESS {{\"capacity\": {}, \"pushed_seqs\": {:?}, \"query_seq\": {}, \"index_returned\": {}, \"seq_at_index\": {}}}",
                                    cap, hist, q, i, model.get(i).map(|v| v.to_string()).unwrap_or("out-of-range".into()));
                                return;
                            }
                        }
                    }
                    if let Some(e) = st.get_by_seq(q) {
                        if e.seq != q && label.starts_with("get_by_seq") {
                            println!("WITNESS {{\"capacity\": {}, \"pushed_seqs\": {:?}, \"query_seq\": {}, \"returned_frame_seq\": {}}}", cap, hist, q, e.seq);
                            return;
                        }
                    }
                }
            }
        }
    }
}
