// Replay enumerator for FrameStore: the real text of every method (R1 only) over all push sequences of small seq values.
use std::collections::VecDeque;
//@@ include prelude/kernel_model_plain.rs
//@@ item crates/rip-tui/src/frame_store.rs struct FrameStore
impl FrameStore {
    //@@ fn crates/rip-tui/src/frame_store.rs FrameStore::new
    //@@ end
    //@@ fn crates/rip-tui/src/frame_store.rs FrameStore::len
    //@@ end
    //@@ fn crates/rip-tui/src/frame_store.rs FrameStore::is_empty
    //@@ end
    //@@ fn crates/rip-tui/src/frame_store.rs FrameStore::first_seq
    //@@ end
    //@@ fn crates/rip-tui/src/frame_store.rs FrameStore::last_seq
    //@@ end
    //@@ fn crates/rip-tui/src/frame_store.rs FrameStore::push
    //@@ end
    //@@ fn crates/rip-tui/src/frame_store.rs FrameStore::index_of_seq
    //@@ end
    //@@ fn crates/rip-tui/src/frame_store.rs FrameStore::get_by_seq
    //@@ end
}
fn ev(seq: u64, n: usize) -> Event { Event { id: format!("e{n}"), session_id: "s".into(), timestamp_ms: 0, seq, kind: EventKind::OutputTextDelta { delta: String::new() } } }

fn main() {
    // capacities 0..3 (0 is clamped to 1), every sequence of up to 6 pushes with seq values in 0..4 (repeats, gaps, going backwards)
    for cap in 0usize..=3 { for n in 0..=6usize { for code in 0..4usize.pow(n as u32) {
        let mut c = code; let seqs: Vec<u64> = (0..n).map(|_| { let s = (c % 4) as u64; c /= 4; s }).collect();
        let mut st = FrameStore::new(cap);
        let bound = cap.max(1);
        let mut model: Vec<(u64, String)> = Vec::new();
        let mut problem: Option<String> = None;
        for (i, s) in seqs.iter().enumerate() {
            st.push(ev(*s, i));
            if model.len() >= bound { model.remove(0); }
            model.push((*s, format!("e{i}")));
            let got: Vec<(u64, String)> = st.frames.iter().map(|e| (e.seq, e.id.clone())).collect();
            if st.len() > bound { problem = Some(format!("holds {} frames after push {} but the bound is {}", st.len(), i, bound)); break; }
            if got != model { problem = Some(format!("after push {i} the window is {got:?} but the newest {bound} frames in arrival order are {model:?}")); break; }
            if st.len() != model.len() || st.is_empty() != model.is_empty() || st.first_seq() != model.first().map(|m| m.0) || st.last_seq() != model.last().map(|m| m.0) {
                problem = Some(format!("len / is_empty / first_seq / last_seq disagree with the window after push {i}")); break; }
            for q in 0..6u64 {
                match st.index_of_seq(q) { Some(k) => if k >= st.len() || st.frames[k].seq != q { problem = Some(format!("index_of_seq({q}) = {k} names a frame with another seq or none")); }, None => {} }
                match st.get_by_seq(q) { Some(e) => if e.seq != q { problem = Some(format!("get_by_seq({q}) returned the frame with seq {}", e.seq)); }, None => {} }
                // contiguous window: every held seq is found
                if model.windows(2).all(|w| w[1].0 == w[0].0 + 1) && model.iter().any(|m| m.0 == q) && st.get_by_seq(q).is_none() { problem = Some(format!("get_by_seq({q}) finds nothing although the frame is in a contiguous window")); }
            }
            if problem.is_some() { break; }
        }
        if let Some(p) = problem {
            println!("WITNESS {{\"function\": \"FrameStore::push\", \"max_frames\": {}, \"pushed_seqs\": {:?}, \"problem\": {:?}}}", cap, seqs, p);
            return;
        }
    } } }
}
