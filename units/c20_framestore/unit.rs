//@@ unit c20_framestore properties=C20
#![feature(allocator_api)]
#![allow(unused_imports, dead_code, unused_variables)]
use vstd::prelude::*;
use std::collections::VecDeque;

verus! {

// ---- assumed std contracts (trusted, listed in evidence) ---------------------------------
pub assume_specification<T, A: std::alloc::Allocator>[ VecDeque::<T, A>::is_empty ](v: &VecDeque<T, A>) -> (r: bool)
    ensures r == (v@.len() == 0);

pub assume_specification<T, A: std::alloc::Allocator>[ VecDeque::<T, A>::get ](v: &VecDeque<T, A>, i: usize) -> (r: Option<&T>)
    ensures
        i < v@.len() ==> r == Some(&v@[i as int]),
        i >= v@.len() ==> r is None;

pub assume_specification<T, A: std::alloc::Allocator>[ VecDeque::<T, A>::front ](v: &VecDeque<T, A>) -> (r: Option<&T>)
    ensures
        v@.len() > 0 ==> r == Some(&v@[0]),
        v@.len() == 0 ==> r is None;

pub assume_specification<T, A: std::alloc::Allocator>[ VecDeque::<T, A>::back ](v: &VecDeque<T, A>) -> (r: Option<&T>)
    ensures
        v@.len() > 0 ==> r == Some(&v@[v@.len() - 1]),
        v@.len() == 0 ==> r is None;

// ---- stub of rip_kernel::Event: only the field the store reads ------------------------------
pub struct EventKind { pub filler: u8 }
pub struct Event {
    pub id: String,
    pub session_id: String,
    pub timestamp_ms: u64,
    pub seq: u64,
    pub kind: EventKind,
}

// std: `VecDeque::with_capacity(n)` panics ("capacity overflow") when n elements exceed isize::MAX bytes. Elements are assumed to be at
// most 4 KiB (a frame is a few hundred bytes); vstd's own contract of with_capacity has no precondition, so a call the source gains goes
// through this stand-in (`rewrite?`), which the capacity argument of FrameStore::new - "for all capacity settings" - must satisfy.
#[verifier::external_body]
pub fn vecdeque_with_capacity<T>(n: usize) -> (r: VecDeque<T>)
    requires n as int * 4096 <= isize::MAX as int,          // [std.with_capacity.requires_capacity_in_bytes_within_isize_max_else_panic]
    ensures r@ == Seq::<T>::empty(),
{ unimplemented!() }
//@@ item crates/rip-tui/src/frame_store.rs struct FrameStore dropderive=Clone

impl FrameStore {
    spec fn view(&self) -> Seq<Event> { self.frames@ }

    spec fn wf(&self) -> bool {
        &&& self.max_frames >= 1
        &&& self.frames@.len() <= self.max_frames
    }

    //@@ fn crates/rip-tui/src/frame_store.rs FrameStore::new
    //@@ rewrite? VecDeque::with_capacity( => vecdeque_with_capacity(
    //@@ sig
        ensures
            ret.wf(),                       // [new.wf]
            ret@.len() == 0,                // [new.empty]
            ret.max_frames == (if max_frames == 0 { 1usize } else { max_frames }), // [new.capacity]
    //@@ end

    //@@ fn crates/rip-tui/src/frame_store.rs FrameStore::len
    //@@ sig
        ensures ret == self@.len(),         // [len.view]
    //@@ end

    //@@ fn crates/rip-tui/src/frame_store.rs FrameStore::is_empty
    //@@ sig
        ensures ret == (self@.len() == 0),  // [is_empty.view]
    //@@ end

    //@@ fn crates/rip-tui/src/frame_store.rs FrameStore::first_seq
    //@@ sig
        ensures
            self@.len() == 0 ==> ret is None,                                   // [first_seq.empty]
            self@.len() > 0 ==> ret == Some(self@[0].seq),                      // [first_seq.view]
    //@@ closure 0
        -> (r: u64) ensures r == event.seq
    //@@ end

    //@@ fn crates/rip-tui/src/frame_store.rs FrameStore::last_seq
    //@@ sig
        ensures
            self@.len() == 0 ==> ret is None,                                   // [last_seq.empty]
            self@.len() > 0 ==> ret == Some(self@[self@.len() - 1].seq),        // [last_seq.view]
    //@@ closure 0
        -> (r: u64) ensures r == event.seq
    //@@ end

    //@@ fn crates/rip-tui/src/frame_store.rs FrameStore::push
    //@@ sig
        requires old(self).wf(),
        ensures
            final(self).wf(),                                                            // [push.bounded]
            final(self).max_frames == old(self).max_frames,                               // [push.capacity_frame]
            final(self)@ == (if old(self)@.len() >= old(self).max_frames { old(self)@.drop_first() } else { old(self)@ }).push(event), // [push.view]
    //@@ end

    //@@ fn crates/rip-tui/src/frame_store.rs FrameStore::index_of_seq
    //@@ sig
        requires self.wf(),
        ensures
            ret matches Some(i) ==> i < self@.len(),                          // [index_of_seq.in_bounds]
            ret matches Some(i) ==> self@[i as int].seq == seq,               // [index_of_seq.exact]
    //@@ end

    //@@ fn crates/rip-tui/src/frame_store.rs FrameStore::get_by_seq
    //@@ sig
        requires self.wf(),
        ensures
            ret matches Some(e) ==> e.seq == seq,                              // [get_by_seq.exact]
            ret matches Some(e) ==> exists|i: int| 0 <= i < self@.len() && self@[i] == *e, // [get_by_seq.member]
    //@@ end
}

} // verus!
fn main() {}
