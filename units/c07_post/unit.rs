//@@ unit c07_post properties=C07
// "Each message posted to a thread produces exactly one run-spawned frame" (C07), at the place where it happens: the HTTP handler
// thread_post_message (server.rs).  The real text is verified with the axum extractors in its parameter list and its `impl IntoResponse`
// return type replaced by plain types, and the provider-configuration block replaced by a stand-in (R11, exact source text).  Proved:
// the run-spawned writer is called only for the message id the message writer returned for this thread, and with the id of the
// session created for it; the run is started (spawn_session) only after that frame was written, for that same thread / message /
// session; the handler has no loop and one call site of each writer (checked syntactically on every run), so together with the
// postcondition each happens exactly once on the accepted path; the handler answers 202 only then, and with those three ids; nothing is started when either write fails.
#![allow(unused_imports, dead_code, unused_variables, unused_mut)]
use vstd::prelude::*;

verus! {
global size_of usize == 8;

pub uninterp spec fn message_written(thread: Seq<char>, message_id: Seq<char>) -> bool;                      // timeless: append_message returned this id for this thread
pub uninterp spec fn run_spawned_written(thread: Seq<char>, message_id: Seq<char>, session: Seq<char>) -> bool;   // timeless: a run-spawned frame was written

#[derive(PartialEq, Eq, Clone, Copy, Structural)]
pub enum StatusCode { NOT_FOUND, INTERNAL_SERVER_ERROR, ACCEPTED }
pub struct Response { pub code: StatusCode, pub thread_id: Seq<char>, pub message_id: Seq<char>, pub session_id: Seq<char> }
impl StatusCode {
    #[verifier::external_body] pub fn into_response(self) -> (r: Response) ensures r.code == self, self != StatusCode::ACCEPTED { unimplemented!() }
}
#[verifier::external_body] pub fn accepted_response(thread_id: String, message_id: String, session_id: String) -> (r: Response)
    ensures r.code == StatusCode::ACCEPTED, r.thread_id == thread_id@, r.message_id == message_id@, r.session_id == session_id@,
{ unimplemented!() }

pub struct ThreadOpenResponsesOverrides { pub filler: u8 }
//@@ item crates/ripd/src/server.rs struct ThreadPostMessagePayload
pub struct OpenResponsesConfig { pub filler: u8 }
pub struct SessionHandle { pub session_id: String }
impl Clone for SessionHandle { #[verifier::external_body] fn clone(&self) -> (r: Self) ensures r == *self { unimplemented!() } }
pub mod continuities_mod { }
pub struct ContinuityRunLink { pub continuity_id: String, pub message_id: String, pub actor_id: String, pub origin: String }
pub struct ContinuityStore { pub filler: u8 }
impl ContinuityStore {
    #[verifier::external_body] pub fn append_message(&self, thread: &str, actor_id: String, origin: String, content: String) -> (r: Result<String, String>)
        ensures r matches Ok(id) ==> message_written(thread@, id@),
    { unimplemented!() }
    #[verifier::external_body] pub fn append_run_spawned(&self, thread: &str, message_id: &str, session_id: &str, actor_id: String, origin: String) -> (r: Result<String, String>)
        requires message_written(thread@, message_id@),      // [post.run_spawned_names_the_message_just_written_to_this_thread]
        ensures r is Ok ==> run_spawned_written(thread@, message_id@, session_id@),
    { unimplemented!() }
}
pub struct SessionMap { pub filler: u8 }
impl SessionMap { #[verifier::external_body] pub fn insert(&mut self, k: String, v: SessionHandle) -> Option<SessionHandle> { unimplemented!() } }
pub struct SessionsLock { pub filler: u8 }
impl SessionsLock { #[verifier::external_body] pub fn lock(&self) -> SessionMap { unimplemented!() } }       // R3: `.lock().await`
pub struct SessionEngine { pub filler: u8 }
impl SessionEngine {
    #[verifier::external_body] pub fn continuities(&self) -> ContinuityStore { unimplemented!() }
    #[verifier::external_body] pub fn create_session(&self) -> SessionHandle { unimplemented!() }
    #[verifier::external_body] pub fn spawn_session(&self, handle: SessionHandle, input: String, continuity: Option<ContinuityRunLink>, openresponses_override: Option<OpenResponsesConfig>)
        requires continuity matches Some(link) && run_spawned_written(link.continuity_id@, link.message_id@, handle.session_id@),      // [post.run_started_only_after_its_run_spawned_frame_for_the_same_thread_message_session]
    { unimplemented!() }
}
pub struct AppState { pub sessions: SessionsLock, pub engine: SessionEngine }
#[verifier::external_body] pub fn voverride(store: &ContinuityStore, o: &Option<ThreadOpenResponsesOverrides>) -> Option<OpenResponsesConfig> { unimplemented!() }
//@@ fn crates/ripd/src/server.rs thread_post_message rules=R3
//@@ rewrite Path(thread_id): Path<String> ==>> thread_id: String
//@@ rewrite State(state): State<AppState> ==>> state: AppState
//@@ rewrite Json(payload): Json<ThreadPostMessagePayload> ==>> payload: ThreadPostMessagePayload
//@@ rewrite impl IntoResponse ==>> (ret: Response)
//@@ rewrite let (resolved_openresponses, _loaded) = crate::config::resolve_openresponses_config( store.workspace_root(), crate::config::OpenResponsesOverrideInput { endpoint: openresponses.as_ref().and_then(|cfg| cfg.endpoint.clone()), model: openresponses.as_ref().and_then(|cfg| cfg.model.clone()), stateless_history: openresponses.as_ref().and_then(|cfg| cfg.stateless_history), parallel_tool_calls: openresponses .as_ref() .and_then(|cfg| cfg.parallel_tool_calls), followup_user_message: openresponses .as_ref() .and_then(|cfg| cfg.followup_user_message.clone()), }, ); let openresponses_override = resolved_openresponses.map(|cfg| OpenResponsesConfig { endpoint: cfg.endpoint, api_key: cfg.api_key, model: cfg.model, headers: cfg.headers, tool_choice: ToolChoiceParam::auto(), followup_user_message: cfg.followup_user_message, stateless_history: cfg.stateless_history, parallel_tool_calls: cfg.parallel_tool_calls, }); ==>> let openresponses_override = voverride(&store, &openresponses);
//@@ rewrite crate::continuities::ContinuityRunLink ==>> ContinuityRunLink
//@@ rewrite ( StatusCode::ACCEPTED, Json(ThreadPostMessageResponse { thread_id, message_id, session_id, }), ) .into_response() ==>> accepted_response(thread_id, message_id, session_id)
//@@ maxcalls append_run_spawned 1
//@@ maxcalls spawn_session 1
//@@ maxcalls append_message 1
//@@ sig
    ensures
        ret.code == StatusCode::ACCEPTED ==> message_written(thread_id@, ret.message_id) && run_spawned_written(thread_id@, ret.message_id, ret.session_id) && ret.thread_id == thread_id@,      // [post.accepted_only_with_the_message_and_its_run_spawned_frame_written]
//@@ end

} // verus!
fn main() {}
