//@@ unit c08_assemble properties=C08
// How the three compilers put a bundle together (C08: "exactly the most recent messages ... after the selected summary checkpoint, oldest
// first, each followed by the reply text of the run that answered it, plus the selected summary references").  The selection kernels and
// the run fold are used through the contracts proved in unit c08_select; here the real compile_* functions are verified to emit, in this
// order: one SummaryRef per summary (for the hierarchical strategy in ascending to_seq order), then for every selected message a user
// item carrying the frame's fields unchanged, followed - if a run ended for that message at or before the cut and its reply text is not
// empty - by one assistant item with exactly that text; and the messages are selected after the GREATEST to_seq among the summaries.
#![allow(unused_imports, dead_code, unused_variables, unused_mut)]
use vstd::prelude::*;
use std::collections::HashMap;

//@@ include prelude/kernel_model.rs
//@@ include prelude/strings.rs

verus! {
global size_of usize == 8;

#[verifier::external_body] pub fn vfmt() -> String { unimplemented!() }        // R9
pub assume_specification<T>[ <[T]>::reverse ](s: &mut [T])
    ensures final(s)@ == old(s)@.reverse();
pub struct EventLog { pub filler: u8 }
pub struct Path { pub filler: u8 }
//@@ item crates/ripd/src/context_compiler.rs struct SelectedMessage dropderive=Clone
//@@ item crates/ripd/src/context_bundle.rs struct ContextBundleCompilerV1 dropderive=Clone
//@@ item crates/ripd/src/context_bundle.rs struct ContextBundleSourceV1 dropderive=Clone
//@@ item crates/ripd/src/context_bundle.rs struct ContextBundleProvenanceV1 dropderive=Clone
//@@ item crates/ripd/src/context_bundle.rs enum ContextBundleItemV1 dropderive=Clone
//@@ item crates/ripd/src/context_bundle.rs const CONTEXT_BUNDLE_SCHEMA_V1
//@@ item crates/ripd/src/context_bundle.rs struct ContextBundleV1 dropderive=Clone
//@@ item crates/ripd/src/context_compiler.rs const CONTEXT_COMPILER_ID_V1
//@@ item crates/ripd/src/context_compiler.rs const CONTEXT_COMPILER_STRATEGY_RECENT_MESSAGES_V1
//@@ item crates/ripd/src/context_compiler.rs const CONTEXT_COMPILER_STRATEGY_SUMMARIES_RECENT_MESSAGES_V1
//@@ item crates/ripd/src/context_compiler.rs const CONTEXT_COMPILER_STRATEGY_HIERARCHICAL_SUMMARIES_RECENT_MESSAGES_V1
//@@ item crates/ripd/src/context_compiler.rs const RECENT_MESSAGES_V1_LIMIT
//@@ item crates/ripd/src/context_compiler.rs struct HierarchicalSummaryRefV1 dropderive=Clone
//@@ item crates/ripd/src/context_compiler.rs struct CompileHierarchicalSummariesRecentMessagesV1Request
//@@ item crates/ripd/src/context_compiler.rs struct CompileSummariesRecentMessagesV1Request
//@@ item crates/ripd/src/context_compiler.rs struct CompileRecentMessagesV1Request

impl ContextBundleV1 {
    //@@ fn crates/ripd/src/context_bundle.rs ContextBundleV1::new
    //@@ sig
        ensures ret.items == items,
    //@@ end
}

// ---- what unit c08_select proves of the kernels (used modularly) ---------------------------------------------------------------------
pub uninterp spec fn selection(events: Seq<Event>, from: u64, after: int, limit: usize) -> Seq<SelectedMessage>;      // the result of the proved selection
pub uninterp spec fn runs_at_cut(events: Seq<Event>, from: u64) -> Map<String, String>;                               // message id -> session of the run that ended for it
pub uninterp spec fn reply_text(session: Seq<char>) -> Seq<char>;                                                     // aggregate_session_output_text
#[verifier::external_body] pub fn select_recent_messages(events: &[Event], from_seq: u64, limit: usize) -> (r: Vec<SelectedMessage>)
    ensures r@ == selection(events@, from_seq, -1, limit) { unimplemented!() }
#[verifier::external_body] pub fn select_recent_messages_after_seq(events: &[Event], from_seq: u64, after_seq: u64, limit: usize) -> (r: Vec<SelectedMessage>)
    ensures r@ == selection(events@, from_seq, after_seq as int, limit) { unimplemented!() }
#[verifier::external_body] pub fn ended_runs_by_message_id(events: &[Event], from_seq: u64) -> (r: HashMap<String, String>)
    ensures r@ == runs_at_cut(events@, from_seq) { unimplemented!() }
#[verifier::external_body] pub fn aggregate_session_output_text(dir: &Path, log: &EventLog, session_id: &String) -> (r: String)
    ensures r@ == reply_text(session_id@) { unimplemented!() }
pub broadcast axiom fn axiom_string_obeys_key_model() ensures #[trigger] vstd::std_specs::hash::obeys_key_model::<String>();
#[verifier::external_body] pub fn vstr_is_empty(s: &String) -> (r: bool) ensures r == (s@.len() == 0) { unimplemented!() }

// ---- stand-ins for the comparator sort and the iterator maximum (R11) ---------------------------------------------------------------
pub open spec fn ascending(s: Seq<HierarchicalSummaryRefV1>) -> bool { forall|i: int, j: int| 0 <= i < j < s.len() ==> s[i].to_seq <= s[j].to_seq }
#[verifier::external_body] pub fn vsort_by_to_seq(v: &mut Vec<HierarchicalSummaryRefV1>)
    ensures final(v)@.len() == old(v)@.len(), ascending(final(v)@),
        forall|x: HierarchicalSummaryRefV1| old(v)@.contains(x) <==> final(v)@.contains(x),
{ unimplemented!() }
pub open spec fn greatest(s: Seq<HierarchicalSummaryRefV1>, r: u64) -> bool {
    (forall|j: int| 0 <= j < s.len() ==> (#[trigger] s[j]).to_seq <= r) && (exists|j: int| 0 <= j < s.len() && (#[trigger] s[j]).to_seq == r)
}
#[verifier::external_body] pub fn vmax_to_seq(v: &Vec<HierarchicalSummaryRefV1>) -> (r: u64)
    ensures v@.len() > 0 ==> greatest(v@, r), v@.len() == 0 ==> r == 0,
{ unimplemented!() }

// ---- the shape of a bundle -----------------------------------------------------------------------------------------------------------
pub open spec fn user_item(it: ContextBundleItemV1, m: SelectedMessage) -> bool {
    it matches ContextBundleItemV1::Message { role, content, actor_id, origin, thread_seq, thread_event_id }
    && role@ == "user"@ && content@ == m.content@
    && actor_id is Some && actor_id->Some_0@ == m.actor_id@ && origin is Some && origin->Some_0@ == m.origin@
    && thread_seq == Some(m.seq) && thread_event_id is Some && thread_event_id->Some_0@ == m.event_id@
}
pub open spec fn assistant_item(it: ContextBundleItemV1, text: Seq<char>) -> bool {
    it matches ContextBundleItemV1::Message { role, content, actor_id, origin, thread_seq, thread_event_id }
    && role@ == "assistant"@ && content@ == text && actor_id is None && origin is None && thread_seq is None && thread_event_id is None
}
pub open spec fn reply_of(runs: Map<String, String>, m: SelectedMessage) -> Option<Seq<char>> {
    if runs.contains_key(m.event_id) && reply_text(runs[m.event_id]@).len() > 0 { Some(reply_text(runs[m.event_id]@)) } else { None }
}
// items == for every selected message, oldest first: its user item, then the reply of the run that answered it, if any
pub open spec fn assembled(items: Seq<ContextBundleItemV1>, sel: Seq<SelectedMessage>, runs: Map<String, String>) -> bool
    decreases sel.len()
{
    if sel.len() == 0 { items.len() == 0 } else {
        let m = sel.last();
        match reply_of(runs, m) {
            Some(t) => items.len() >= 2 && assistant_item(items.last(), t) && user_item(items[items.len() - 2], m) && assembled(items.take(items.len() - 2), sel.drop_last(), runs),
            None => items.len() >= 1 && user_item(items.last(), m) && assembled(items.drop_last(), sel.drop_last(), runs),
        }
    }
}
pub open spec fn summary_refs(items: Seq<ContextBundleItemV1>, s: Seq<HierarchicalSummaryRefV1>) -> bool {
    items.len() == s.len() && forall|j: int| 0 <= j < s.len() ==> (#[trigger] items[j] matches ContextBundleItemV1::SummaryRef { artifact_id, .. } && artifact_id@ == s[j].artifact_id@)
}

//@@ fn crates/ripd/src/context_compiler.rs compile_hierarchical_summaries_recent_messages_v1 rules=R9 r7=0 r7v=1
//@@ rewrite req.summaries.sort_by(|a, b| a.to_seq.cmp(&b.to_seq)); ==>> vsort_by_to_seq(&mut req.summaries);
//@@ rewrite req .summaries .iter() .map(|summary| summary.to_seq) .max() .unwrap_or_default() ==>> vmax_to_seq(&req.summaries)
//@@ rewrite !assistant_text.is_empty() ==>> !vstr_is_empty(&assistant_text)
//@@ sig
    ensures
        ret matches Ok(b) ==> exists|sorted: Seq<HierarchicalSummaryRefV1>, after: u64| #![trigger greatest(sorted, after)] {
            let n = sorted.len() as int;
            &&& n > 0 && ascending(sorted) && (forall|x: HierarchicalSummaryRefV1| req.summaries@.contains(x) <==> sorted.contains(x)) && sorted.len() == req.summaries@.len()
            &&& greatest(sorted, after)      // [assemble.messages_are_selected_after_the_greatest_to_seq_among_the_summaries]
            &&& b.items@.len() >= n && summary_refs(b.items@.take(n), sorted)      // [assemble.one_summary_ref_per_summary_in_ascending_order_first]
            &&& assembled(b.items@.skip(n), selection(req.continuity_events@, req.from_seq, after as int, RECENT_MESSAGES_V1_LIMIT), runs_at_cut(req.continuity_events@, req.from_seq))      // [assemble.then_each_selected_message_followed_by_its_reply]
        },
//@@ entry
    broadcast use vstd::std_specs::hash::group_hash_axioms; broadcast use axiom_string_obeys_key_model;
//@@ loop 0
    invariant __i0 <= __s0.len(), __s0@ == req.summaries@, summary_refs(items@, req.summaries@.take(__i0 as int)),
    decreases __s0.len() - __i0
//@@ loop 1
    invariant
        __g1 == selection(req.continuity_events@, req.from_seq, latest_to_seq as int, RECENT_MESSAGES_V1_LIMIT), __v1@.len() <= __g1.len(),
        __v1@ == __g1.reverse().take(__v1@.len() as int),
        ended_runs_by_message_id@ == runs_at_cut(req.continuity_events@, req.from_seq),
        items@.len() >= req.summaries@.len(), summary_refs(items@.take(req.summaries@.len() as int), req.summaries@),
        assembled(items@.skip(req.summaries@.len() as int), __g1.take(__g1.len() - __v1@.len()), ended_runs_by_message_id@),
    decreases __v1@.len()
//@@ loopbody 1
    broadcast use vstd::std_specs::hash::group_hash_axioms; broadcast use axiom_string_obeys_key_model;
    let ghost items0 = items@; let ghost k = __g1.len() - __v1@.len() - 1;
    proof { assert(message == __g1[k]); assert(__g1.take(k + 1).drop_last() =~= __g1.take(k)); reveal_strlit("user"); reveal_strlit("assistant"); }
//@@ loopend 1
    proof {
        let ns = req.summaries@.len() as int;
        let t = items@.skip(ns); let t0 = items0.skip(ns);
        if reply_of(ended_runs_by_message_id@, message) is Some { assert(t.take(t.len() - 2) =~= t0); } else { assert(t.drop_last() =~= t0); }
        assert(items@.take(ns) =~= items0.take(ns));
    }
//@@ afterloop 1
    proof { assert(__g1.take(__g1.len() as int) =~= __g1); assert(greatest(req.summaries@, latest_to_seq)); }
//@@ end

//@@ fn crates/ripd/src/context_compiler.rs compile_summaries_recent_messages_v1 rules=R9 r7v=0
//@@ rewrite !assistant_text.is_empty() ==>> !vstr_is_empty(&assistant_text)
//@@ rewrite let mut items = Vec::new(); ==>> let mut items: Vec<ContextBundleItemV1> = Vec::new();
//@@ sig
    ensures
        ret matches Ok(b) ==> b.items@.len() >= 1
            && (b.items@[0] matches ContextBundleItemV1::SummaryRef { artifact_id, .. } && artifact_id@ == req.summary_artifact_id@)      // [assemble.the_summary_ref_comes_first]
            && assembled(b.items@.skip(1), selection(req.continuity_events@, req.from_seq, req.summary_to_seq as int, RECENT_MESSAGES_V1_LIMIT), runs_at_cut(req.continuity_events@, req.from_seq)),      // [assemble.then_each_message_after_the_summary_followed_by_its_reply]
//@@ entry
    broadcast use vstd::std_specs::hash::group_hash_axioms; broadcast use axiom_string_obeys_key_model;
//@@ loop 0
    invariant
        __g0 == selection(req.continuity_events@, req.from_seq, req.summary_to_seq as int, RECENT_MESSAGES_V1_LIMIT), __v0@.len() <= __g0.len(),
        __v0@ == __g0.reverse().take(__v0@.len() as int),
        ended_runs_by_message_id@ == runs_at_cut(req.continuity_events@, req.from_seq),
        items@.len() >= 1, items@[0] matches ContextBundleItemV1::SummaryRef { artifact_id, .. } && artifact_id@ == req.summary_artifact_id@,
        assembled(items@.skip(1), __g0.take(__g0.len() - __v0@.len()), ended_runs_by_message_id@),
    decreases __v0@.len()
//@@ loopbody 0
    broadcast use vstd::std_specs::hash::group_hash_axioms; broadcast use axiom_string_obeys_key_model;
    let ghost items0 = items@; let ghost k = __g0.len() - __v0@.len() - 1;
    proof { assert(message == __g0[k]); assert(__g0.take(k + 1).drop_last() =~= __g0.take(k)); reveal_strlit("user"); reveal_strlit("assistant"); }
//@@ loopend 0
    proof {
        let t = items@.skip(1); let t0 = items0.skip(1);
        if reply_of(ended_runs_by_message_id@, message) is Some { assert(t.take(t.len() - 2) =~= t0); } else { assert(t.drop_last() =~= t0); }
    }
//@@ afterloop 0
    proof { assert(__g0.take(__g0.len() as int) =~= __g0); }
//@@ end

//@@ fn crates/ripd/src/context_compiler.rs compile_recent_messages_v1 rules=R9 r7v=0
//@@ rewrite !assistant_text.is_empty() ==>> !vstr_is_empty(&assistant_text)
//@@ rewrite let mut items = Vec::new(); ==>> let mut items: Vec<ContextBundleItemV1> = Vec::new();
//@@ sig
    ensures
        ret matches Ok(b) ==> assembled(b.items@, selection(req.continuity_events@, req.from_seq, -1, RECENT_MESSAGES_V1_LIMIT), runs_at_cut(req.continuity_events@, req.from_seq)),      // [assemble.each_selected_message_followed_by_its_reply_and_nothing_else]
//@@ entry
    broadcast use vstd::std_specs::hash::group_hash_axioms; broadcast use axiom_string_obeys_key_model;
//@@ loop 0
    invariant
        __g0 == selection(req.continuity_events@, req.from_seq, -1, RECENT_MESSAGES_V1_LIMIT), __v0@.len() <= __g0.len(),
        __v0@ == __g0.reverse().take(__v0@.len() as int),
        ended_runs_by_message_id@ == runs_at_cut(req.continuity_events@, req.from_seq),
        assembled(items@, __g0.take(__g0.len() - __v0@.len()), ended_runs_by_message_id@),
    decreases __v0@.len()
//@@ loopbody 0
    broadcast use vstd::std_specs::hash::group_hash_axioms; broadcast use axiom_string_obeys_key_model;
    let ghost items0 = items@; let ghost k = __g0.len() - __v0@.len() - 1;
    proof { assert(message == __g0[k]); assert(__g0.take(k + 1).drop_last() =~= __g0.take(k)); reveal_strlit("user"); reveal_strlit("assistant"); }
//@@ loopend 0
    proof {
        if reply_of(ended_runs_by_message_id@, message) is Some { assert(items@.take(items@.len() - 2) =~= items0); } else { assert(items@.drop_last() =~= items0); }
    }
//@@ afterloop 0
    proof { assert(__g0.take(__g0.len() as int) =~= __g0); }
//@@ end

// ---- from the bundle to the provider's input items (session.rs) ----------------------------------------------------------------------------
pub struct ItemParam { pub role: Seq<char>, pub text: Seq<char>, pub filler: u8 }
impl ItemParam {
    #[verifier::external_body] pub fn message_text(role: String, text: String) -> (r: ItemParam) ensures r.role == role@, r.text == text@ { unimplemented!() }
}
pub struct CompactionSummaryV1 { pub md: Seq<char>, pub filler: u8 }
impl CompactionSummaryV1 { #[verifier::external_body] pub fn summary_markdown(&self) -> (r: &str) ensures r@ == self.md { unimplemented!() } }
pub uninterp spec fn summary_text(artifact: Seq<char>) -> Seq<char>;      // the markdown of the stored summary
#[verifier::external_body] pub fn read_compaction_summary_v1(root: &Path, artifact_id: &String) -> (r: Result<CompactionSummaryV1, String>)
    ensures r matches Ok(s) ==> s.md == summary_text(artifact_id@) { unimplemented!() }
impl ContextBundleV1 {
    //@@ fn crates/ripd/src/context_bundle.rs ContextBundleV1::items
    //@@ sig
        ensures ret@ == self.items@,
    //@@ end
}
// one provider item per bundle item, in order: a message keeps its role and text; a summary ref becomes a system message that ends with the
// stored summary's markdown
pub open spec fn item_of(it: ContextBundleItemV1, p: ItemParam) -> bool {
    match it {
        ContextBundleItemV1::Message { role, content, .. } => p.role == role@ && p.text == content@,
        ContextBundleItemV1::SummaryRef { artifact_id, .. } => p.role == "system"@ && exists|head: Seq<char>| #![auto] p.text == head + summary_text(artifact_id@),
    }
}
#[verifier::external_body] pub fn vsummary_content(note: &Option<String>, md: &str) -> (r: String)
    ensures exists|head: Seq<char>| #![auto] r@ == head + md@ { unimplemented!() }

//@@ fn crates/ripd/src/session.rs openresponses_items_from_context_bundle r7=0
//@@ rewrite let mut out = Vec::new(); ==>> let mut out: Vec<ItemParam> = Vec::new();
//@@ rewrite let mut content = String::new(); content.push_str("Compaction summary (earlier context)\n"); if let Some(note) = note.as_ref() { content.push_str(note); content.push('\n'); } content.push_str(summary.summary_markdown()); ==>> let content = vsummary_content(note, summary.summary_markdown());
//@@ sig
    ensures
        ret matches Ok(v) ==> v@.len() == bundle.items@.len() && forall|i: int| 0 <= i < v@.len() ==> item_of(bundle.items@[i], #[trigger] v@[i]),      // [items.one_provider_item_per_bundle_item_in_order_roles_and_texts_kept]
//@@ loop 0
    invariant __i0 <= __s0.len(), __s0@ == bundle.items@, out@.len() == __i0,
        forall|i: int| 0 <= i < out@.len() ==> item_of(bundle.items@[i], #[trigger] out@[i]),
    decreases __s0.len() - __i0
//@@ loopbody 0
    proof { reveal_strlit("system"); }
//@@ end

} // verus!
fn main() {}
