// vx: label-insensitive
// Replayed by the compiler enumerator (shared with unit c08_compile): the three real compile_* functions against the oracle.
//@@ include units/c08_compile/witness.rs
