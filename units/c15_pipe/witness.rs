// Replay enumerator for the SSE pipe numbering: real OpenResponsesSsePipe::{new, push_sse_str, finish, emit_transport_error}
// (ripd) and the real EventFrameMapper (provider crate) run natively; the decoder is scripted.
use std::cell::RefCell;
//@@ include prelude/kernel_model_plain.rs
pub mod rip_kernel { pub use super::{EventKind, ProviderEventStatus}; }
pub struct Uuid;
impl Uuid { pub fn new_v4() -> Uuid { Uuid } }
impl std::fmt::Display for Uuid { fn fmt(&self, f: &mut std::fmt::Formatter<'_>) -> std::fmt::Result { write!(f, "id") } }
pub fn now_ms() -> u64 { 0 }
#[derive(Debug, Clone, Copy, Default)]
pub struct ValidationOptions;
//@@ item crates/rip-provider-openresponses/src/lib.rs enum ParsedEventKind
//@@ item crates/rip-provider-openresponses/src/lib.rs struct ParsedEvent
//@@ item crates/rip-provider-openresponses/src/lib.rs struct EventFrameMapper
fn output_text_delta(parsed: &ParsedEvent) -> Option<String> { if parsed.raw.starts_with('t') { Some("x".to_string()) } else { None } }
impl EventFrameMapper {
    //@@ fn crates/rip-provider-openresponses/src/lib.rs EventFrameMapper::new pub
    //@@ end
    //@@ fn crates/rip-provider-openresponses/src/lib.rs EventFrameMapper::map pub
    //@@ end
    //@@ fn crates/rip-provider-openresponses/src/lib.rs EventFrameMapper::emit_provider_event
    //@@ end
    //@@ fn crates/rip-provider-openresponses/src/lib.rs EventFrameMapper::emit
    //@@ end
}
// scripted decoder: push("p<k><kinds>") yields one parsed event per kind letter (e event, t text delta, d done); finish() yields the script given at construction
pub struct SseDecoder { fin: String }
fn script(s: &str) -> Vec<ParsedEvent> {
    s.chars().filter(|c| matches!(c, 'e' | 't' | 'd')).map(|c| ParsedEvent { kind: if c == 'd' { ParsedEventKind::Done } else { ParsedEventKind::Event }, event: None, raw: c.to_string(), data: None, errors: vec![], response_errors: vec![] }).collect()
}
thread_local! { static FIN: RefCell<String> = RefCell::new(String::new()); static TEXT: RefCell<String> = RefCell::new(String::new()); }
impl SseDecoder {
    pub fn new_with_validation(_v: ValidationOptions) -> Self { SseDecoder { fin: FIN.with(|f| f.borrow().clone()) } }
    pub fn push(&mut self, chunk: &str) -> Vec<ParsedEvent> { TEXT.with(|t| t.borrow_mut().push_str(chunk)); script(chunk) }
    pub fn finish(&mut self) -> Vec<ParsedEvent> { script(&self.fin) }
}
pub struct ToolCallCollector;
impl ToolCallCollector { pub fn observe(&mut self, _e: &ParsedEvent) {} }
#[derive(Clone, Copy)]
pub struct EventSink<'a> { pub out: &'a RefCell<Vec<u64>> }
impl<'a> EventSink<'a> {
    pub fn emit(&self, e: Event) { self.out.borrow_mut().push(e.seq); }
    pub fn emit_all(&self, es: Vec<Event>) { for e in es { self.out.borrow_mut().push(e.seq); } }
}
//@@ item crates/ripd/src/session.rs struct OpenResponsesSsePipe
impl<'a> OpenResponsesSsePipe<'a> {
    //@@ fn crates/ripd/src/session.rs OpenResponsesSsePipe::new rules=R3
    //@@ end
    //@@ fn crates/ripd/src/session.rs OpenResponsesSsePipe::emit_transport_error rules=R3
    //@@ end
    //@@ fn crates/ripd/src/session.rs OpenResponsesSsePipe::push_sse_str rules=R3
    //@@ end
    //@@ fn crates/ripd/src/session.rs OpenResponsesSsePipe::finish rules=R3
    //@@ end
    //@@ fn crates/ripd/src/session.rs OpenResponsesSsePipe::push_bytes rules=R3
    //@@ end
}

// bytes -> decoder text: whatever the chunking of the body, the decoder receives the lossy decoding of the bytes (an incomplete
// trailing sequence waits in the buffer), so parsed events cannot depend on where the transport split the stream
fn bytes_clause() {
    let tokens: [&[u8]; 11] = ["\u{feff}".as_bytes(), b"a", "\u{e9}".as_bytes(), "\u{20ac}".as_bytes(), "\u{1f600}".as_bytes(), &[0xFF], &[0x80], &[0xC3], &[0xE2, 0x82], &[0xF0, 0x9F, 0x98], b"e"];
    for n in 0..=3usize { for code in 0..tokens.len().pow(n as u32) {
        let mut c = code; let mut body: Vec<u8> = Vec::new();
        for _ in 0..n { body.extend_from_slice(tokens[c % tokens.len()]); c /= tokens.len(); }
        // the reference is what the real code hands to the decoder when the body arrives in one piece (mask 0 comes first); every other
        // chunking must give the same text. (Until the second build session the reference was the lossy decoding of the body itself,
        // which would also have flagged a decoder-side normalisation that is applied consistently - more than the property asks.)
        let mut whole = String::new();
        let cuts = body.len().saturating_sub(1);
        for mask in 0..(1usize << cuts) {
            TEXT.with(|t| t.borrow_mut().clear()); FIN.with(|f| f.borrow_mut().clear());
            let out = RefCell::new(Vec::new()); let mut seq = 0u64; let mut buf: Vec<u8> = Vec::new();
            let mut chunks: Vec<Vec<u8>> = Vec::new();
            {
                let mut pipe = OpenResponsesSsePipe::new("s", &mut seq, EventSink { out: &out }, None, ValidationOptions);
                let mut start = 0usize;
                for i in 0..body.len() { if i + 1 == body.len() || (mask >> i) & 1 == 1 { chunks.push(body[start..=i].to_vec()); start = i + 1; } }
                for ch in &chunks { pipe.push_bytes(&mut buf, ch); }
            }
            let text = TEXT.with(|t| t.borrow().clone());
            let tail_ok = buf.is_empty() || matches!(std::str::from_utf8(&buf), Err(e) if e.valid_up_to() == 0 && e.error_len().is_none());
            let joined = format!("{}{}", text, String::from_utf8_lossy(&buf));
            if mask == 0 { whole = joined.clone(); }
            if !tail_ok || joined != whole {
                println!("WITNESS {{\"function\": \"OpenResponsesSsePipe::push_bytes\", \"body_bytes\": {:?}, \"chunks\": {:?}, \"text_given_to_the_decoder\": {:?}, \"bytes_left_in_buffer\": {:?}, \"text_when_the_body_arrives_in_one_piece\": {:?}, \"problem\": \"the text reaching the SSE decoder depends on how the transport chunked the body\"}}",
                    body, chunks, text, buf, whole);
                return;
            }
        }
    } }
}

fn main() {
    let args: Vec<String> = std::env::args().collect();
    let label = args.get(1).cloned().unwrap_or_default();
    if label.contains("bytes") || label.is_empty() { bytes_clause(); if !label.is_empty() { return; } }
    if !(label.contains("numbering") || label.contains("numbered") || label.contains("rebased")) { return; }
    let scripts = ["", "e", "t", "et", "te", "ed", "tt"];
    for start in [0u64, 1, 7] {
        for a in scripts { for b in scripts { for fin in scripts { for err_between in [false, true] {
            FIN.with(|f| *f.borrow_mut() = fin.to_string());
            let out = RefCell::new(Vec::new());
            let mut seq = start;
            {
                let mut pipe = OpenResponsesSsePipe::new("s", &mut seq, EventSink { out: &out }, None, ValidationOptions);
                // a transport error is terminal in every caller (the pipe is dropped right after it)
                pipe.push_sse_str(a);
                pipe.push_sse_str(b);
                if err_between { pipe.emit_transport_error("boom".to_string()); } else { pipe.finish(); }
            }
            let got = out.borrow().clone();
            let want: Vec<u64> = (0..got.len() as u64).map(|i| start + i).collect();
            let frames = |s: &str| s.chars().map(|c| if c == 't' { 2 } else { 1 }).sum::<usize>();
            let expected_count = frames(a) + frames(b) + if err_between { 1 } else { frames(fin) };
            if got != want || seq != start + got.len() as u64 || got.len() != expected_count {
                println!("WITNESS {{\"function\": \"OpenResponsesSsePipe\", \"session_seq_at_start\": {}, \"events_first_push\": {:?}, \"ends_with_transport_error_instead_of_finish\": {}, \"events_second_push\": {:?}, \"events_at_finish\": {:?}, \"frame_seqs_at_sink\": {:?}, \"expected\": {:?}, \"session_seq_after\": {}, \"problem\": \"frame numbering does not continue without gap from the frames before it (e = event, t = event with text delta = 2 frames, d = done)\"}}",
                    start, a, err_between, b, fin, got, want, seq);
                return;
            }
        } } } }
    }
}
