//@@ unit c15_pipe properties=C15,C01 bounded=pipe.numbering_continues_without_gap_across_pushes_and_finish,pipe.bytes_reach_the_decoder_as_lossy_text_whatever_the_chunking
#![allow(unused_imports, dead_code, unused_variables, unused_mut)]
#![feature(allocator_api)]
use vstd::prelude::*;

verus! {

// ---- assumed std contracts ----------------------------------------------------------------------
pub assume_specification<T: std::ops::DerefMut>[ std::option::Option::<T>::as_deref_mut ](o: &mut Option<T>) -> (r: Option<&mut <T as std::ops::Deref>::Target>)
    ensures r is Some == (*old(o)) is Some;
// extend appends the items the argument yields; a Vec argument yields its elements in order
pub uninterp spec fn iter_seq<T, I: IntoIterator<Item = T>>(i: I) -> Seq<T>;
#[verifier::external_body]
pub broadcast proof fn axiom_iter_seq_vec<T>(v: Vec<T>)
    ensures #[trigger] iter_seq::<T, Vec<T>>(v) == v@,
{}
pub assume_specification<T, A: std::alloc::Allocator, I: IntoIterator<Item = T>>[ <Vec<T, A> as Extend<T>>::extend ](v: &mut Vec<T, A>, i: I)
    ensures final(v)@ == old(v)@ + iter_seq::<T, I>(i);

// ---- stubs (R8; trusted).  The mapper is seen through the contract proved in unit c15_mapper. ------
#[derive(PartialEq, Eq)]
pub enum ParsedEventKind { Done, InvalidJson, Event }
pub struct ParsedEvent { pub kind: ParsedEventKind, pub filler: u8 }
pub struct EventKind { pub filler: u8 }
pub struct Event { pub seq: u64, pub kind: EventKind }
pub struct ValidationOptions { pub filler: u8 }
pub struct SseDecoder { pub filler: u8 }
impl SseDecoder {
    // a Vec of multi-word elements has fewer than 2^60 entries
    #[verifier::external_body] pub fn push(&mut self, chunk: &str) -> (r: Vec<ParsedEvent>) ensures r@.len() < 0x1000_0000_0000_0000 { unimplemented!() }
    #[verifier::external_body] pub fn finish(&mut self) -> (r: Vec<ParsedEvent>) ensures r@.len() < 0x1000_0000_0000_0000 { unimplemented!() }
}
pub uninterp spec fn frames_of(p: ParsedEvent) -> int;    // 1 or 2 frames per parsed event (c15_mapper: map.one_provider_frame_plus_optional_text_frame)
pub struct EventFrameMapper { pub seq: u64 }
impl EventFrameMapper {
    #[verifier::external_body]
    pub fn map(&mut self, parsed: &ParsedEvent) -> (ret: Vec<Event>)
        requires old(self).seq < u64::MAX - 1,
        ensures
            1 <= ret@.len() <= 2, ret@.len() == frames_of(*parsed),
            forall|i: int| 0 <= i < ret@.len() ==> (#[trigger] ret@[i]).seq == old(self).seq + i,
            final(self).seq == old(self).seq + ret@.len(),
    { unimplemented!() }
}
pub struct ToolCallCollector { pub filler: u8 }
impl ToolCallCollector { #[verifier::external_body] pub fn observe(&mut self, e: &ParsedEvent) { unimplemented!() } }
#[derive(Clone, Copy)]
pub struct EventSink { pub filler: u8 }
impl EventSink {
    #[verifier::external_body] pub fn emit_all(&self, frames: Vec<Event>) { unimplemented!() }
}

pub open spec fn numbered_from(f: Seq<Event>, start: int) -> bool { forall|i: int| 0 <= i < f.len() ==> (#[trigger] f[i]).seq == start + i }

pub struct OpenResponsesSsePipe<'a> {
    pub session_id: String,
    pub decoder: SseDecoder,
    pub mapper: EventFrameMapper,
    pub seq_offset: u64,
    pub seq: &'a mut u64,
    pub sink: EventSink,
    pub collector: Option<&'a mut ToolCallCollector>,
}

impl<'a> OpenResponsesSsePipe<'a> {
    // numbering invariant of the pipe: the mapper counts from 0, the session counter is offset by seq_offset
    pub open spec fn wf(&self) -> bool {
        self.mapper.seq + self.seq_offset == *self.seq && *self.seq < 0x4000_0000_0000_0000
    }

    //@@ fn crates/ripd/src/session.rs OpenResponsesSsePipe::push_sse_str rules=R3 r7=1
    //@@ sig
        requires old(self).wf(),
        ensures
            final(self).mapper.seq + final(self).seq_offset == *final(self).seq,                    // [push_sse_str.numbering_continues_without_gap]
            final(self).seq_offset == old(self).seq_offset,
            *final(self).seq >= *old(self).seq,
    //@@ entry
        broadcast use axiom_iter_seq_vec;
        let ghost m0 = self.mapper.seq;
        let ghost s0 = *self.seq;
    //@@ loop 0 iter=it0
        invariant
            self.seq_offset == old(self).seq_offset, *self.seq == s0, m0 + self.seq_offset == s0, s0 < 0x4000_0000_0000_0000,
            parsed@.len() < 0x1000_0000_0000_0000, it0.index@ <= parsed@.len(),
            frames@.len() <= 2 * it0.index@,
            self.mapper.seq == m0 + frames@.len(),
            numbered_from(frames@, m0 as int),               // [push_sse_str.loop.frames_numbered_consecutively_from_mapper_counter]
    //@@ loopbody 0
        broadcast use axiom_iter_seq_vec;
    //@@ loop 1
        invariant
            self.seq_offset == old(self).seq_offset, *self.seq == s0, m0 + self.seq_offset == s0, s0 < 0x4000_0000_0000_0000,
            self.mapper.seq == m0 + frames@.len(), frames@.len() < 0x2000_0000_0000_0001, __i1 <= frames@.len(),
            // frames already re-based carry the session numbering, the rest still the mapper's
            forall|k: int| 0 <= k < __i1 ==> (#[trigger] frames@[k]).seq == s0 + k,                       // [push_sse_str.loop.frames_rebased_to_session_numbering]
            forall|k: int| __i1 <= k < frames@.len() ==> (#[trigger] frames@[k]).seq == m0 + k,
        decreases frames@.len() - __i1
    //@@ afterloop 1
        proof {
            // frames reach the sink numbered from the session counter, without gap, none dropped
            assert(numbered_from(frames@, s0 as int));                                                     // [push_sse_str.frames_reach_sink_numbered_from_session_counter]
        }
    //@@ end

    //@@ fn crates/ripd/src/session.rs OpenResponsesSsePipe::finish rules=R3 r7=1
    //@@ sig
        requires old(self).wf(),
        ensures
            final(self).mapper.seq + final(self).seq_offset == *final(self).seq,                    // [finish.numbering_continues_without_gap]
            final(self).seq_offset == old(self).seq_offset,
            *final(self).seq >= *old(self).seq,
    //@@ entry
        broadcast use axiom_iter_seq_vec;
        let ghost m0 = self.mapper.seq;
        let ghost s0 = *self.seq;
    //@@ loop 0 iter=it0
        invariant
            self.seq_offset == old(self).seq_offset, *self.seq == s0, m0 + self.seq_offset == s0, s0 < 0x4000_0000_0000_0000,
            parsed@.len() < 0x1000_0000_0000_0000, it0.index@ <= parsed@.len(),
            frames@.len() <= 2 * it0.index@,
            self.mapper.seq == m0 + frames@.len(),
            numbered_from(frames@, m0 as int),               // [finish.loop.frames_numbered_consecutively_from_mapper_counter]
    //@@ loopbody 0
        broadcast use axiom_iter_seq_vec;
    //@@ loop 1
        invariant
            self.seq_offset == old(self).seq_offset, *self.seq == s0, m0 + self.seq_offset == s0, s0 < 0x4000_0000_0000_0000,
            self.mapper.seq == m0 + frames@.len(), frames@.len() < 0x2000_0000_0000_0001, __i1 <= frames@.len(),
            // frames already re-based carry the session numbering, the rest still the mapper's
            forall|k: int| 0 <= k < __i1 ==> (#[trigger] frames@[k]).seq == s0 + k,                       // [finish.loop.frames_rebased_to_session_numbering]
            forall|k: int| __i1 <= k < frames@.len() ==> (#[trigger] frames@[k]).seq == m0 + k,
        decreases frames@.len() - __i1
    //@@ afterloop 1
        proof {
            // frames reach the sink numbered from the session counter, without gap, none dropped
            assert(numbered_from(frames@, s0 as int));                                                     // [finish.frames_reach_sink_numbered_from_session_counter]
        }
    //@@ end
}

} // verus!
fn main() {}
