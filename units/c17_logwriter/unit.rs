//@@ unit c17_logwriter properties=C17
#![allow(unused_imports, dead_code, unused_variables, unused_mut)]
use vstd::prelude::*;

verus! {

global size_of usize == 8;

// ---- stubs (R8; trusted) ----------------------------------------------------------------------
#[derive(PartialEq, Eq)]
pub enum ErrorKind { Interrupted, Other }
pub struct IoError { pub filler: u8 }
impl IoError {
    #[verifier::external_body]
    pub fn kind(&self) -> ErrorKind { unimplemented!() }
}

// byte sink with a ghost view of everything written so far (tokio::fs::File opened in append mode)
pub struct File { pub filler: u8 }
impl File {
    pub uninterp spec fn view(&self) -> Seq<u8>;
    // AsyncWriteExt::write: writes a prefix of the buffer (possibly empty), or fails without writing
    #[verifier::external_body]
    pub fn write(&mut self, b: &[u8]) -> (r: Result<usize, IoError>)
        ensures match r {
            Ok(n) => n <= b@.len() && final(self)@ == old(self)@ + b@.subrange(0, n as int),
            Err(_) => final(self)@ == old(self)@,
        },
    { unimplemented!() }
}
pub mod tokio { pub mod fs { pub use super::super::File; } }

// R6: json!({..}) becomes a struct literal; every value goes through vj(), which records it
pub struct J { pub filler: u8 }
impl J {
    pub uninterp spec fn num(&self) -> int;
    pub uninterp spec fn flag(&self) -> bool;
    pub uninterp spec fn text(&self) -> Seq<char>;
}
pub trait ToJ {
    spec fn jnum(&self) -> int;
    spec fn jflag(&self) -> bool;
    spec fn jtext(&self) -> Seq<char>;
}
impl ToJ for u64 { open spec fn jnum(&self) -> int { *self as int } open spec fn jflag(&self) -> bool { false } open spec fn jtext(&self) -> Seq<char> { Seq::empty() } }
impl ToJ for usize { open spec fn jnum(&self) -> int { *self as int } open spec fn jflag(&self) -> bool { false } open spec fn jtext(&self) -> Seq<char> { Seq::empty() } }
impl ToJ for bool { open spec fn jnum(&self) -> int { 0 } open spec fn jflag(&self) -> bool { *self } open spec fn jtext(&self) -> Seq<char> { Seq::empty() } }
impl ToJ for String { open spec fn jnum(&self) -> int { 0 } open spec fn jflag(&self) -> bool { false } open spec fn jtext(&self) -> Seq<char> { self@ } }
#[verifier::external_body]
pub fn vj<T: ToJ>(t: &T) -> (r: J)
    ensures r.num() == t.jnum(), r.flag() == t.jflag(), r.text() == t.jtext(),
{ unimplemented!() }
// the JSON object of an output frame's log reference (keys as in the json! literal of the real code)
pub struct Value { pub id: J, pub path: J, pub offset_bytes: J, pub bytes: J, pub bytes_total: J, pub bytes_stored: J, pub truncated: J }

//@@ item crates/ripd/src/tasks/logs.rs struct TaskLogWriter

pub open spec fn min_int(a: int, b: int) -> int { if a <= b { a } else { b } }
pub open spec fn sat_sub(a: int, b: int) -> int { if a >= b { a - b } else { 0 } }
pub open spec fn sat_add_u64(a: int, b: int) -> int { if a + b <= u64::MAX { a + b } else { u64::MAX as int } }
// bytes of this chunk that still fit under the cap
pub open spec fn take_of(w: TaskLogWriter, chunk: Seq<u8>) -> int { min_int(sat_sub(w.max_bytes as int, w.bytes_stored as int), chunk.len() as int) }

impl TaskLogWriter {
    //@@ fn crates/ripd/src/tasks/logs.rs TaskLogWriter::append rules=R3,R6 attr=verifier::exec_allows_no_decreases_clause
    //@@ alias std::io::ErrorKind ErrorKind
    //@@ sig
        ensures
            // frame: identity and cap never change
            final(self).artifact_id@ == old(self).artifact_id@ && final(self).rel_path@ == old(self).rel_path@ && final(self).max_bytes == old(self).max_bytes,   // [append.frame]
            final(self).bytes_total == sat_add_u64(old(self).bytes_total as int, chunk@.len() as int),                                                         // [append.total_counts_every_byte]
            // whatever happens the file only grows by a prefix of the part of the chunk under the cap
            exists|w: int| 0 <= w <= take_of(*old(self), chunk@) && final(self).file@ == old(self).file@ + chunk@.subrange(0, w),                               // [append.file_grows_by_chunk_prefix]
            ret matches Ok(v) ==> {
                &&& final(self).file@ == old(self).file@ + chunk@.subrange(0, take_of(*old(self), chunk@))       // stored file = old content ++ chunk prefix up to the cap
                &&& final(self).bytes_stored == sat_add_u64(old(self).bytes_stored as int, take_of(*old(self), chunk@))
                &&& (old(self).bytes_stored <= old(self).max_bytes ==> final(self).bytes_stored <= final(self).max_bytes)
                &&& final(self).truncated == (old(self).truncated || take_of(*old(self), chunk@) < chunk@.len())
                // the log reference of the frame: consecutive, non-overlapping ranges
                &&& v.offset_bytes.num() == old(self).bytes_stored
                &&& v.bytes.num() == take_of(*old(self), chunk@)
                &&& v.bytes_stored.num() == final(self).bytes_stored
                &&& v.bytes_total.num() == final(self).bytes_total
                &&& v.truncated.flag() == final(self).truncated
                &&& v.id.text() == old(self).artifact_id@ && v.path.text() == old(self).rel_path@
            },                                                                                                                                                  // [append.ok_accounting_and_stored_prefix]
    //@@ entry
        proof { assert(old(self).file@ + chunk@.subrange(0, 0) =~= old(self).file@); }
    //@@ loop 0
        invariant
            written <= take <= chunk@.len(),
            take == take_of(*old(self), chunk@),
            self.file@ == old(self).file@ + chunk@.subrange(0, written as int),
            self.artifact_id@ == old(self).artifact_id@ && self.rel_path@ == old(self).rel_path@ && self.max_bytes == old(self).max_bytes,
            self.bytes_stored == old(self).bytes_stored && self.truncated == old(self).truncated,
            self.bytes_total == sat_add_u64(old(self).bytes_total as int, chunk@.len() as int),
    //@@ loopbody 0
        proof {
            // writing a prefix of chunk[written..take] extends the stored prefix of chunk
            assert forall|n: int| 0 <= n <= take - written implies
                #[trigger] (chunk@.subrange(0, written as int) + chunk@.subrange(written as int, take as int).subrange(0, n)) =~= chunk@.subrange(0, written + n) by {}
        }
    //@@ end
}

} // verus!
fn main() {}
