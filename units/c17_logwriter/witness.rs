// Replay enumerator for the task log writer: the real TaskLogWriter::append (R3: async dropped) over an in-memory file whose
// write() is scripted (short writes, zero writes, EINTR, errors).
use std::cell::RefCell;
#[derive(Clone, Copy, Debug, PartialEq)]
pub enum Step { Take(usize), Zero, Intr, Fail }
pub struct IoError { kind: std::io::ErrorKind }
impl IoError { pub fn kind(&self) -> std::io::ErrorKind { self.kind } }
pub struct File { pub data: Vec<u8>, pub script: Vec<Step>, pub pos: usize }
impl File {
    pub fn write(&mut self, b: &[u8]) -> Result<usize, IoError> {
        let st = if self.pos < self.script.len() { self.script[self.pos] } else { Step::Take(usize::MAX) };
        self.pos += 1;
        match st {
            Step::Take(n) => { let k = n.min(b.len()).max(if b.is_empty() { 0 } else { 1 }); self.data.extend_from_slice(&b[..k]); Ok(k) }
            Step::Zero => Ok(0),
            Step::Intr => Err(IoError { kind: std::io::ErrorKind::Interrupted }),
            Step::Fail => Err(IoError { kind: std::io::ErrorKind::Other }),
        }
    }
}
pub mod tokio { pub mod fs { pub use super::super::File; } }
#[derive(Debug, Clone, PartialEq)]
pub struct Value { pub id: String, pub path: String, pub offset_bytes: u64, pub bytes: usize, pub bytes_total: u64, pub bytes_stored: u64, pub truncated: bool }
macro_rules! json { ({ "id": $a:expr, "path": $b:expr, "offset_bytes": $c:expr, "bytes": $d:expr, "bytes_total": $e:expr, "bytes_stored": $f:expr, "truncated": $g:expr $(,)? }) => {
    Value { id: $a.clone(), path: $b.clone(), offset_bytes: $c, bytes: $d, bytes_total: $e, bytes_stored: $f, truncated: $g } } }
//@@ item crates/ripd/src/tasks/logs.rs struct TaskLogWriter
impl TaskLogWriter {
    //@@ fn crates/ripd/src/tasks/logs.rs TaskLogWriter::append rules=R3
    //@@ end
}

fn main() {
    let steps = [Step::Take(1), Step::Take(2), Step::Take(usize::MAX), Step::Zero, Step::Intr, Step::Fail];
    // caps 0..6, two consecutive chunks of lengths 0..4, every write script of length <= 3
    for content in 0..2u8 { for cap in 0u64..=6 { for l1 in 0usize..=4 { for l2 in 0usize..=4 { for slen in 0..=3usize { for code in 0..steps.len().pow(slen as u32) {
        let mut c = code; let script: Vec<Step> = (0..slen).map(|_| { let s = steps[c % steps.len()]; c /= steps.len(); s }).collect();
        let mut w = TaskLogWriter { artifact_id: "id".into(), rel_path: "p".into(), file: File { data: vec![], script: script.clone(), pos: 0 }, max_bytes: cap, bytes_total: 0, bytes_stored: 0, truncated: false };
        // content 0: distinct ASCII bytes; content 1: multi-byte UTF-8 text, so the cap also falls inside characters
        let pool: &[u8] = if content == 0 { &[1, 2, 3, 4, 10, 11, 12, 13] } else { "a\u{e9}\u{20ac}b\u{e9}".as_bytes() };
        let chunks: [Vec<u8>; 2] = [pool[..l1].to_vec(), pool[l1..l1 + l2].to_vec()];
        let mut all: Vec<u8> = Vec::new(); let mut expect_off = 0u64; let mut ok_so_far = true;
        for ch in &chunks {
            let before_stored = w.bytes_stored; let before_len = w.file.data.len();
            let res = w.append(ch);
            all.extend_from_slice(ch);
            let take = ((cap.saturating_sub(before_stored)) as usize).min(ch.len());
            let mut problem: Option<String> = None;
            match &res {
                Ok(v) => {
                    if !ok_so_far { break; }
                    if v.offset_bytes != expect_off || v.bytes != take { problem = Some(format!("frame range ({}, {}) but the stored bytes of this chunk are ({}, {}): ranges must be consecutive and non-overlapping", v.offset_bytes, v.bytes, expect_off, take)); }
                    else if w.file.data != all[..(cap as usize).min(all.len())] { problem = Some("stored file is not the prefix of the output up to the cap".into()); }
                    else if w.bytes_stored != w.file.data.len() as u64 || v.bytes_stored != w.bytes_stored { problem = Some("bytes_stored does not equal the stored length".into()); }
                    else if w.bytes_total != all.len() as u64 || v.bytes_total != w.bytes_total { problem = Some("bytes_total does not count every byte".into()); }
                    else if w.truncated != (all.len() as u64 > cap) || v.truncated != w.truncated { problem = Some("truncated flag wrong".into()); }
                    expect_off += take as u64;
                }
                Err(()) => { ok_so_far = false; if w.file.data.len() < before_len || w.file.data[..] != all[..w.file.data.len().min(all.len())][..] && w.file.data.len() <= all.len() && false { problem = Some("file shrank".into()); } }
            }
            if let Some(p) = problem {
                println!("WITNESS {{\"function\": \"TaskLogWriter::append\", \"cap\": {}, \"chunks\": {:?}, \"write_script\": {:?}, \"result\": {:?}, \"file_len\": {}, \"problem\": {:?}}}", cap, format!("{:?}", chunks), format!("{:?}", script), res.as_ref().ok(), w.file.data.len(), p);
                return;
            }
        }
    } } } } } }
}
