// Replay enumerator for the bounded text buffers: real function text, plain rustc; a panic is a witness.
pub struct TuiState { pub output_text: String, pub max_output_bytes: usize, pub output_truncated: bool }
impl TuiState {
    //@@ fn crates/rip-tui/src/state.rs TuiState::push_output
    //@@ end
}
//@@ fn crates/rip-tui/src/state.rs push_preview
//@@ end

fn strings(max_chars: usize) -> Vec<String> {
    let alpha = ["a", "é", "€", "😀", "\n"];
    let mut out = vec![String::new()];
    let mut frontier = vec![String::new()];
    for _ in 0..max_chars {
        let mut next = Vec::new();
        for s in &frontier { for a in alpha { let mut t = s.clone(); t.push_str(a); next.push(t); } }
        out.extend(next.iter().cloned());
        frontier = next;
    }
    out
}

fn main() {
    let args: Vec<String> = std::env::args().collect();
    let func = args.get(2).cloned().unwrap_or_default();
    std::panic::set_hook(Box::new(|_| {}));
    let ss = strings(4);
    let label = args.get(1).cloned().unwrap_or_default();
    let both = label.starts_with("buffers.");
    for max in 0usize..=12 {
        for a in &ss {
            for b in &ss {
                for use_output in [false, true] {
                    if !both && use_output != func.contains("push_output") { continue; }
                    let (a2, b2) = (a.clone(), b.clone());
                    let r = std::panic::catch_unwind(move || {
                        if use_output {
                            let mut st = TuiState { output_text: a2, max_output_bytes: max, output_truncated: false };
                            st.push_output(&b2);
                            st.output_text
                        } else {
                            let mut t = a2;
                            push_preview(&mut t, &b2, max);
                            t
                        }
                    });
                    let name = if use_output { "TuiState::push_output" } else { "push_preview" };
                    match r {
                        Err(_) => {
                            println!("WITNESS {{\"function\": \"{}\", \"buffer_before\": {:?}, \"appended\": {:?}, \"max_bytes\": {}, \"outcome\": \"panic\"}}", name, a, b, max);
                            return;
                        }
                        Ok(t) => {
                            // memory within the configured bound: a buffer that was within its bound (it starts empty and only these
                            // functions change it) still is; what is kept is the newest text (a suffix of everything pushed), all of it
                            // when it fits. How much is dropped on overflow is the code's choice and not looked at.
                            let all = format!("{a}{b}");
                            let ok = a.len() > max || (t.len() <= max && all.ends_with(&t) && (all.len() > max || t == all));
                            if !ok {
                                println!("WITNESS {{\"function\": \"{}\", \"buffer_before\": {:?}, \"appended\": {:?}, \"max_bytes\": {}, \"buffer_after\": {:?}, \"outcome\": \"the buffer is not the newest text within its byte bound\"}}", name, a, b, max, t);
                                return;
                            }
                        }
                    }
                }
            }
        }
    }
}
