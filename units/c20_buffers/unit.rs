//@@ unit c20_buffers properties=C20 bounded=buffers.stay_within_their_byte_bound_and_keep_the_newest_text
#![allow(unused_imports, dead_code, unused_variables, unused_mut)]
use vstd::prelude::*;
use vstd::utf8::*;

//@@ include prelude/strings.rs

verus! {

// stub of TuiState: the three fields push_output touches, real names
pub struct TuiState {
    pub output_text: String,
    pub max_output_bytes: usize,
    pub output_truncated: bool,
}

impl TuiState {
    //@@ fn crates/rip-tui/src/state.rs TuiState::push_output
    //@@ sig
        ensures
            final(self).max_output_bytes == old(self).max_output_bytes,  // [push_output.capacity_frame]
    //@@ entry
        broadcast use axiom_string_index_from;
    //@@ loop 0
        invariant
            start <= encode_utf8(self.output_text@).len(),
        decreases encode_utf8(self.output_text@).len() - start,
    //@@ afterloop 0
        proof { encode_utf8_valid_utf8(self.output_text@); is_char_boundary_start_end_of_seq(encode_utf8(self.output_text@)); }
    //@@ end
}

//@@ fn crates/rip-tui/src/state.rs push_preview
//@@ sig
//@@ entry
    broadcast use axiom_string_index_from;
//@@ loop 0
    invariant
        start <= encode_utf8(target@).len(),
    decreases encode_utf8(target@).len() - start,
//@@ afterloop 0
    proof { encode_utf8_valid_utf8(target@); is_char_boundary_start_end_of_seq(encode_utf8(target@)); }
//@@ end

} // verus!
fn main() {}
