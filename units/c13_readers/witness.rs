// vx: label-insensitive
// Replay enumerator for the reading tools: the real run_read, run_ls, run_grep and builtins::resolve_path run natively on the real
// file system (ignore::WalkBuilder and regex are small executable stand-ins: a recursive read_dir walk and substring search).
use std::any::Any;
use std::cell::RefCell;
use std::fs::{self, File};
use std::io::{BufRead, BufReader};
use std::path::{Component, Path, PathBuf};
pub mod serde_json { #[derive(Clone, Debug, Default)] pub struct Value; }
macro_rules! json { ($($t:tt)*) => { serde_json::Value } }
pub struct ToolInvocation { pub name: String, pub args: serde_json::Value, pub timeout_ms: Option<u64> }
#[derive(Debug)]
pub struct ToolOutput { pub stdout: Vec<String>, pub stderr: Vec<String>, pub exit_code: i32, pub artifacts: Option<serde_json::Value> }
impl ToolOutput {
    pub fn failure(e: Vec<String>) -> ToolOutput { ToolOutput { stdout: vec![], stderr: e, exit_code: 1, artifacts: None } }
    pub fn invalid_args(e: String) -> ToolOutput { ToolOutput { stdout: vec![], stderr: vec![e], exit_code: 2, artifacts: None } }
}
pub struct BuiltinToolConfig { pub workspace_root: PathBuf, pub max_bytes: usize, pub max_results: usize, pub max_depth: usize, pub include_hidden: bool, pub follow_symlinks: bool }
//@@ item crates/rip-tools/src/builtins/read.rs struct ReadArgs
//@@ item crates/rip-tools/src/builtins/ls.rs struct LsArgs
//@@ item crates/rip-tools/src/builtins/grep.rs struct GrepArgs
thread_local! { static ARGS: RefCell<Option<Box<dyn Any>>> = RefCell::new(None); }
pub fn parse_args<T: 'static>(_v: serde_json::Value) -> Result<T, ToolOutput> { Ok(*ARGS.with(|a| a.borrow_mut().take().unwrap()).downcast::<T>().ok().unwrap()) }
pub fn normalize_rel_path(root: &Path, path: &Path) -> String { path.strip_prefix(root).unwrap_or(path).to_string_lossy().replace('\\', "/") }
pub struct GlobSet;
pub fn build_globset(_p: Option<&[String]>) -> Result<Option<GlobSet>, String> { Ok(None) }
pub fn globsets_match(_a: &Option<GlobSet>, _b: &Option<GlobSet>, _rel: &str) -> bool { true }
pub struct DirEntry { p: PathBuf, d: usize }
impl DirEntry { pub fn depth(&self) -> usize { self.d } pub fn path(&self) -> &Path { &self.p } pub fn file_type(&self) -> Option<fs::FileType> { fs::symlink_metadata(&self.p).ok().map(|m| m.file_type()) } }
pub struct WalkBuilder { start: PathBuf, depth: Option<usize> }
impl WalkBuilder {
    pub fn new(p: &Path) -> Self { WalkBuilder { start: p.to_path_buf(), depth: None } }
    pub fn hidden(&mut self, _b: bool) -> &mut Self { self }
    pub fn follow_links(&mut self, _b: bool) -> &mut Self { self }
    pub fn max_depth(&mut self, d: Option<usize>) -> &mut Self { self.depth = d; self }
    pub fn build(&self) -> Vec<Result<DirEntry, String>> {
        fn walk(p: &Path, d: usize, max: usize, out: &mut Vec<Result<DirEntry, String>>) { out.push(Ok(DirEntry { p: p.to_path_buf(), d })); if d < max { if let Ok(rd) = fs::read_dir(p) { let mut v: Vec<PathBuf> = rd.flatten().map(|e| e.path()).collect(); v.sort(); for q in v { walk(&q, d + 1, max, out); } } } }
        let mut out = Vec::new(); if self.start.exists() { walk(&self.start, 0, self.depth.unwrap_or(usize::MAX).min(8), &mut out); } else { out.push(Err("missing".to_string())); } out
    }
}
pub mod regex {
    pub struct Regex(pub String);
    impl Regex { pub fn is_match(&self, s: &str) -> bool { s.contains(&self.0) } }
    pub struct RegexBuilder(pub String);
    impl RegexBuilder { pub fn new(p: &str) -> Self { RegexBuilder(p.to_string()) } pub fn case_insensitive(&mut self, _b: bool) -> &mut Self { self } pub fn build(&self) -> Result<Regex, String> { Ok(Regex(self.0.clone())) } }
    pub fn escape(p: &str) -> String { p.to_string() }
}
use regex::RegexBuilder;
//@@ fn crates/rip-tools/src/builtins/mod.rs resolve_path
//@@ end
//@@ fn crates/rip-tools/src/builtins/mod.rs truncate_utf8
//@@ end
//@@ fn crates/rip-tools/src/builtins/read.rs run_read
//@@ end
//@@ fn crates/rip-tools/src/builtins/ls.rs run_ls
//@@ end
//@@ fn crates/rip-tools/src/builtins/grep.rs run_grep
//@@ end

fn main() {
    let base = std::env::temp_dir().join(format!("rip-verif-c13r-{}", std::process::id()));
    let _ = fs::remove_dir_all(&base);
    let root = base.join("ws");
    fs::create_dir_all(root.join("d")).unwrap(); fs::write(root.join("a.txt"), "inside a\n").unwrap(); fs::write(root.join("d/b.txt"), "inside b\n").unwrap();
    fs::create_dir_all(base.join("outside")).unwrap(); fs::write(base.join("outside/secret.txt"), "SECRET outside\n").unwrap(); fs::write(base.join("sibling.txt"), "SECRET sibling\n").unwrap();
    let abs_out = base.join("outside/secret.txt").to_string_lossy().to_string();
    let abs_dir = base.join("outside").to_string_lossy().to_string();
    let paths: Vec<String> = ["", ".", "./", "a.txt", "d/b.txt", "./d/./b.txt", "d", "d/", "..", "../outside/secret.txt", "../outside", "../sibling.txt", "d/../../outside/secret.txt", "d/../../outside", "a.txt/../../sibling.txt", "./../outside", "/etc/hostname", "//etc/hostname", "..\\outside", " "].iter().map(|s| s.to_string()).chain([abs_out, abs_dir]).collect();
    let leaked = |o: &ToolOutput| o.stdout.iter().chain(o.stderr.iter()).any(|l| l.contains("SECRET") || l.contains("secret.txt") || l.contains("sibling.txt") || l.contains("hostname:"));
    for old_cwd in [false, true] {
        if old_cwd { std::env::set_current_dir(&base.join("outside")).unwrap(); } else { std::env::set_current_dir(&root).unwrap(); }
        for p in &paths {
            let cfg = BuiltinToolConfig { workspace_root: root.clone(), max_bytes: 1 << 16, max_results: 100, max_depth: 6, include_hidden: true, follow_symlinks: false };
            let inv = || ToolInvocation { name: "t".into(), args: serde_json::Value, timeout_ms: None };
            ARGS.with(|a| *a.borrow_mut() = Some(Box::new(ReadArgs { path: p.clone(), start_line: None, end_line: None, max_bytes: None })));
            let o = run_read(inv(), &cfg);
            if leaked(&o) { println!("WITNESS {{\"function\": \"run_read\", \"path_argument\": {:?}, \"cwd_is_root\": {}, \"output\": {:?}, \"problem\": \"bytes from outside the workspace root were returned\"}}", p, !old_cwd, format!("{:?}", o)); let _ = fs::remove_dir_all(&base); return; }
            for recursive in [None, Some(true)] {
                ARGS.with(|a| *a.borrow_mut() = Some(Box::new(LsArgs { path: Some(p.clone()), recursive, max_depth: None, include: None, exclude: None, include_hidden: None, follow_symlinks: None })));
                let o = run_ls(inv(), &cfg);
                if leaked(&o) { println!("WITNESS {{\"function\": \"run_ls\", \"path_argument\": {:?}, \"cwd_is_root\": {}, \"output\": {:?}, \"problem\": \"entries outside the workspace root were listed\"}}", p, !old_cwd, format!("{:?}", o)); let _ = fs::remove_dir_all(&base); return; }
            }
            ARGS.with(|a| *a.borrow_mut() = Some(Box::new(GrepArgs { pattern: "SECRET".into(), path: Some(p.clone()), regex: None, case_sensitive: None, include: None, exclude: None, max_results: None, max_bytes: None, max_depth: None, include_hidden: None, follow_symlinks: None })));
            let o = run_grep(inv(), &cfg);
            if leaked(&o) { println!("WITNESS {{\"function\": \"run_grep\", \"path_argument\": {:?}, \"cwd_is_root\": {}, \"output\": {:?}, \"problem\": \"files outside the workspace root were searched\"}}", p, !old_cwd, format!("{:?}", o)); let _ = fs::remove_dir_all(&base); return; }
        }
    }
    // and the tools still work inside the root
    ARGS.with(|a| *a.borrow_mut() = Some(Box::new(ReadArgs { path: "d/b.txt".into(), start_line: None, end_line: None, max_bytes: None })));
    let cfg = BuiltinToolConfig { workspace_root: root.clone(), max_bytes: 1 << 16, max_results: 100, max_depth: 6, include_hidden: true, follow_symlinks: false };
    let o = run_read(ToolInvocation { name: "t".into(), args: serde_json::Value, timeout_ms: None }, &cfg);
    if o.stdout != vec!["inside b\n".to_string()] { println!("WITNESS {{\"function\": \"run_read\", \"path_argument\": \"d/b.txt\", \"output\": {:?}, \"problem\": \"a file inside the root is not read\"}}", format!("{:?}", o)); }
    std::env::set_current_dir("/").unwrap();
    let _ = fs::remove_dir_all(&base);
}
