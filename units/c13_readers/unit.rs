//@@ unit c13_readers properties=C13
#![allow(unused_imports, dead_code, unused_variables, unused_mut)]
#![feature(allocator_api)]
use vstd::prelude::*;

//@@ include prelude/path_model.rs
//@@ include prelude/strings.rs

verus! {
global size_of usize == 8;

// ---- effect constraints: every file-system call of a reading tool receives a path lexically inside the workspace root ----
pub uninterp spec fn ws_root() -> Path;
pub open spec fn fs_ok(p: Path) -> bool { within(p, ws_root()) }

pub mod io { use vstd::prelude::*; verus! { pub struct Error { pub filler: u8 } } }
#[verifier::external_body] pub fn vfmt() -> String { unimplemented!() }        // R9
pub mod serde_json { use vstd::prelude::*; verus! { pub struct Value { pub filler: u8 } } }
pub struct J { pub filler: u8 }
#[verifier::external_body] pub fn vj<T>(t: &T) -> J { unimplemented!() }       // R6o
#[verifier::external_body] pub fn jnil() -> serde_json::Value { unimplemented!() }
#[verifier::external_body] pub fn jcons(j: J, rest: serde_json::Value) -> serde_json::Value { unimplemented!() }
pub struct ToolInvocation { pub name: String, pub args: serde_json::Value, pub timeout_ms: Option<u64> }
pub struct ToolOutput { pub stdout: Vec<String>, pub stderr: Vec<String>, pub exit_code: i32, pub artifacts: Option<serde_json::Value> }
impl ToolOutput {
    #[verifier::external_body] pub fn failure(e: Vec<String>) -> ToolOutput { unimplemented!() }
    #[verifier::external_body] pub fn invalid_args(e: String) -> ToolOutput { unimplemented!() }
}
pub struct BuiltinToolConfig { pub workspace_root: PathBuf, pub max_bytes: usize, pub max_results: usize, pub max_depth: usize, pub include_hidden: bool, pub follow_symlinks: bool }
//@@ item crates/rip-tools/src/builtins/read.rs struct ReadArgs
//@@ item crates/rip-tools/src/builtins/ls.rs struct LsArgs
//@@ item crates/rip-tools/src/builtins/grep.rs struct GrepArgs
#[verifier::external_body] pub fn parse_args<T>(v: serde_json::Value) -> Result<T, ToolOutput> { unimplemented!() }
#[verifier::external_body] pub fn normalize_rel_path(root: &Path, p: &Path) -> String { unimplemented!() }
#[verifier::external_body] pub fn truncate_utf8(bytes: &Vec<u8>, max_bytes: usize) -> (String, bool, usize) { unimplemented!() }
pub struct GlobSet { pub filler: u8 }
#[verifier::external_body] pub fn build_globset(p: Option<&[String]>) -> Result<Option<GlobSet>, String> { unimplemented!() }
#[verifier::external_body] pub fn globsets_match(a: &Option<GlobSet>, b: &Option<GlobSet>, rel: &String) -> bool { unimplemented!() }
// contract of builtins::resolve_path as proved in unit c13_resolvers
#[verifier::external_body]
pub fn resolve_path(root: &Path, raw: &String) -> (ret: Result<PathBuf, String>)
    ensures ret matches Ok(p) ==> within(p, *root),
{ unimplemented!() }

// std::fs::File / BufReader: opening is the effect; a reader counts the lines it handed out (a file has fewer than 2^63 lines)
pub struct File { pub filler: u8 }
impl File {
    #[verifier::external_body]
    pub fn open(p: &Path) -> (r: Result<File, io::Error>)
        requires fs_ok(*p),                                                     // [fs.open.requires_path_inside_root]
    { unimplemented!() }
}
pub struct BufReader { pub filler: u8 }
impl BufReader {
    pub uninterp spec fn lines_read(&self) -> nat;
    pub uninterp spec fn bytes_out(&self) -> nat;      // bytes handed out so far (a file has fewer than 2^63 bytes)
    #[verifier::external_body] pub fn new(f: File) -> (r: BufReader) ensures r.lines_read() == 0, r.bytes_out() == 0 { unimplemented!() }
    #[verifier::external_body]
    pub fn read_line(&mut self, buf: &mut String) -> (r: Result<usize, io::Error>)
        ensures r matches Ok(n) ==> (n > 0 ==> final(self).lines_read() == old(self).lines_read() + 1) && final(self).bytes_out() == old(self).bytes_out() + n,
            final(self).bytes_out() >= old(self).bytes_out(), final(self).bytes_out() < 0x7fff_ffff_ffff_ffff, final(self).lines_read() >= old(self).lines_read(), final(self).lines_read() < 0x7fff_ffff_ffff_ffff,
    { unimplemented!() }
}
// ignore::WalkBuilder: the walk visits the start path and what lies below it; starting it is the effect
pub struct WalkError { pub filler: u8 }
impl WalkError { #[verifier::external_body] pub fn to_string(&self) -> String { unimplemented!() } }
pub struct FileType { pub filler: u8 }
impl FileType { #[verifier::external_body] pub fn is_file(&self) -> bool { unimplemented!() } }
pub struct DirEntry { pub filler: u8 }
impl DirEntry {
    #[verifier::external_body] pub fn depth(&self) -> usize { unimplemented!() }
    // every entry of a walk lies at or below the walk's start, which was required to be inside the root (lexically; symlinks are C13's stated limit)
    #[verifier::external_body] pub fn path(&self) -> (p: &Path) ensures fs_ok(*p) { unimplemented!() }
    #[verifier::external_body] pub fn file_type(&self) -> Option<FileType> { unimplemented!() }
}
pub mod regex {
    use vstd::prelude::*;
    verus! {
    pub struct Regex { pub filler: u8 }
    impl Regex { #[verifier::external_body] pub fn is_match(&self, s: &str) -> bool { unimplemented!() } }
    pub struct Error { pub filler: u8 }
    pub struct RegexBuilder { pub filler: u8 }
    impl RegexBuilder {
        #[verifier::external_body] pub fn new(p: &String) -> RegexBuilder { unimplemented!() }
        #[verifier::external_body] pub fn case_insensitive(&mut self, b: bool) -> &mut RegexBuilder { unimplemented!() }
        #[verifier::external_body] pub fn build(&self) -> Result<Regex, Error> { unimplemented!() }
    }
    #[verifier::external_body] pub fn escape(p: &String) -> String { unimplemented!() }
    } // verus!
}
pub use regex::{Regex, RegexBuilder};
#[verifier::external_body] pub fn contains_nul(s: &String) -> bool { unimplemented!() }
#[verifier::external_body] pub fn trim_eol(s: &String) -> &str { unimplemented!() }
pub struct WalkBuilder { pub filler: u8 }
impl WalkBuilder {
    #[verifier::external_body]
    pub fn new(p: &Path) -> WalkBuilder
        requires fs_ok(*p),                                                     // [fs.walk.requires_start_inside_root]
    { unimplemented!() }
    #[verifier::external_body] pub fn hidden(&mut self, b: bool) -> &mut WalkBuilder { unimplemented!() }
    #[verifier::external_body] pub fn follow_links(&mut self, b: bool) -> &mut WalkBuilder { unimplemented!() }
    #[verifier::external_body] pub fn max_depth(&mut self, d: Option<usize>) -> &mut WalkBuilder { unimplemented!() }
    #[verifier::external_body] pub fn build(&self) -> Vec<Result<DirEntry, WalkError>> { unimplemented!() }
}
pub assume_specification[ String::as_bytes ](s: &String) -> (r: &[u8]);
pub assume_specification<T: std::ops::Deref>[ std::option::Option::<T>::as_deref ](o: &Option<T>) -> (r: Option<&T::Target>);

//@@ fn crates/rip-tools/src/builtins/read.rs run_read rules=R6o,R9 attr=verifier::exec_allows_no_decreases_clause
//@@ sig
    requires config.workspace_root == ws_root(),
//@@ loop 0
    invariant line_no <= reader.lines_read(), reader.lines_read() < 0x7fff_ffff_ffff_ffff,
//@@ end

//@@ fn crates/rip-tools/src/builtins/ls.rs run_ls rules=R6o,R9 r7=0
//@@ sig
    requires config.workspace_root == ws_root(),
//@@ closure 0
    ensures true
//@@ loop 0
    invariant __i0 <= __s0.len(),
    decreases __s0.len() - __i0
//@@ end

//@@ fn crates/rip-tools/src/builtins/grep.rs run_grep rules=R6o,R9 r7=0 attr=verifier::exec_allows_no_decreases_clause
//@@ rewrite buffer.contains('\0') => contains_nul(&buffer)
//@@ rewrite buffer.trim_end_matches(['\r', '\n']) => trim_eol(&buffer)
//@@ sig
    requires config.workspace_root == ws_root(),
//@@ closure 0
    ensures true
//@@ closure 1
    ensures true
//@@ loop 0
    invariant_except_break matches == 0 || matches < max_results,
    invariant __i0 <= __s0.len(),
//@@ loop 1
    invariant line_no <= reader.lines_read(), reader.lines_read() < 0x7fff_ffff_ffff_ffff,
        bytes_read <= reader.bytes_out(), reader.bytes_out() < 0x7fff_ffff_ffff_ffff,
        __i0 <= __s0.len(), matches == 0 || matches < max_results,
//@@ end

} // verus!
fn main() {}
