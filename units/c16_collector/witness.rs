// vx: label-insensitive
// Replay of the provider-call collector: the REAL text of ToolCallCollector::observe / drain_function_calls (R1 only) over a JSON value model
// with the real accessor names, for every script of <= 5 provider events from an enumerated family (two calls A and B; output_item.added with
// status in_progress / completed, with and without call id; argument deltas and argument-done; output_item.done with and without an
// output_index, with distinct or equal indexes; a replayed done), against the reading of the property: every completed function-call item
// (an output_item.done carrying call id and name) is handed to the loop exactly once - nothing is collected from an `added` event, nothing
// is dropped - in the provider's output order (by output_index, a missing index counting as 0, ties in arrival order).
use std::collections::{BTreeMap, HashMap};
pub mod serde_json { #[derive(Clone, Debug, PartialEq)] pub enum Value { Null, Bool(bool), Number(u64), String(String), Array(Vec<Value>), Object(std::collections::BTreeMap<String, Value>) } }
pub use serde_json::Value;
impl Value {
    pub fn get(&self, key: &str) -> Option<&Value> { match self { Value::Object(m) => m.get(key), _ => None } }
    pub fn as_str(&self) -> Option<&str> { match self { Value::String(s) => Some(s.as_str()), _ => None } }
    pub fn as_u64(&self) -> Option<u64> { match self { Value::Number(n) => Some(*n), _ => None } }
    pub fn as_object(&self) -> Option<&BTreeMap<String, Value>> { match self { Value::Object(m) => Some(m), _ => None } }
}
#[derive(Debug, Clone, Copy, PartialEq, Eq)]
pub enum ParsedEventKind { Done, InvalidJson, Event }
#[derive(Debug, Clone)]
pub struct ParsedEvent { pub kind: ParsedEventKind, pub event: Option<String>, pub raw: String, pub data: Option<Value>, pub errors: Vec<String>, pub response_errors: Vec<String> }
//@@ item crates/ripd/src/session.rs struct FunctionCallItem
//@@ item crates/ripd/src/session.rs struct FunctionCallBuffer
//@@ item crates/ripd/src/session.rs struct ToolCallCollector
impl ToolCallCollector {
    //@@ fn crates/ripd/src/session.rs ToolCallCollector::observe
    //@@ end
    //@@ fn crates/ripd/src/session.rs ToolCallCollector::drain_function_calls
    //@@ end
}
fn s(x: &str) -> Value { Value::String(x.to_string()) }
fn obj(kv: Vec<(&str, Value)>) -> Value { Value::Object(kv.into_iter().map(|(k, v)| (k.to_string(), v)).collect()) }
fn ev(v: Value) -> ParsedEvent { ParsedEvent { kind: ParsedEventKind::Event, event: None, raw: String::new(), data: Some(v), errors: vec![], response_errors: vec![] } }

// the event family: (description, JSON, Some((output_index, call id, name)) when it is a completed function-call item)
fn family() -> Vec<(String, Value, Option<(u64, String, String)>)> {
    let mut out = Vec::new();
    for (c, idx) in [("a", 0u64), ("b", 1u64)] {
        let (item_id, call_id, name) = (format!("item_{c}"), format!("call_{c}"), format!("tool_{c}"));
        for status in ["in_progress", "completed"] { for with_call in [true, false] {
            let mut item = vec![("type", s("function_call")), ("id", s(&item_id)), ("name", s(&name)), ("status", s(status)), ("arguments", s(""))];
            if with_call { item.push(("call_id", s(&call_id))); }
            out.push((format!("added({c},{status}{})", if with_call { ",call_id" } else { "" }),
                obj(vec![("type", s("response.output_item.added")), ("output_index", Value::Number(idx)), ("item", obj(item))]), None));
        } }
        out.push((format!("args.delta({c})"), obj(vec![("type", s("response.function_call_arguments.delta")), ("item_id", s(&item_id)), ("output_index", Value::Number(idx)), ("delta", s("{}"))]), None));
        out.push((format!("args.done({c})"), obj(vec![("type", s("response.function_call_arguments.done")), ("item_id", s(&item_id)), ("output_index", Value::Number(idx)), ("arguments", s("{}"))]), None));
        for index in [Some(idx), Some(0u64), None] {
            let item = vec![("type", s("function_call")), ("id", s(&item_id)), ("name", s(&name)), ("status", s("completed")), ("arguments", s("{}")), ("call_id", s(&call_id))];
            let mut e = vec![("type", s("response.output_item.done")), ("item", obj(item))];
            if let Some(i) = index { e.push(("output_index", Value::Number(i))); }
            out.push((format!("done({c},index {index:?})"), obj(e), Some((index.unwrap_or(0), call_id.clone(), name.clone()))));
        }
    }
    // a non-call item and an event without a type are ignored
    out.push(("done(message item)".to_string(), obj(vec![("type", s("response.output_item.done")), ("output_index", Value::Number(0)), ("item", obj(vec![("type", s("message")), ("id", s("m"))]))]), None));
    out
}

fn main() {
    let fam = family();
    let k = fam.len();
    for n in 0..=4usize { for code in 0..k.pow(n as u32) {
        let mut c = code; let script: Vec<usize> = (0..n).map(|_| { let o = c % k; c /= k; o }).collect();
        // at least one completed item, otherwise nothing to check beyond "nothing collected"
        let mut collector = ToolCallCollector::default();
        let mut expected: Vec<(u64, String, String)> = Vec::new();
        for i in &script { collector.observe(&ev(fam[*i].1.clone())); if let Some(t) = &fam[*i].2 { expected.push(t.clone()); } }
        expected.sort_by_key(|t| t.0);      // stable: ties keep arrival order
        let got: Vec<(u64, String, String)> = collector.drain_function_calls().into_iter().map(|c| (c.output_index, c.call_id, c.name)).collect();
        let again = collector.drain_function_calls().len();
        if got != expected || again != 0 {
            println!("WITNESS {{\"function\": \"ToolCallCollector::observe + drain_function_calls\", \"provider_events\": {:?}, \"handed_to_the_loop\": {:?}, \"completed_call_items_in_output_order\": {:?}, \"left_after_drain\": {}, \"problem\": \"the calls handed to the loop are not exactly the completed function-call items, each once, in output order\"}}",
                script.iter().map(|i| fam[*i].0.clone()).collect::<Vec<_>>(), got, expected, again);
            return;
        }
    } }
}
