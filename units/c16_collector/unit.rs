//@@ unit c16_collector properties=C16 noverus bounded=collector.every_completed_call_item_is_collected_exactly_once_in_output_order
// This unit carries no Verus obligations: ToolCallCollector::observe is 130 lines of serde_json accessor chains (`and_then(|v| v.as_str())`,
// `filter`, `or_else`), HashMap entry API and `std::mem::take` - provided iterator / Option methods without vstd specifications and closures
// over JSON values. Its clause is a BOUNDED stand-in run by units/c16_collector/witness.rs on the extracted real code; the agent loop
// (c16_loop, proved) assumes exactly this about the collector: one item per completed provider call, in output order.
fn main() {}
