//@@ unit c12_hunks properties=C12
#![allow(unused_imports, dead_code, unused_variables, unused_mut)]
use vstd::prelude::*;

//@@ include prelude/strings.rs

verus! {
global size_of usize == 8;

// ---- stubs (R8; trusted) ----------------------------------------------------------------------
// trusted: a Vec never holds more than isize::MAX elements
#[verifier::external_body] pub proof fn axiom_vec_len_fits<T>(v: &Vec<T>) ensures v@.len() <= isize::MAX as nat {}
#[verifier::external_body] pub fn vfmt() -> String { unimplemented!() }        // R9
pub mod io { use vstd::prelude::*; verus! {
    pub struct Error { pub filler: u8 }
    pub enum ErrorKind { InvalidData, Other }
    impl Error { #[verifier::external_body] pub fn new(kind: ErrorKind, msg: String) -> Error { unimplemented!() } }
} }
pub struct Path { pub filler: u8 }
pub struct Display { pub filler: u8 }
impl Path { #[verifier::external_body] pub fn display(&self) -> Display { unimplemented!() } }
//@@ item crates/rip-workspace/src/patch.rs struct PatchHunk dropderive=Clone,PartialEq,Eq

// line splitting / joining are not under contract here (they are exercised by the bounded patch clause of c12_patch): uninterpreted
pub uninterp spec fn split_spec(text: Seq<char>) -> (Seq<String>, bool);
pub uninterp spec fn ending_spec(text: Seq<char>) -> Seq<char>;
pub uninterp spec fn join_spec(lines: Seq<String>, trailing: bool, ending: Seq<char>) -> Seq<char>;
#[verifier::external_body] pub fn detect_line_ending(text: &str) -> (r: &'static str) ensures r@ == ending_spec(text@) { unimplemented!() }
#[verifier::external_body] pub fn split_lines(text: &str) -> (r: (Vec<String>, bool)) ensures (r.0@, r.1) == split_spec(text@) { unimplemented!() }
#[verifier::external_body] pub fn join_lines(lines: &Vec<String>, trailing_newline: bool, line_ending: &str) -> (r: String) ensures r@ == join_spec(lines@, trailing_newline, line_ending@) { unimplemented!() }

// ---- specification, from the property statement: "the result of performing the hunks in order" ----------------------------------
// needle occurs in lines at idx
pub open spec fn occurs_at(lines: Seq<String>, needle: Seq<String>, idx: int) -> bool {
    0 <= idx && idx + needle.len() <= lines.len() && lines.subrange(idx, idx + needle.len()) == needle
}
// the first occurrence at or after start, if any
pub open spec fn is_first_match(lines: Seq<String>, needle: Seq<String>, start: int, r: Option<int>) -> bool {
    match r {
        Some(idx) => start <= idx && occurs_at(lines, needle, idx) && forall|j: int| start <= j < idx ==> !occurs_at(lines, needle, j),
        None => forall|j: int| start <= j ==> !occurs_at(lines, needle, j),
    }
}
// one hunk: empty context appends at the end; otherwise the first occurrence of the context at or after the cursor is replaced and
// the cursor moves behind the replacement; no occurrence = the patch does not apply
pub open spec fn hunk_step(lines: Seq<String>, cursor: int, h: PatchHunk, pos: Option<int>) -> Option<(Seq<String>, int)> {
    if h.before@.len() == 0 {
        Some((lines + h.after@, (lines.len() + h.after@.len()) as int))
    } else {
        match pos {
            Some(p) => Some((lines.subrange(0, p) + h.after@ + lines.subrange(p + h.before@.len(), lines.len() as int), p + h.after@.len())),
            None => None,
        }
    }
}
// performing the first k hunks in order from (lines0, cursor 0); `None` once a hunk does not apply
pub open spec fn after_hunks(lines0: Seq<String>, hunks: Seq<PatchHunk>, k: int) -> Option<(Seq<String>, int)>
    decreases k
{
    if k <= 0 { Some((lines0, 0int)) } else {
        match after_hunks(lines0, hunks, k - 1) {
            None => None,
            Some(st) => {
                let h = hunks[k - 1];
                let pos = choose|r: Option<int>| is_first_match(st.0, h.before@, st.1, r);
                hunk_step(st.0, st.1, h, pos)
            }
        }
    }
}

pub proof fn lemma_first_match_unique(lines: Seq<String>, needle: Seq<String>, start: int, r1: Option<int>, r2: Option<int>)
    requires is_first_match(lines, needle, start, r1), is_first_match(lines, needle, start, r2),
    ensures r1 == r2,
{
    match (r1, r2) {
        (Some(a), Some(b)) => { if a < b { assert(!occurs_at(lines, needle, a)); } else if b < a { assert(!occurs_at(lines, needle, b)); } }
        (Some(a), None) => { assert(!occurs_at(lines, needle, a)); }
        (None, Some(b)) => { assert(!occurs_at(lines, needle, b)); }
        (None, None) => {}
    }
}
pub proof fn lemma_none_stays(lines0: Seq<String>, hunks: Seq<PatchHunk>, k: int, n: int)
    requires 0 <= k <= n, after_hunks(lines0, hunks, k) is None,
    ensures after_hunks(lines0, hunks, n) is None,
    decreases n - k
{
    if k < n { lemma_none_stays(lines0, hunks, k, n - 1); }
}
// what the k-th hunk does, given the (unique) result of the first-match search for it
pub proof fn lemma_step(lines0: Seq<String>, hunks: Seq<PatchHunk>, k: int, lines: Seq<String>, cursor: int, r: Option<int>)
    requires 0 < k <= hunks.len(), after_hunks(lines0, hunks, k - 1) == Some((lines, cursor)), is_first_match(lines, hunks[k - 1].before@, cursor, r),
    ensures after_hunks(lines0, hunks, k) == hunk_step(lines, cursor, hunks[k - 1], r),
{
    let h = hunks[k - 1];
    let c = choose|x: Option<int>| is_first_match(lines, h.before@, cursor, x);
    lemma_first_match_unique(lines, h.before@, cursor, c, r);
}
// the first-match search through its assumed contract (RangeInclusive::find over slice comparisons is outside this Verus; the function is
// exercised by the bounded clause of c12_patch)
#[verifier::external_body]
pub fn find_subslice_from(haystack: &Vec<String>, needle: &Vec<String>, start: usize) -> (r: Option<usize>)
    requires needle@.len() > 0,
    ensures is_first_match(haystack@, needle@, start as int, match r { Some(i) => Some(i as int), None => None }),
{ unimplemented!() }
// Vec::splice(pos..end, iter.cloned()) and extend_from_slice, as sequence equations (cloned Strings are equal Strings)
#[verifier::external_body]
pub fn vsplice(lines: &mut Vec<String>, pos: usize, end: usize, with: &Vec<String>)
    requires pos <= end <= old(lines)@.len(),
    ensures final(lines)@ == old(lines)@.subrange(0, pos as int) + with@ + old(lines)@.subrange(end as int, old(lines)@.len() as int),
{ unimplemented!() }
#[verifier::external_body]
pub fn vextend(lines: &mut Vec<String>, with: &Vec<String>)
    ensures final(lines)@ == old(lines)@ + with@,
{ unimplemented!() }

// ---- the first-match search itself (added in the second build session): the real function, renamed so that apply_hunks_to_text keeps
// seeing it through the contract above - which is, clause for clause, the one proved here. Only the iterator chain
// `(lo..=hi).find(|&idx| &haystack[idx..idx + needle.len()] == needle)` is replaced (R11) by a stand-in with the chain's meaning:
// the first idx in lo..=hi whose window equals the needle; every window it looks at must lie inside the haystack (the slice
// expression panics otherwise), which is a proof obligation of the caller.
#[verifier::external_body]
pub fn first_window_eq(haystack: &[String], needle: &[String], lo: usize, hi: usize) -> (r: Option<usize>)
    requires needle@.len() > 0, lo <= hi ==> hi + needle@.len() <= haystack@.len(),          // [find_subslice.every_window_compared_lies_inside_the_haystack]
    ensures match r {
        Some(i) => lo <= i <= hi && occurs_at(haystack@, needle@, i as int) && forall|j: int| lo <= j < i ==> !occurs_at(haystack@, needle@, j),
        None => forall|j: int| lo <= j <= hi ==> !occurs_at(haystack@, needle@, j),
    },
{ unimplemented!() }

//@@ fn crates/rip-workspace/src/patch.rs find_subslice_from rename=find_subslice_from_real name=find_subslice_from_real
//@@ rewrite (start..=(haystack.len() - needle.len())) .find(|&idx| &haystack[idx..idx + needle.len()] == needle) ==>> first_window_eq(haystack, needle, start, haystack.len() - needle.len())
//@@ sig
    ensures
        needle@.len() > 0 ==> is_first_match(haystack@, needle@, start as int, match ret { Some(i) => Some(i as int), None => None }),      // [find_subslice.first_occurrence_at_or_after_the_cursor_or_none]
        needle@.len() == 0 ==> ret == Some(if start <= haystack@.len() { start } else { haystack@.len() as usize }),                       // [find_subslice.empty_context_needs_no_search]
//@@ end

//@@ fn crates/rip-workspace/src/patch.rs apply_hunks_to_text rules=R9 r7=0
//@@ rewrite lines.extend_from_slice(&hunk.after); => vextend(&mut lines, &hunk.after);
//@@ rewrite lines.splice(pos..end, hunk.after.iter().cloned()); => vsplice(&mut lines, pos, end, &hunk.after);
//@@ sig
    ensures
        // success: the text is the joined result of performing every hunk in order on the split original, with the original's
        // line-ending style and trailing newline; failure: some hunk does not apply
        ret matches Ok(s) ==> (after_hunks(split_spec(original@).0, hunks@, hunks@.len() as int) matches Some(st)
            && s@ == join_spec(st.0, split_spec(original@).1, ending_spec(original@))),                              // [apply_hunks.equals_performing_the_hunks_in_order_line_ending_and_trailing_newline_kept]
        ret is Err ==> after_hunks(split_spec(original@).0, hunks@, hunks@.len() as int) is None,                       // [apply_hunks.fails_only_when_a_hunk_does_not_apply]
//@@ loop 0
    invariant
        __s0@ == hunks@,
        __i0 <= hunks@.len(),
        after_hunks(split_spec(original@).0, hunks@, __i0 as int) == Some((lines@, cursor as int)),
        cursor <= lines@.len(),
    decreases hunks@.len() - __i0
//@@ loopbody 0
    proof {
        axiom_vec_len_fits(&lines); axiom_vec_len_fits(&hunk.after); axiom_vec_len_fits(&hunk.before);
        let lines0 = split_spec(original@).0;
        assert(*hunk == hunks@[__i0 - 1]);
        // whatever the first-match search answers for this hunk, the fold follows it; and a missing context fails the whole patch
        assert forall|r: Option<int>| is_first_match(lines@, hunk.before@, cursor as int, r) implies
            after_hunks(lines0, hunks@, __i0 as int) == hunk_step(lines@, cursor as int, *hunk, r)
            && ((hunk.before@.len() > 0 && r is None) ==> after_hunks(lines0, hunks@, hunks@.len() as int) is None) by {
            lemma_step(lines0, hunks@, __i0 as int, lines@, cursor as int, r);
            if hunk.before@.len() > 0 && r is None { lemma_none_stays(lines0, hunks@, __i0 as int, hunks@.len() as int); }
        }
        // an empty context needs no search
        if hunk.before@.len() == 0 {
            let c = choose|x: Option<int>| is_first_match(lines@, hunk.before@, cursor as int, x);
            assert(after_hunks(lines0, hunks@, __i0 as int) == hunk_step(lines@, cursor as int, *hunk, c));
        }
    }
//@@ closure 0
    ensures true
//@@ end

} // verus!
fn main() {}
