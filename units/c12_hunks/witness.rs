// The text-update function is replayed by the patch enumerator (shared with unit c12_patch); labels of this unit start with apply_hunks.
//@@ include units/c12_patch/witness.rs
