//@@ unit c04_rebuild properties=C04,C08
#![allow(unused_imports, dead_code, unused_variables, unused_mut, unused_assignments)]
use vstd::prelude::*;

//@@ include prelude/kernel_model.rs
//@@ include prelude/strings.rs

verus! {

// The rebuilds of the derived sidecars from the thread's truth stream (`rebuild_best_effort` and the two it calls). A cache answers for
// the truth log only if a rebuilt sidecar holds EXACTLY the frames the truth-log path would look at: every frame of this thread (full
// sidecar), every message / run-ended frame of it (messages+runs sidecar), every checkpoint frame of it (checkpoint sidecar) - in
// stream order, nothing of another thread, nothing left out. Under contract: the sequence of frames handed to the sidecar's writer
// (a tracked ghost record, advanced by the stand-in for `writer.write_all(line.as_bytes())`) equals the fold `kept` over the events;
// a frame that cannot be serialised is the only thing that may be skipped. I/O results are ignored by the code ("best effort") and
// by the contract alike; the indexes written next to the sidecars are not looked at.
#[derive(PartialEq, Eq, Clone, Copy, Structural)]
pub enum StreamKind { Session, Task, Continuity, Artifact }
pub uninterp spec fn kind_of(e: Event) -> StreamKind;           // rip-kernel's Event::stream_kind (a match over the frame type)
pub uninterp spec fn serializable(e: Event) -> bool;            // serde_json::to_string(event) succeeds
impl Event {
    #[verifier::external_body] pub fn stream_kind(&self) -> (r: StreamKind) ensures r == kind_of(*self) { unimplemented!() }
    #[verifier::external_body] pub fn stream_id(&self) -> (r: &str) ensures r@ == self.session_id@ { unimplemented!() }
}
// std: `&str == &str` compares the character sequences (vstd leaves eq_spec of this impl unspecified; trusted)
#[verifier::external_body]
pub broadcast proof fn axiom_refstr_eq_refstr<'a, 'b>(a: &&'a str, b: &&'b str)
    ensures #[trigger] vstd::std_specs::cmp::PartialEqSpec::<&'b str>::eq_spec(a, b) == (a@ == b@),
{}
#[verifier::external_body]
pub broadcast proof fn axiom_refstr_eq_refstr_obeys<'a, 'b>()
    ensures #[trigger] <&'a str as vstd::std_specs::cmp::PartialEqSpec<&'b str>>::obeys_eq_spec(),
{}

// which: 0 the full sidecar, 1 the messages+runs sidecar, 2 the checkpoint sidecar
pub open spec fn wanted(e: Event, id: Seq<char>, which: int) -> bool {
    kind_of(e) == StreamKind::Continuity && e.session_id@ == id && serializable(e)
    && (which == 0
        || (which == 1 && (e.kind is ContinuityMessageAppended || e.kind is ContinuityRunEnded))
        || (which == 2 && e.kind is ContinuityCompactionCheckpointCreated))
}
pub open spec fn kept(events: Seq<Event>, id: Seq<char>, which: int) -> Seq<Event>
    decreases events.len()
{
    if events.len() == 0 { Seq::empty() } else {
        let rest = kept(events.drop_last(), id, which);
        if wanted(events.last(), id, which) { rest.push(events.last()) } else { rest }
    }
}
pub tracked struct Written { pub ghost frames: Seq<Event> }

pub struct PathBuf { pub filler: u8 }
impl PathBuf {
    #[verifier::external_body] pub fn exists(&self) -> bool { unimplemented!() }
    #[verifier::external_body] pub fn parent(&self) -> Option<&PathBuf> { unimplemented!() }
    #[verifier::external_body] pub fn with_extension(&self, e: &str) -> PathBuf { unimplemented!() }
}
pub struct IoError { pub filler: u8 }
pub struct SerdeError { pub filler: u8 }
pub struct File { pub filler: u8 }
impl File { #[verifier::external_body] pub fn create(p: &PathBuf) -> Result<File, IoError> { unimplemented!() } }
// a serialised frame: the text is not looked at, only which frame it is
pub struct Line { pub of: Ghost<Event>, pub filler: u8 }
impl Line { #[verifier::external_body] pub fn len(&self) -> (r: usize) ensures r < usize::MAX { unimplemented!() } }
#[verifier::external_body] pub fn event_to_string(e: &Event) -> (r: Result<Line, SerdeError>)
    ensures r is Ok <==> serializable(*e), r matches Ok(l) ==> l.of@ == *e,
{ unimplemented!() }
pub struct BufWriter { pub filler: u8 }
impl BufWriter {
    #[verifier::external_body] pub fn new(f: File) -> BufWriter { unimplemented!() }
    #[verifier::external_body] pub fn write_all(&mut self, b: &[u8]) -> Result<(), IoError> { unimplemented!() }
    #[verifier::external_body] pub fn flush(&mut self) -> Result<(), IoError> { unimplemented!() }
}
// `writer.write_all(line.as_bytes())` on the sidecar's writer: the frame is handed to the sidecar
#[verifier::external_body]
pub fn write_frame(Tracked(out): Tracked<&mut Written>, w: &mut BufWriter, l: &Line) -> (r: Result<(), IoError>)
    ensures final(out).frames == old(out).frames.push(l.of@),
{ unimplemented!() }
#[verifier::external_body] pub fn nl_bytes() -> &'static [u8] { unimplemented!() }
#[verifier::external_body] pub fn str_bytes(s: &String) -> &[u8] { unimplemented!() }
pub mod fs { use super::*; verus! {
    #[verifier::external_body] pub fn create_dir_all(p: &PathBuf) -> Result<(), IoError> { unimplemented!() }
    #[verifier::external_body] pub fn remove_file<P>(p: P) -> Result<(), IoError> { unimplemented!() }
    #[verifier::external_body] pub fn rename<A, B>(a: A, b: B) -> Result<(), IoError> { unimplemented!() }
} }
pub struct SeqSeekIndexEntryV1 { pub filler: u8 }
impl SeqSeekIndexEntryV1 { #[verifier::external_body] pub fn new(seq: u64, offset: u64) -> SeqSeekIndexEntryV1 { unimplemented!() } }
#[verifier::external_body] pub fn entry_to_string(e: &SeqSeekIndexEntryV1) -> Result<String, SerdeError> { unimplemented!() }
pub struct SidecarIndexBuilderV1 { pub filler: u8 }
impl SidecarIndexBuilderV1 {
    #[verifier::external_body] pub fn new() -> SidecarIndexBuilderV1 { unimplemented!() }
    #[verifier::external_body] pub fn observe_event(&mut self, e: &Event, offset: u64) { unimplemented!() }
    #[verifier::external_body] pub fn write_best_effort(&self, dir: &PathBuf, id: &str) -> Result<(), IoError> { unimplemented!() }
}
#[verifier::external_body] pub fn rebuild_message_index_from_sidecar_v1(sidecar: &PathBuf, idx: &PathBuf) -> Result<(), IoError> { unimplemented!() }
#[verifier::external_body] pub fn rebuild_message_ordinal_index_from_events_v1(p: &PathBuf, id: &str, events: &[Event]) -> Result<(), IoError> { unimplemented!() }
#[verifier::external_body] pub fn rebuild_compaction_checkpoint_index_from_sidecar_v1(sidecar: &PathBuf, idx: &PathBuf, id: &str) -> (r: IoResult<()>)
    requires *sidecar == ContinuityStreamCache::file_of(id@, 2) && *idx == ContinuityStreamCache::file_of(id@, 3),      // [ensure.the_checkpoint_index_is_rebuilt_from_this_threads_checkpoint_sidecar]
{ unimplemented!() }
#[verifier::external_body] pub fn rebuild_compaction_checkpoint_index_from_events_v1(p: &PathBuf, id: &str, events: &[Event]) -> Result<(), IoError> { unimplemented!() }

// ---- the two rebuilds that read the FULL sidecar file back (lazy rebuild of a derived sidecar that is missing) -----------------------
// Lines as byte strings: `raw_lines_of(path)` = the raw lines of the file in order (each with its terminator), `stripped` = a line
// without its terminator (strip_line_terminator, proved in c04_scan), `header_of` = the header serde decodes from a line.
pub type Path = PathBuf;
pub type IoResult<T> = Result<T, IoError>;
pub mod io {
    pub use super::IoError as Error;
    pub use super::IoResult as Result;
    use vstd::prelude::*;
    verus! {
    pub enum ErrorKind { InvalidData, Other }
    impl Error { #[verifier::external_body] pub fn new<E>(kind: ErrorKind, e: E) -> Error { unimplemented!() } }
    } // verus!
}
//@@ item crates/ripd/src/continuity_stream_cache.rs struct SidecarEventHeader
pub uninterp spec fn raw_lines_of(p: PathBuf) -> Seq<Seq<u8>>;
pub uninterp spec fn stripped(raw: Seq<u8>) -> Seq<u8>;
pub uninterp spec fn header_of(line: Seq<u8>) -> SidecarEventHeader;
pub open spec fn wanted_type(t: Seq<char>, which: int) -> bool {
    (which == 1 && (t == "continuity_message_appended"@ || t == "continuity_run_ended"@)) || (which == 2 && t == "continuity_compaction_checkpoint_created"@)
}
pub open spec fn kept_lines(raw: Seq<Seq<u8>>, which: int) -> Seq<Seq<u8>>
    decreases raw.len()
{
    if raw.len() == 0 { Seq::empty() } else {
        let rest = kept_lines(raw.drop_last(), which);
        let l = stripped(raw.last());
        if l.len() > 0 && wanted_type(header_of(l).event_type@, which) { rest.push(l) } else { rest }
    }
}
pub tracked struct WrittenLines { pub ghost lines: Seq<Seq<u8>> }
// what an `ensure_*` call did: whether a lazy rebuild it started failed
pub tracked struct Ensured { pub ghost rebuild_failed: bool }
pub struct RFile { pub of: Ghost<Seq<Seq<u8>>>, pub filler: u8 }
#[verifier::external_body] pub fn open_file(p: &PathBuf) -> (r: IoResult<RFile>) ensures r matches Ok(f) ==> f.of@ == raw_lines_of(*p) { unimplemented!() }
pub struct BufReader { pub filler: u8 }
impl BufReader {
    pub uninterp spec fn rest(&self) -> Seq<Seq<u8>>;      // the raw lines not yet read
    #[verifier::external_body] pub fn new(f: RFile) -> (r: BufReader) ensures r.rest() == f.of@ { unimplemented!() }
    // BufRead::read_until(b'\n', buf): appends the next raw line; 0 at the end of the file
    #[verifier::external_body] pub fn read_until(&mut self, delim: u8, buf: &mut Vec<u8>) -> (r: IoResult<usize>)
        ensures r matches Ok(n) ==> (
            if old(self).rest().len() == 0 { n == 0 && final(self).rest() == old(self).rest() && final(buf)@ == old(buf)@ }
            else { n > 0 && final(buf)@ == old(buf)@ + old(self).rest()[0] && final(self).rest() == old(self).rest().drop_first() }),
    { unimplemented!() }
}
#[verifier::external_body] pub fn strip_line_terminator(buf: &mut Vec<u8>) -> (r: &[u8]) ensures r@ == stripped(old(buf)@) { unimplemented!() }
#[verifier::external_body] pub fn header_from_slice(line: &[u8]) -> (r: Result<SidecarEventHeader, SerdeError>) ensures r matches Ok(h) ==> h == header_of(line@) { unimplemented!() }
// `writer.write_all(line)` on the derived sidecar's writer
#[verifier::external_body]
pub fn write_line(Tracked(out): Tracked<&mut WrittenLines>, w: &mut BufWriter, l: &[u8]) -> (r: IoResult<()>)
    ensures final(out).lines == old(out).lines.push(l@),
{ unimplemented!() }
#[verifier::external_body] pub fn rebuild_messages_runs_seek_index_best_effort_v1(sidecar: &PathBuf, seek: &PathBuf) -> IoResult<()> { unimplemented!() }
#[verifier::external_body] pub fn rebuild_message_index_from_sidecar_io(sidecar: &PathBuf, idx: &PathBuf) -> IoResult<()> { unimplemented!() }
pub proof fn lemma_kept_lines_step(all: Seq<Seq<u8>>, k: int, which: int)
    requires 0 <= k < all.len(),
    ensures kept_lines(all.subrange(0, k + 1), which) == {
        let l = stripped(all[k]);
        if l.len() > 0 && wanted_type(header_of(l).event_type@, which) { kept_lines(all.subrange(0, k), which).push(l) } else { kept_lines(all.subrange(0, k), which) } },
{
    assert(all.subrange(0, k + 1).drop_last() =~= all.subrange(0, k));
    assert(all.subrange(0, k + 1).last() == all[k]);
}

pub struct ContinuityStreamCache { pub dir: PathBuf }
impl ContinuityStreamCache {
    // which file of the cache directory a path is: 0 the full sidecar, 1 messages+runs, 2 checkpoints, 3 the checkpoint index
    pub uninterp spec fn file_of(id: Seq<char>, which: int) -> PathBuf;
    #[verifier::external_body] pub fn path_for(&self, id: &str) -> (r: PathBuf) ensures r == Self::file_of(id@, 0) { unimplemented!() }
    #[verifier::external_body] pub fn messages_runs_path_for_v1(&self, id: &str) -> (r: PathBuf) ensures r == Self::file_of(id@, 1) { unimplemented!() }
    #[verifier::external_body] pub fn compaction_checkpoints_path_for_v1(&self, id: &str) -> (r: PathBuf) ensures r == Self::file_of(id@, 2) { unimplemented!() }
    #[verifier::external_body] pub fn compaction_checkpoints_index_path_for_v1(&self, id: &str) -> (r: PathBuf) ensures r == Self::file_of(id@, 3) { unimplemented!() }
    #[verifier::external_body] pub fn messages_runs_seq_index_path_v1(&self, id: &str) -> PathBuf { unimplemented!() }
    #[verifier::external_body] pub fn messages_runs_message_index_path_v1(&self, id: &str) -> PathBuf { unimplemented!() }
    #[verifier::external_body] pub fn messages_runs_message_ordinal_index_path_v1(&self, id: &str) -> PathBuf { unimplemented!() }

    //@@ fn crates/ripd/src/continuity_stream_cache.rs ContinuityStreamCache::rebuild_messages_runs_best_effort_v1 r7=0
    //@@ alias serde_json::to_string(event) event_to_string(event)
    //@@ rewrite &[Event] ==>> &[Event], Tracked(out): Tracked<&mut Written>
    //@@ rewrite serde_json::to_string(&SeqSeekIndexEntryV1::new(event.seq, offset)) ==>> entry_to_string(&SeqSeekIndexEntryV1::new(event.seq, offset))
    //@@ rewrite writer.write_all(line.as_bytes()) ==>> write_frame(Tracked(&mut *out), &mut writer, &line)
    //@@ rewrite entry.as_bytes() ==>> str_bytes(&entry)
    //@@ rewrite b"\n" ==>> nl_bytes()
    //@@ sig
        requires old(out).frames.len() == 0,
        // nothing at all (the file could not be created: no cache, the truth log answers) or exactly the fold
        ensures final(out).frames.len() == 0 || final(out).frames == kept(events@, continuity_id@, 1),      // [rebuild.messages_runs_sidecar_holds_exactly_the_threads_message_and_run_ended_frames_in_stream_order]
    //@@ loop 0
        invariant __i0 <= __s0.len(), __s0@ == events@,
            out.frames == kept(events@.subrange(0, __i0 as int), continuity_id@, 1),
        decreases __s0.len() - __i0
    //@@ loopbody 0
        broadcast use axiom_refstr_eq_refstr, axiom_refstr_eq_refstr_obeys;
        proof {
            assert(events@.subrange(0, __i0 as int).drop_last() =~= events@.subrange(0, __i0 - 1));
            assert(events@.subrange(0, __i0 as int).last() == *event);
        }
    //@@ afterloop 0
        proof { assert(events@.subrange(0, __i0 as int) =~= events@); }
    //@@ end

    //@@ fn crates/ripd/src/continuity_stream_cache.rs ContinuityStreamCache::rebuild_compaction_checkpoints_best_effort_v1 r7=0
    //@@ alias serde_json::to_string(event) event_to_string(event)
    //@@ rewrite &[Event] ==>> &[Event], Tracked(out): Tracked<&mut Written>
    //@@ rewrite writer.write_all(line.as_bytes()) ==>> write_frame(Tracked(&mut *out), &mut writer, &line)
    //@@ rewrite b"\n" ==>> nl_bytes()
    //@@ sig
        requires old(out).frames.len() == 0,
        ensures final(out).frames.len() == 0 || final(out).frames == kept(events@, continuity_id@, 2),      // [rebuild.checkpoint_sidecar_holds_exactly_the_threads_checkpoint_frames_in_stream_order]
    //@@ loop 0
        invariant __i0 <= __s0.len(), __s0@ == events@,
            out.frames == kept(events@.subrange(0, __i0 as int), continuity_id@, 2),
        decreases __s0.len() - __i0
    //@@ loopbody 0
        broadcast use axiom_refstr_eq_refstr, axiom_refstr_eq_refstr_obeys;
        proof {
            assert(events@.subrange(0, __i0 as int).drop_last() =~= events@.subrange(0, __i0 - 1));
            assert(events@.subrange(0, __i0 as int).last() == *event);
        }
    //@@ afterloop 0
        proof { assert(events@.subrange(0, __i0 as int) =~= events@); }
    //@@ end

    //@@ fn crates/ripd/src/continuity_stream_cache.rs ContinuityStreamCache::rebuild_best_effort r7=0
    //@@ alias serde_json::to_string(event) event_to_string(event)
    //@@ rewrite &[Event] ==>> &[Event], Tracked(out): Tracked<&mut Written>, Tracked(out_mr): Tracked<&mut Written>, Tracked(out_cp): Tracked<&mut Written>
    //@@ rewrite writer.write_all(line.as_bytes()) ==>> write_frame(Tracked(&mut *out), &mut writer, &line)
    //@@ rewrite b"\n" ==>> nl_bytes()
    //@@ rewrite self.rebuild_messages_runs_best_effort_v1(continuity_id, events) ==>> self.rebuild_messages_runs_best_effort_v1(continuity_id, events, Tracked(&mut *out_mr))
    //@@ rewrite self.rebuild_compaction_checkpoints_best_effort_v1(continuity_id, events) ==>> self.rebuild_compaction_checkpoints_best_effort_v1(continuity_id, events, Tracked(&mut *out_cp))
    //@@ sig
        requires old(out).frames.len() == 0, old(out_mr).frames.len() == 0, old(out_cp).frames.len() == 0,
        ensures
            final(out).frames.len() == 0 || final(out).frames == kept(events@, continuity_id@, 0),      // [rebuild.full_sidecar_holds_exactly_the_threads_frames_in_stream_order]
            // the derived sidecars are rebuilt from the same events (or not at all when the full sidecar could not be created)
            final(out_mr).frames.len() == 0 || final(out_mr).frames == kept(events@, continuity_id@, 1),
            final(out_cp).frames.len() == 0 || final(out_cp).frames == kept(events@, continuity_id@, 2),
    //@@ loop 0
        invariant __i0 <= __s0.len(), __s0@ == events@,
            out.frames == kept(events@.subrange(0, __i0 as int), continuity_id@, 0),
            out_mr.frames.len() == 0, out_cp.frames.len() == 0,
        decreases __s0.len() - __i0
    //@@ loopbody 0
        broadcast use axiom_refstr_eq_refstr, axiom_refstr_eq_refstr_obeys;
        proof {
            assert(events@.subrange(0, __i0 as int).drop_last() =~= events@.subrange(0, __i0 - 1));
            assert(events@.subrange(0, __i0 as int).last() == *event);
        }
    //@@ afterloop 0
        proof { assert(events@.subrange(0, __i0 as int) =~= events@); }
    //@@ end

    //@@ fn crates/ripd/src/continuity_stream_cache.rs ContinuityStreamCache::rebuild_compaction_checkpoints_from_full_sidecar_best_effort_v1 attr=verifier::exec_allows_no_decreases_clause
    //@@ alias serde_json::from_slice header_from_slice
    //@@ alias File::open open_file
    //@@ rewrite &str ==>> &str, Tracked(out): Tracked<&mut WrittenLines>
    //@@ rewrite writer.write_all(line)? ==>> write_line(Tracked(&mut *out), &mut writer, line)?
    //@@ rewrite b"\n" ==>> nl_bytes()
    //@@ sig
        requires old(out).lines.len() == 0,
            *full_sidecar_path == Self::file_of(continuity_id@, 0) && *comp_sidecar_path == Self::file_of(continuity_id@, 2),      // [ensure.a_lazy_rebuild_reads_this_threads_full_sidecar_and_writes_its_own_derived_sidecar]
        ensures ret is Ok ==> final(out).lines == kept_lines(raw_lines_of(*full_sidecar_path), 2),      // [rebuild_from_full_sidecar.checkpoint_sidecar_holds_exactly_the_checkpoint_lines_of_the_full_sidecar_in_order]
    //@@ loop 0
        invariant
            reader.rest().len() <= raw_lines_of(*full_sidecar_path).len(),
            reader.rest() == raw_lines_of(*full_sidecar_path).subrange(raw_lines_of(*full_sidecar_path).len() - reader.rest().len(), raw_lines_of(*full_sidecar_path).len() as int),
            out.lines == kept_lines(raw_lines_of(*full_sidecar_path).subrange(0, raw_lines_of(*full_sidecar_path).len() - reader.rest().len()), 2),
        ensures reader.rest().len() == 0,
    //@@ loopbody 0
        broadcast use group_string_eq;
        let ghost all = raw_lines_of(*full_sidecar_path);
        let ghost k = all.len() - reader.rest().len();
        proof { if reader.rest().len() > 0 { lemma_kept_lines_step(all, k, 2); assert(reader.rest()[0] == all[k]); assert(reader.rest().drop_first() =~= all.subrange(k + 1, all.len() as int)); } }
    //@@ afterloop 0
        proof { assert(raw_lines_of(*full_sidecar_path).subrange(0, raw_lines_of(*full_sidecar_path).len() as int) =~= raw_lines_of(*full_sidecar_path)); }
    //@@ end

    //@@ fn crates/ripd/src/continuity_stream_cache.rs ContinuityStreamCache::rebuild_messages_runs_from_full_sidecar_best_effort_v1 attr=verifier::exec_allows_no_decreases_clause
    //@@ alias serde_json::from_slice header_from_slice
    //@@ alias File::open open_file
    //@@ alias rebuild_message_index_from_sidecar_v1 rebuild_message_index_from_sidecar_io
    //@@ rewrite &str ==>> &str, Tracked(out): Tracked<&mut WrittenLines>
    //@@ rewrite writer.write_all(line)? ==>> write_line(Tracked(&mut *out), &mut writer, line)?
    //@@ rewrite b"\n" ==>> nl_bytes()
    //@@ sig
        requires old(out).lines.len() == 0,
            *full_sidecar_path == Self::file_of(continuity_id@, 0) && *mr_sidecar_path == Self::file_of(continuity_id@, 1),      // [ensure.a_lazy_rebuild_reads_this_threads_full_sidecar_and_writes_its_own_derived_sidecar]
        ensures ret is Ok ==> final(out).lines == kept_lines(raw_lines_of(*full_sidecar_path), 1),      // [rebuild_from_full_sidecar.messages_runs_sidecar_holds_exactly_the_message_and_run_ended_lines_of_the_full_sidecar_in_order]
    //@@ loop 0
        invariant
            reader.rest().len() <= raw_lines_of(*full_sidecar_path).len(),
            reader.rest() == raw_lines_of(*full_sidecar_path).subrange(raw_lines_of(*full_sidecar_path).len() - reader.rest().len(), raw_lines_of(*full_sidecar_path).len() as int),
            out.lines == kept_lines(raw_lines_of(*full_sidecar_path).subrange(0, raw_lines_of(*full_sidecar_path).len() - reader.rest().len()), 1),
        ensures reader.rest().len() == 0,
    //@@ loopbody 0
        broadcast use group_string_eq;
        let ghost all = raw_lines_of(*full_sidecar_path);
        let ghost k = all.len() - reader.rest().len();
        proof { if reader.rest().len() > 0 { lemma_kept_lines_step(all, k, 1); assert(reader.rest()[0] == all[k]); assert(reader.rest().drop_first() =~= all.subrange(k + 1, all.len() as int)); } }
    //@@ afterloop 0
        proof { assert(raw_lines_of(*full_sidecar_path).subrange(0, raw_lines_of(*full_sidecar_path).len() as int) =~= raw_lines_of(*full_sidecar_path)); }
    //@@ end

    // the two lazy rebuilds as the `ensure_*` functions see them: their contract proved above (which files they read and write) plus a
    // record of a failure
    #[verifier::external_body]
    pub fn rebuild_mr_noted(&self, Tracked(e): Tracked<&mut Ensured>, id: &str, full: &PathBuf, mr: &PathBuf) -> (ret: IoResult<()>)
        requires *full == Self::file_of(id@, 0) && *mr == Self::file_of(id@, 1),      // [ensure.a_lazy_rebuild_reads_this_threads_full_sidecar_and_writes_its_own_derived_sidecar]
        ensures final(e).rebuild_failed == (old(e).rebuild_failed || ret is Err),
    { unimplemented!() }
    #[verifier::external_body]
    pub fn rebuild_cp_noted(&self, Tracked(e): Tracked<&mut Ensured>, id: &str, full: &PathBuf, cp: &PathBuf) -> (ret: IoResult<()>)
        requires *full == Self::file_of(id@, 0) && *cp == Self::file_of(id@, 2),      // [ensure.a_lazy_rebuild_reads_this_threads_full_sidecar_and_writes_its_own_derived_sidecar]
        ensures final(e).rebuild_failed == (old(e).rebuild_failed || ret is Err),
    { unimplemented!() }

    // when a lazy rebuild happens and what is answered: only this thread's own derived file is ever answered
    //@@ fn crates/ripd/src/continuity_stream_cache.rs ContinuityStreamCache::ensure_messages_runs_sidecar_best_effort_v1
    //@@ rewrite &str ==>> &str, Tracked(e): Tracked<&mut Ensured>
    //@@ rewrite self.rebuild_messages_runs_from_full_sidecar_best_effort_v1( ==>> self.rebuild_mr_noted(Tracked(&mut *e),
    //@@ sig
        requires !old(e).rebuild_failed,
        ensures ret matches Ok(Some(p)) ==> p == Self::file_of(continuity_id@, 1),      // [ensure.only_this_threads_messages_runs_sidecar_is_answered]
            ret is Ok ==> !final(e).rebuild_failed,      // [ensure.a_lazy_rebuild_that_failed_is_an_error_not_an_absent_cache]
    //@@ end

    //@@ fn crates/ripd/src/continuity_stream_cache.rs ContinuityStreamCache::ensure_compaction_checkpoints_sidecar_best_effort_v1
    //@@ rewrite &str ==>> &str, Tracked(e): Tracked<&mut Ensured>
    //@@ rewrite self.rebuild_compaction_checkpoints_from_full_sidecar_best_effort_v1( ==>> self.rebuild_cp_noted(Tracked(&mut *e),
    //@@ sig
        requires !old(e).rebuild_failed,
        ensures ret matches Ok(Some(p)) ==> p == Self::file_of(continuity_id@, 2),      // [ensure.only_this_threads_checkpoint_sidecar_is_answered]
            ret is Ok ==> !final(e).rebuild_failed,      // [ensure.a_lazy_rebuild_that_failed_is_an_error_not_an_absent_cache]
    //@@ end

    //@@ fn crates/ripd/src/continuity_stream_cache.rs ContinuityStreamCache::ensure_compaction_checkpoints_index_best_effort_v1
    //@@ rewrite &str ==>> &str, Tracked(e): Tracked<&mut Ensured>
    //@@ rewrite self.ensure_compaction_checkpoints_sidecar_best_effort_v1(continuity_id) ==>> self.ensure_compaction_checkpoints_sidecar_best_effort_v1(continuity_id, Tracked(&mut *e))
    //@@ sig
        requires !old(e).rebuild_failed,
        ensures ret matches Ok(Some(p)) ==> p == Self::file_of(continuity_id@, 3),      // [ensure.only_this_threads_checkpoint_index_is_answered]
            ret is Ok ==> !final(e).rebuild_failed,      // [ensure.a_lazy_rebuild_that_failed_is_an_error_not_an_absent_cache]
    //@@ end
}

} // verus!
fn main() {}
