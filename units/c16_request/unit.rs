//@@ unit c16_request properties=C16,C01,C07 strictcallees
#![allow(unused_imports, dead_code, unused_variables, unused_mut, unused_assignments)]
use vstd::prelude::*;

//@@ include prelude/kernel_model.rs
//@@ include prelude/strings.rs

verus! {

// ---- stubs (R8; trusted) ------------------------------------------------------------------------
#[verifier::external_body] pub fn vfmt() -> String { unimplemented!() }      // R9
#[verifier::external_body] pub fn now_ms() -> u64 { unimplemented!() }
pub struct Uuid { pub filler: u8 }
impl Uuid { #[verifier::external_body] pub fn new_v4() -> Uuid { unimplemented!() } #[verifier::external_body] pub fn to_string(&self) -> String { unimplemented!() } }
pub mod rip_kernel { pub use super::{EventKind, ProviderEventStatus}; }
pub struct Path { pub filler: u8 }
pub struct ToolChoiceParam { pub filler: u8 }
//@@ item crates/ripd/src/provider_openresponses.rs struct OpenResponsesConfig dropderive=Clone
#[derive(Clone, Copy)]
pub struct ValidationOptions { pub filler: u8 }
impl ValidationOptions {
    #[verifier::external_body] pub fn compat_missing_item_ids() -> ValidationOptions { unimplemented!() }
    #[verifier::external_body] pub fn strict() -> ValidationOptions { unimplemented!() }
}
// the request payload: its validation errors are a function of its body (they are computed from the body when the payload is built)
pub uninterp spec fn errors_of(body: Value) -> Seq<String>;
pub struct CreateResponsePayload { pub filler: u8 }
impl CreateResponsePayload {
    pub uninterp spec fn body_spec(&self) -> Value;
    #[verifier::external_body] pub fn body(&self) -> (r: &Value) ensures *r == self.body_spec() { unimplemented!() }
    #[verifier::external_body] pub fn errors(&self) -> (r: &Vec<String>) ensures r@ == errors_of(self.body_spec()) { unimplemented!() }
}
pub struct ValueStr { pub filler: u8 }
#[verifier::external_body] pub fn model_of(v: &Value) -> Option<String> { unimplemented!() }
pub struct ToolCallCollector { pub filler: u8 }
// the sink of the session stream: frames are handed over with the seq the caller stamps on them
#[derive(Clone, Copy)]
pub struct EventSink<'a> { pub filler: &'a u8 }      // carries the lifetime of the real type, so that signatures of helpers the source gains resolve
impl<'a> EventSink<'a> {
    // R11 hands the current value of the stream counter to every emission (`req.sink.emit(X)` ==> `req.sink.emit_at(*req.seq, X)`)
    #[verifier::external_body] pub fn emit_at(&self, cur: u64, e: Event)
        requires e.seq == cur,      // [request.every_frame_is_stamped_with_the_stream_counter]
    { unimplemented!() }
}
// request dump (observability): at most one frame, stamped with the seq it was given
pub mod observability { use super::*; verus! {
    pub struct OpenResponsesRequestDumpConfig { pub filler: u8 }
    pub struct OpenResponsesRequestDumpInput<'a> { pub workspace_root: &'a Path, pub session_id: &'a str, pub timestamp_ms: u64, pub seq: u64, pub endpoint: &'a String, pub request_index: u64, pub kind: &'a str, pub body: &'a Value }
    #[verifier::external_body] pub fn request_dump_config_from_env() -> OpenResponsesRequestDumpConfig { unimplemented!() }
    #[verifier::external_body] pub fn maybe_dump_openresponses_request(c: OpenResponsesRequestDumpConfig, i: OpenResponsesRequestDumpInput<'_>) -> (r: Result<Option<Event>, String>)
        ensures r matches Ok(Some(e)) ==> e.seq == i.seq && e.session_id@ == i.session_id@,
    { unimplemented!() }
} }
// reqwest: a builder remembers the JSON body it was given; sending is the effect
pub struct HttpError { pub filler: u8 }
impl HttpError { #[verifier::external_body] pub fn to_string(&self) -> String { unimplemented!() } }
pub struct HeaderValue { pub filler: u8 }
impl HeaderValue { #[verifier::external_body] pub fn to_str_ok(&self) -> Option<String> { unimplemented!() } }
pub struct HeaderMap { pub filler: u8 }
impl HeaderMap { #[verifier::external_body] pub fn get_str(&self, name: &str) -> Option<String> { unimplemented!() } }
pub struct StatusCode { pub filler: u8 }
impl StatusCode { #[verifier::external_body] pub fn is_success(&self) -> bool { unimplemented!() } #[verifier::external_body] pub fn as_u16(&self) -> u16 { unimplemented!() } }
pub struct Bytes { pub filler: u8 }
pub struct ByteStream { pub filler: u8 }
impl ByteStream { #[verifier::external_body] pub fn next(&mut self) -> Option<Result<Bytes, HttpError>> { unimplemented!() } }
pub struct Response { pub filler: u8 }
impl Response {
    #[verifier::external_body] pub fn status(&self) -> StatusCode { unimplemented!() }
    #[verifier::external_body] pub fn headers(&self) -> &HeaderMap { unimplemented!() }
    #[verifier::external_body] pub fn text(self) -> Result<String, HttpError> { unimplemented!() }
    #[verifier::external_body] pub fn bytes_stream(self) -> ByteStream { unimplemented!() }
}
#[verifier::external_body] pub fn strings_copy(v: &Vec<String>) -> Vec<String> { unimplemented!() }
#[verifier::external_body] pub fn value_text(v: &Value) -> String { unimplemented!() }
#[verifier::external_body] pub fn request_id_of(r: &Response) -> Option<String> { unimplemented!() }
#[verifier::external_body] pub fn content_type_of(r: &Response) -> Option<String> { unimplemented!() }
pub struct RequestBuilder { pub filler: u8 }
impl RequestBuilder {
    pub uninterp spec fn json_body(&self) -> Option<Value>;
    #[verifier::external_body] pub fn json(self, body: &Value) -> (r: RequestBuilder) ensures r.json_body() == Some(*body) { unimplemented!() }
    #[verifier::external_body] pub fn bearer_auth(self, key: &str) -> (r: RequestBuilder) ensures r.json_body() == self.json_body() { unimplemented!() }
    #[verifier::external_body] pub fn header(self, name: &String, value: &String) -> (r: RequestBuilder) ensures r.json_body() == self.json_body() { unimplemented!() }
    // effect constraint: only a body without validation errors goes to the provider
    #[verifier::external_body]
    pub fn send(self) -> Result<Response, HttpError>
        requires self.json_body() matches Some(b) && errors_of(b).len() == 0,      // [http.send.requires_a_payload_without_validation_errors]
    { unimplemented!() }
}
pub struct Client { pub filler: u8 }
impl Client { #[verifier::external_body] pub fn post(&self, url: &String) -> RequestBuilder { unimplemented!() } }
// the SSE pipe through its contract (proved in unit c15_pipe): it numbers what it emits from *seq and leaves *seq behind the last frame
pub struct OpenResponsesSsePipe<'a> { pub seq: &'a mut u64 }
impl<'a> OpenResponsesSsePipe<'a> {
    #[verifier::external_body] pub fn new(session_id: &str, seq: &'a mut u64, sink: EventSink<'a>, collector: Option<&'a mut ToolCallCollector>, v: ValidationOptions) -> OpenResponsesSsePipe<'a> { unimplemented!() }
    #[verifier::external_body] pub fn emit_transport_error(&mut self, e: String) { unimplemented!() }
    #[verifier::external_body] pub fn push_bytes(&mut self, buf: &mut Vec<u8>, b: &Bytes) -> bool { unimplemented!() }
    #[verifier::external_body] pub fn finish(&mut self) -> bool { unimplemented!() }
}
pub struct OpenResponsesStreamRequest<'a> {
    pub http: &'a Client, pub config: &'a OpenResponsesConfig, pub workspace_root: &'a Path, pub session_id: &'a str, pub payload: CreateResponsePayload,
    pub request_index: u64, pub request_kind: &'a str, pub seq: &'a mut u64, pub sink: EventSink<'a>, pub collector: &'a mut ToolCallCollector,
}
pub assume_specification<T: Default, E>[ Result::<T, E>::unwrap_or_default ](r: Result<T, E>) -> (o: T)
    ensures r matches Ok(v) ==> o == v;
pub assume_specification<T: std::ops::Deref>[ std::option::Option::<T>::as_deref ](o: &Option<T>) -> (r: Option<&T::Target>);

//@@ fn crates/ripd/src/session.rs stream_openresponses_request rules=R3,R9 r7=0 attr=verifier::exec_allows_no_decreases_clause
//@@ alias crate::openresponses_observability::request_dump_config_from_env observability::request_dump_config_from_env
//@@ alias crate::openresponses_observability::maybe_dump_openresponses_request observability::maybe_dump_openresponses_request
//@@ alias crate::openresponses_observability::OpenResponsesRequestDumpInput observability::OpenResponsesRequestDumpInput
//@@ rewrite req.payload.body().get("model").and_then(|value| value.as_str()).map(|value| value.to_string()) => model_of(req.payload.body())
//@@ rewrite response.headers().get("x-request-id").or_else(|| response.headers().get("x-openai-request-id")).and_then(|value| value.to_str().ok()).map(|value| value.to_string()) => request_id_of(&response)
//@@ rewrite response.headers().get(reqwest::header::CONTENT_TYPE).and_then(|value| value.to_str().ok()).map(|value| value.to_string()) => content_type_of(&response)
//@@ rewrite req.payload.errors().to_vec() => strings_copy(req.payload.errors())
//@@ rewrite req.payload.body().to_string() => value_text(req.payload.body())
//@@ rewrite req.sink .emit(Event { ==>> proof { assert(*req.seq == stamped); stamped = stamped + 1; }      // [request.the_counter_advances_exactly_once_per_frame]\n req.sink.emit_at(*req.seq, Event {
//@@ rewrite req.sink.emit(event) ==>> proof { assert(*req.seq == stamped); stamped = stamped + 1; }      // [request.the_counter_advances_exactly_once_per_frame]\n req.sink.emit_at(*req.seq, event)
//@@ sig
    requires *old(req.seq) < u64::MAX - 8,
//@@ entry
    let ghost mut stamped: int = *req.seq as int;      // the seq the next frame of this function must carry
//@@ loop 0
    invariant
        __i0 <= __s0.len(),
        request.json_body() == Some(req.payload.body_spec()) && errors_of(req.payload.body_spec()).len() == 0,
    decreases __s0.len() - __i0
//@@ end

} // verus!
fn main() {}
