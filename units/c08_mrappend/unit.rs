//@@ unit c08_mrappend properties=C08,C04
#![allow(unused_imports, dead_code, unused_variables, unused_mut, unused_assignments)]
use vstd::prelude::*;

//@@ include prelude/kernel_model.rs
//@@ include prelude/strings.rs

verus! {

// The live append to the messages+runs sidecar (the cache the compile-input tail and window paths read). The truth-log paths and both
// rebuild functions take EVERY message and run-ended frame of the thread; a live append that leaves some of them out makes the
// compiled context depend on whether the cache was appended live or rebuilt (seeded change C08-10). Under contract: whatever the
// frame's payload, a message or run-ended frame of a thread stream reaches the point where the sidecar file is opened for appending;
// what happens from there on (I/O, the best-effort indexes) is not looked at.
#[derive(PartialEq, Eq, Clone, Copy, Structural)]
pub enum StreamKind { Session, Task, Continuity, Artifact }
pub uninterp spec fn kind_of(e: Event) -> StreamKind;           // rip-kernel's Event::stream_kind (a match over the frame type)
impl Event {
    #[verifier::external_body] pub fn stream_kind(&self) -> (r: StreamKind) ensures r == kind_of(*self) { unimplemented!() }
    #[verifier::external_body] pub fn stream_id(&self) -> (r: &str) ensures r@ == self.session_id@ { unimplemented!() }
}
pub open spec fn belongs_in_the_messages_runs_sidecar(e: Event) -> bool {
    kind_of(e) == StreamKind::Continuity && (e.kind is ContinuityMessageAppended || e.kind is ContinuityRunEnded)
}
pub tracked struct Attempt { pub ghost opened: bool }
pub struct PathBuf { pub filler: u8 }
impl PathBuf { #[verifier::external_body] pub fn parent(&self) -> Option<&PathBuf> { unimplemented!() } }
pub struct IoError { pub filler: u8 }
pub struct Meta { pub filler: u8 }
impl Meta { #[verifier::external_body] pub fn len(&self) -> u64 { unimplemented!() } }
pub struct File { pub filler: u8 }
impl File { #[verifier::external_body] pub fn metadata(&self) -> Result<Meta, IoError> { unimplemented!() } }
pub struct BufWriter { pub filler: u8 }
impl BufWriter {
    #[verifier::external_body] pub fn new(f: File) -> BufWriter { unimplemented!() }
    #[verifier::external_body] pub fn write_all(&mut self, b: &[u8]) -> Result<(), IoError> { unimplemented!() }
    #[verifier::external_body] pub fn flush(&mut self) -> Result<(), IoError> { unimplemented!() }
}
pub mod fs { use super::*; verus! { #[verifier::external_body] pub fn create_dir_all(p: &PathBuf) -> Result<(), IoError> { unimplemented!() } } }
#[verifier::external_body]
pub fn open_append(Tracked(att): Tracked<&mut Attempt>, p: &PathBuf) -> (r: Result<File, IoError>)
    ensures final(att).opened,
{ unimplemented!() }
pub struct SerdeError { pub filler: u8 }
#[verifier::external_body] pub fn event_to_string(e: &Event) -> Result<String, SerdeError> { unimplemented!() }
pub struct SeqSeekIndexEntryV1 { pub filler: u8 }
impl SeqSeekIndexEntryV1 { #[verifier::external_body] pub fn new(seq: u64, offset: u64) -> SeqSeekIndexEntryV1 { unimplemented!() } }
#[verifier::external_body] pub fn append_seq_index_entry_best_effort(p: &PathBuf, e: &SeqSeekIndexEntryV1) { unimplemented!() }
#[verifier::external_body] pub fn insert_message_best_effort_v1(idx: &PathBuf, sidecar: &PathBuf, id: &String, seq: u64, offset: u64) { unimplemented!() }
#[verifier::external_body] pub fn append_message_record_best_effort_v1(p: &PathBuf, seq: u64, id: &String) { unimplemented!() }
#[verifier::external_body] pub fn str_bytes(s: &String) -> &[u8] { unimplemented!() }
#[verifier::external_body] pub fn nl_bytes() -> &'static [u8] { unimplemented!() }

pub struct CompactionCheckpointIndexEntryV1 { pub filler: u8 }
impl CompactionCheckpointIndexEntryV1 { #[verifier::external_body] pub fn from_event(e: &Event) -> Option<CompactionCheckpointIndexEntryV1> { unimplemented!() } }
#[verifier::external_body] pub fn append_compaction_checkpoint_index_entry_best_effort_v1(p: &PathBuf, e: &CompactionCheckpointIndexEntryV1) { unimplemented!() }
#[verifier::external_body] pub fn seq_index_path(dir: &PathBuf, id: &str) -> PathBuf { unimplemented!() }
#[verifier::external_body] pub fn message_index_path(dir: &PathBuf, id: &str) -> PathBuf { unimplemented!() }
//@@ item crates/ripd/src/continuity_seek_index.rs const SEEK_INDEX_STRIDE_EVENTS_V1
pub mod rip_kernel { pub use super::EventKind; }
// which derived appender a frame of a thread was handed to (by the full-sidecar appender)
pub tracked struct Attempt3 { pub ghost opened: bool, pub ghost flushed: bool, pub ghost mr: bool, pub ghost cp: bool }
#[verifier::external_body]
pub fn open_append3(Tracked(att): Tracked<&mut Attempt3>, p: &PathBuf) -> (r: Result<File, IoError>)
    ensures final(att).opened, final(att).mr == old(att).mr, final(att).cp == old(att).cp, final(att).flushed == old(att).flushed,
{ unimplemented!() }
// `writer.flush()` of the full sidecar's writer: Ok means the frame's line is in the full sidecar
#[verifier::external_body]
pub fn flush3(Tracked(att): Tracked<&mut Attempt3>, w: &mut BufWriter) -> (r: Result<(), IoError>)
    ensures final(att).flushed == (r is Ok), final(att).opened == old(att).opened, final(att).mr == old(att).mr, final(att).cp == old(att).cp,
{ unimplemented!() }
pub struct ContinuityStreamCache { pub dir: PathBuf }
impl ContinuityStreamCache {
    #[verifier::external_body] pub fn path_for(&self, id: &str) -> PathBuf { unimplemented!() }
    #[verifier::external_body] pub fn compaction_checkpoints_path_for_v1(&self, id: &str) -> PathBuf { unimplemented!() }
    #[verifier::external_body] pub fn compaction_checkpoints_index_path_for_v1(&self, id: &str) -> PathBuf { unimplemented!() }
    #[verifier::external_body] pub fn messages_runs_path_for_v1(&self, id: &str) -> PathBuf { unimplemented!() }
    #[verifier::external_body] pub fn messages_runs_seq_index_path_v1(&self, id: &str) -> PathBuf { unimplemented!() }
    #[verifier::external_body] pub fn messages_runs_message_index_path_v1(&self, id: &str) -> PathBuf { unimplemented!() }
    #[verifier::external_body] pub fn messages_runs_message_ordinal_index_path_v1(&self, id: &str) -> PathBuf { unimplemented!() }

    //@@ fn crates/ripd/src/continuity_stream_cache.rs ContinuityStreamCache::append_messages_runs_best_effort_v1
    //@@ alias serde_json::to_string event_to_string
    //@@ rewrite &Event ==>> &Event, Tracked(att): Tracked<&mut Attempt>
    //@@ rewrite OpenOptions::new().create(true).append(true).open(&path) ==>> open_append(Tracked(&mut *att), &path)
    //@@ rewrite line.as_bytes() ==>> str_bytes(&line)
    //@@ rewrite b"\n" ==>> nl_bytes()
    //@@ sig
        ensures belongs_in_the_messages_runs_sidecar(*event) ==> final(att).opened,      // [mr_append.every_message_and_run_ended_frame_of_a_thread_reaches_the_sidecar_whatever_its_payload]
    //@@ end

    //@@ fn crates/ripd/src/continuity_stream_cache.rs ContinuityStreamCache::append_compaction_checkpoints_best_effort_v1
    //@@ alias serde_json::to_string event_to_string
    //@@ rewrite &Event ==>> &Event, Tracked(att): Tracked<&mut Attempt>
    //@@ rewrite OpenOptions::new().create(true).append(true).open(&path) ==>> open_append(Tracked(&mut *att), &path)
    //@@ rewrite line.as_bytes() ==>> str_bytes(&line)
    //@@ rewrite b"\n" ==>> nl_bytes()
    //@@ sig
        ensures (kind_of(*event) == StreamKind::Continuity && event.kind is ContinuityCompactionCheckpointCreated) ==> final(att).opened,      // [cp_append.every_checkpoint_frame_of_a_thread_reaches_the_checkpoint_sidecar_whatever_its_payload]
    //@@ end

    // the full-sidecar appender: every frame of a thread stream reaches the full sidecar's open, and - when the line was written - is
    // handed to both derived appenders (which filter by kind themselves, see above)
    //@@ fn crates/ripd/src/continuity_stream_cache.rs ContinuityStreamCache::append_best_effort
    //@@ alias serde_json::to_string event_to_string
    //@@ rewrite &Event ==>> &Event, Tracked(att): Tracked<&mut Attempt3>
    //@@ rewrite OpenOptions::new().create(true).append(true).open(&path) ==>> open_append3(Tracked(&mut *att), &path)
    //@@ rewrite line.as_bytes() ==>> str_bytes(&line)
    //@@ rewrite b"\n" ==>> nl_bytes()
    //@@ rewrite writer.flush() ==>> flush3(Tracked(&mut *att), &mut writer)
    //@@ rewrite self.append_messages_runs_best_effort_v1(event); ==>> proof { att.mr = true; } let tracked mut a1 = Attempt { opened: false }; self.append_messages_runs_best_effort_v1(event, Tracked(&mut a1));
    //@@ rewrite self.append_compaction_checkpoints_best_effort_v1(event); ==>> proof { att.cp = true; } let tracked mut a2 = Attempt { opened: false }; self.append_compaction_checkpoints_best_effort_v1(event, Tracked(&mut a2));
    //@@ sig
        requires !old(att).opened && !old(att).mr && !old(att).cp && !old(att).flushed,
        ensures
            kind_of(*event) == StreamKind::Continuity ==> final(att).opened,      // [full_append.every_frame_of_a_thread_reaches_the_full_sidecar_whatever_its_payload]
            final(att).flushed ==> (final(att).mr && final(att).cp),               // [full_append.a_frame_written_to_the_full_sidecar_is_handed_to_both_derived_appenders]
    //@@ end
}

} // verus!
fn main() {}
