//@@ unit c08_mrappend properties=C08,C04
#![allow(unused_imports, dead_code, unused_variables, unused_mut, unused_assignments)]
use vstd::prelude::*;

//@@ include prelude/kernel_model.rs
//@@ include prelude/strings.rs

verus! {

// The live append to the messages+runs sidecar (the cache the compile-input tail and window paths read). The truth-log paths and both
// rebuild functions take EVERY message and run-ended frame of the thread; a live append that leaves some of them out makes the
// compiled context depend on whether the cache was appended live or rebuilt (seeded change C08-10). Under contract: whatever the
// frame's payload, a message or run-ended frame of a thread stream reaches the point where the sidecar file is opened for appending;
// what happens from there on (I/O, the best-effort indexes) is not looked at.
#[derive(PartialEq, Eq, Clone, Copy, Structural)]
pub enum StreamKind { Session, Task, Continuity, Artifact }
pub uninterp spec fn kind_of(e: Event) -> StreamKind;           // rip-kernel's Event::stream_kind (a match over the frame type)
impl Event {
    #[verifier::external_body] pub fn stream_kind(&self) -> (r: StreamKind) ensures r == kind_of(*self) { unimplemented!() }
    #[verifier::external_body] pub fn stream_id(&self) -> (r: &str) ensures r@ == self.session_id@ { unimplemented!() }
}
pub open spec fn belongs_in_the_messages_runs_sidecar(e: Event) -> bool {
    kind_of(e) == StreamKind::Continuity && (e.kind is ContinuityMessageAppended || e.kind is ContinuityRunEnded)
}
pub tracked struct Attempt { pub ghost opened: bool }
pub struct PathBuf { pub filler: u8 }
impl PathBuf { #[verifier::external_body] pub fn parent(&self) -> Option<&PathBuf> { unimplemented!() } }
pub struct IoError { pub filler: u8 }
pub struct Meta { pub filler: u8 }
impl Meta { #[verifier::external_body] pub fn len(&self) -> u64 { unimplemented!() } }
pub struct File { pub filler: u8 }
impl File { #[verifier::external_body] pub fn metadata(&self) -> Result<Meta, IoError> { unimplemented!() } }
pub struct BufWriter { pub filler: u8 }
impl BufWriter {
    #[verifier::external_body] pub fn new(f: File) -> BufWriter { unimplemented!() }
    #[verifier::external_body] pub fn write_all(&mut self, b: &[u8]) -> Result<(), IoError> { unimplemented!() }
    #[verifier::external_body] pub fn flush(&mut self) -> Result<(), IoError> { unimplemented!() }
}
pub mod fs { use super::*; verus! { #[verifier::external_body] pub fn create_dir_all(p: &PathBuf) -> Result<(), IoError> { unimplemented!() } } }
#[verifier::external_body]
pub fn open_append(Tracked(att): Tracked<&mut Attempt>, p: &PathBuf) -> (r: Result<File, IoError>)
    ensures final(att).opened,
{ unimplemented!() }
pub struct SerdeError { pub filler: u8 }
#[verifier::external_body] pub fn event_to_string(e: &Event) -> Result<String, SerdeError> { unimplemented!() }
pub struct SeqSeekIndexEntryV1 { pub filler: u8 }
impl SeqSeekIndexEntryV1 { #[verifier::external_body] pub fn new(seq: u64, offset: u64) -> SeqSeekIndexEntryV1 { unimplemented!() } }
#[verifier::external_body] pub fn append_seq_index_entry_best_effort(p: &PathBuf, e: &SeqSeekIndexEntryV1) { unimplemented!() }
#[verifier::external_body] pub fn insert_message_best_effort_v1(idx: &PathBuf, sidecar: &PathBuf, id: &String, seq: u64, offset: u64) { unimplemented!() }
#[verifier::external_body] pub fn append_message_record_best_effort_v1(p: &PathBuf, seq: u64, id: &String) { unimplemented!() }
#[verifier::external_body] pub fn str_bytes(s: &String) -> &[u8] { unimplemented!() }
#[verifier::external_body] pub fn nl_bytes() -> &'static [u8] { unimplemented!() }

pub struct ContinuityStreamCache { pub filler: u8 }
impl ContinuityStreamCache {
    #[verifier::external_body] pub fn messages_runs_path_for_v1(&self, id: &str) -> PathBuf { unimplemented!() }
    #[verifier::external_body] pub fn messages_runs_seq_index_path_v1(&self, id: &str) -> PathBuf { unimplemented!() }
    #[verifier::external_body] pub fn messages_runs_message_index_path_v1(&self, id: &str) -> PathBuf { unimplemented!() }
    #[verifier::external_body] pub fn messages_runs_message_ordinal_index_path_v1(&self, id: &str) -> PathBuf { unimplemented!() }

    //@@ fn crates/ripd/src/continuity_stream_cache.rs ContinuityStreamCache::append_messages_runs_best_effort_v1
    //@@ alias serde_json::to_string event_to_string
    //@@ rewrite &Event ==>> &Event, Tracked(att): Tracked<&mut Attempt>
    //@@ rewrite OpenOptions::new().create(true).append(true).open(&path) ==>> open_append(Tracked(&mut *att), &path)
    //@@ rewrite line.as_bytes() ==>> str_bytes(&line)
    //@@ rewrite b"\n" ==>> nl_bytes()
    //@@ sig
        ensures belongs_in_the_messages_runs_sidecar(*event) ==> final(att).opened,      // [mr_append.every_message_and_run_ended_frame_of_a_thread_reaches_the_sidecar_whatever_its_payload]
    //@@ end
}

} // verus!
fn main() {}
