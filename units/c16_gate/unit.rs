//@@ unit c16_gate properties=C16
// The schema gate itself (C16: "a request that fails schema validation is never sent"; unit c16_request proves the send is reached only
// with `errors()` empty).  Here: CreateResponsePayload::new records no error exactly when validate_create_response_body accepts the
// body, and validate_create_response_body accepts only if the CreateResponseBody schema validator accepted the body with nothing taken
// out but `tools` and `tool_choice`, every tool passed the tool schema and the tool choice passed its schema.  The JSON schema
// validators (jsonschema crate, statics) are stubs named by ghost predicates; a failed validation is assumed to yield at least one message.
#![allow(unused_imports, dead_code, unused_variables, unused_mut)]
use vstd::prelude::*;
use vstd::std_specs::iter::IteratorSpec;

verus! {
global size_of usize == 8;

#[verifier::external_body] pub fn vfmt() -> String { unimplemented!() }        // R9
 pub assume_specification<T, F: FnOnce(T) -> bool>[ Option::<T>::is_some_and ](o: Option<T>, f: F) -> (r: bool)
    requires o matches Some(v) ==> f.requires((v,)),
    ensures o is None ==> !r, o matches Some(v) ==> f.ensures((v,), r);
pub struct JMap { pub filler: u8 }                                           // serde_json::Map<String, Value>
pub enum Value { Null, Bool(bool), Number(u8), String(String), Array(Vec<Value>), Object(JMap) }
pub uninterp spec fn members(m: JMap) -> Map<Seq<char>, Value>;
impl JMap {
    #[verifier::external_body] pub fn remove(&mut self, k: &str) -> (r: Option<Value>)
        ensures members(*final(self)) == members(*old(self)).remove(k@),
            r == (if members(*old(self)).contains_key(k@) { Some(members(*old(self))[k@]) } else { None }),
    { unimplemented!() }
}
impl JMap {
    // the other accessors of serde_json::Map / Value, so that code which inspects the body still type-checks (views as for `remove`)
    #[verifier::external_body] pub fn get(&self, k: &str) -> (r: Option<&Value>)
        ensures r == (if members(*self).contains_key(k@) { Some(&members(*self)[k@]) } else { None }),
    { unimplemented!() }
    #[verifier::external_body] pub fn contains_key(&self, k: &str) -> (r: bool) ensures r == members(*self).contains_key(k@) { unimplemented!() }
    #[verifier::external_body] pub fn insert(&mut self, k: String, v: Value) -> (r: Option<Value>)
        ensures members(*final(self)) == members(*old(self)).insert(k@, v),
    { unimplemented!() }
}
impl Value {
    pub fn is_null(&self) -> (r: bool) ensures r == (*self is Null) { matches!(self, Value::Null) }
    pub fn is_array(&self) -> (r: bool) ensures r == (*self is Array) { matches!(self, Value::Array(_)) }
    pub fn is_object(&self) -> (r: bool) ensures r == (*self is Object) { matches!(self, Value::Object(_)) }
    pub fn is_string(&self) -> (r: bool) ensures r == (*self is String) { matches!(self, Value::String(_)) }
    pub fn as_array(&self) -> (r: Option<&Vec<Value>>) ensures r == (match *self { Value::Array(a) => Some(&a), _ => None }) { match self { Value::Array(a) => Some(a), _ => None } }
    pub fn as_object(&self) -> (r: Option<&JMap>) ensures r == (match *self { Value::Object(m) => Some(&m), _ => None }) { match self { Value::Object(m) => Some(m), _ => None } }
    pub fn get(&self, k: &str) -> (r: Option<&Value>)
        ensures r == (match *self { Value::Object(m) => if members(m).contains_key(k@) { Some(&members(m)[k@]) } else { None }, _ => None })
    { match self { Value::Object(m) => m.get(k), _ => None } }
}
impl Clone for Value { #[verifier::external_body] fn clone(&self) -> (r: Self) ensures r == *self { unimplemented!() } }

pub uninterp spec fn body_schema_ok(v: Value) -> bool;        // CreateResponseBody.json accepts v
pub uninterp spec fn tool_schema_ok(v: Value) -> bool;        // ResponsesToolParam.json accepts v
pub uninterp spec fn choice_schema_ok(v: Value) -> bool;      // ToolChoiceParam.json accepts v
pub struct SchemaErrors { pub filler: u8 }
#[verifier::external_body] pub fn create_response_schema_validate(v: &Value) -> (r: Result<(), SchemaErrors>) ensures r is Ok <==> body_schema_ok(*v) { unimplemented!() }
#[verifier::external_body] pub fn validate_responses_tool_param(v: &Value) -> (r: Result<(), Vec<String>>) ensures r is Ok <==> tool_schema_ok(*v), r matches Err(e) ==> e@.len() > 0 { unimplemented!() }
#[verifier::external_body] pub fn validate_tool_choice_param(v: &Value) -> (r: Result<(), Vec<String>>) ensures r is Ok <==> choice_schema_ok(*v), r matches Err(e) ==> e@.len() > 0 { unimplemented!() }
// error-message plumbing (iterator adapters with format!): stand-ins that only say how many messages are added
#[verifier::external_body] pub fn vextend_prefixed(errors: &mut Vec<String>, errs: Vec<String>) ensures final(errors)@.len() == old(errors)@.len() + errs@.len() { unimplemented!() }
#[verifier::external_body] pub fn vextend_schema_errors(errors: &mut Vec<String>, errs: SchemaErrors) ensures final(errors)@.len() > old(errors)@.len() { unimplemented!() }

pub open spec fn tools_ok(mm: Map<Seq<char>, Value>) -> bool {
    mm.contains_key("tools"@) ==> (mm["tools"@] is Null || (mm["tools"@] matches Value::Array(items) && forall|i: int| 0 <= i < items@.len() ==> tool_schema_ok(#[trigger] items@[i])))
}
pub open spec fn choice_ok(mm: Map<Seq<char>, Value>) -> bool {
    mm.contains_key("tool_choice"@) ==> (mm["tool_choice"@] is Null || choice_schema_ok(mm["tool_choice"@]))
}
// what the gate accepts: the body schema saw the body with nothing removed but `tools` and `tool_choice`, which pass their own schemas
pub open spec fn gate_ok(v: Value) -> bool {
    match v {
        Value::Object(m) => tools_ok(members(m)) && choice_ok(members(m))
            && exists|s: JMap| #[trigger] body_schema_ok(Value::Object(s)) && members(s) == members(m).remove("tools"@).remove("tool_choice"@),
        _ => body_schema_ok(v),
    }
}

//@@ fn crates/rip-openresponses/src/lib.rs validate_create_response_body r7=0
//@@ rewrite errors.extend(errs.into_iter().map(|err| format!("tools[{idx}]: {err}"))); ==>> vextend_prefixed(&mut errors, errs);
//@@ rewrite errors.extend(errs.into_iter().map(|err| format!("tool_choice: {err}"))); ==>> vextend_prefixed(&mut errors, errs);
//@@ rewrite CREATE_RESPONSE_VALIDATOR.validate(&stripped) ==>> create_response_schema_validate(&stripped)
//@@ rewrite errors.extend(errs.map(|e| e.to_string())); ==>> vextend_schema_errors(&mut errors, errs);
//@@ rewrite let mut errors = Vec::new(); ==>> let mut errors: Vec<String> = Vec::new();
//@@ rewrite if errors.is_empty() { ==>> proof { if errors@.len() == 0 { if *value is Object { let mm = members(value->Object_0); assert(members(stripped->Object_0) == mm.remove("tools"@).remove("tool_choice"@)); assert(tools_ok(mm)); assert(choice_ok(mm)); assert(body_schema_ok(Value::Object(stripped->Object_0))); } else { assert(stripped == *value); } } } if errors.is_empty() {
//@@ sig
    ensures
        ret matches Err(e) ==> e@.len() > 0,      // [request_gate.a_refusal_carries_at_least_one_message]
        ret is Ok ==> gate_ok(*value),      // [request_gate.accepts_only_what_the_schemas_accept_with_nothing_but_tools_and_tool_choice_set_aside]
//@@ entry
    proof { reveal_strlit("tools"); reveal_strlit("tool_choice"); assert("tools"@.len() == 5); assert("tool_choice"@.len() == 11); assert("tools"@ != "tool_choice"@); }
//@@ loop 0
    invariant __i0 <= __s0.len(), __s0@ == items@,
        errors@.len() == 0 ==> forall|j: int| 0 <= j < __i0 ==> tool_schema_ok(#[trigger] items@[j]),
    decreases __s0.len() - __i0
//@@ end


//@@ item crates/rip-provider-openresponses/src/request/create_response.rs struct CreateResponsePayload dropderive=Clone
impl CreateResponsePayload {
    //@@ fn crates/rip-provider-openresponses/src/request/create_response.rs CreateResponsePayload::new
    //@@ sig
        ensures
            ret.body == body,
            ret.errors@.len() == 0 ==> gate_ok(ret.body),      // [request_gate.a_payload_without_errors_passed_the_gate]
    //@@ end
}

} // verus!
fn main() {}
