//@@ unit c01_emit properties=C01,C14,C02,C07 nodegrade
#![allow(unused_imports, dead_code, unused_variables, unused_mut)]
use vstd::prelude::*;

//@@ include prelude/kernel_model.rs

verus! {

// ---- stubs (R8; trusted) ----------------------------------------------------------------------
#[verifier::external_body] pub fn now_ms() -> u64 { unimplemented!() }
#[verifier::external_body] pub fn vfmt() -> String { unimplemented!() }       // R9
pub struct Uuid { pub filler: u8 }
impl Uuid {
    #[verifier::external_body] pub fn new_v4() -> Uuid { unimplemented!() }
    #[verifier::external_body] pub fn to_string(&self) -> String { unimplemented!() }
}
pub struct PathBuf { pub filler: u8 }
//@@ item crates/rip-tools/src/runtime.rs struct CheckpointRequest dropderive=Clone
//@@ item crates/rip-tools/src/runtime.rs struct CheckpointRecord dropderive=Clone
//@@ item crates/rip-tools/src/runtime.rs struct CheckpointRewindRecord dropderive=Clone
//@@ item crates/rip-tools/src/runtime.rs struct ToolInvocation dropderive=Clone
// the checkpoint hook (a dyn trait object in the real runner): any implementation
pub struct Hook { pub filler: u8 }
// timeless fact: the hook was asked to take an automatic checkpoint of exactly these files for that tool
pub uninterp spec fn auto_checkpoint_requested(tool: Seq<char>, files: Seq<PathBuf>) -> bool;
impl Hook {
    #[verifier::external_body]
    pub fn create(&self, request: CheckpointRequest) -> (r: Result<CheckpointRecord, String>)
        ensures (request.auto && request.tool_name is Some) ==> auto_checkpoint_requested(request.tool_name->Some_0@, request.files@),
    { unimplemented!() }
    #[verifier::external_body]
    pub fn rewind(&self, session_id: &str, checkpoint_id: &str) -> Result<CheckpointRewindRecord, String> { unimplemented!() }
}
impl Clone for ToolInvocation { #[verifier::external_body] fn clone(&self) -> (r: Self) ensures r == *self { unimplemented!() } }
pub assume_specification<T>[ <[T]>::reverse ](s: &mut [T])
    ensures final(s)@ == old(s)@.reverse();
pub struct Permit { pub filler: u8 }
impl Permit { #[verifier::external_body] pub fn expect(self, m: &str) -> Permit { unimplemented!() } }
pub struct Semaphore { pub filler: u8 }
impl Semaphore { #[verifier::external_body] pub fn acquire(&self) -> Permit { unimplemented!() } }        // R3: `.acquire().await`
pub struct ToolHandler { pub filler: u8 }
pub struct ToolRegistry { pub filler: u8 }
impl ToolRegistry { #[verifier::external_body] pub fn get(&self, name: &str) -> Option<ToolHandler> { unimplemented!() } }
pub struct Instant { pub filler: u8 }
impl Instant { #[verifier::external_body] pub fn now() -> Instant { unimplemented!() } #[verifier::external_body] pub fn elapsed_ms(&self) -> u64 { unimplemented!() } }
//@@ item crates/rip-tools/src/runtime.rs struct ToolOutput dropderive=Clone
pub struct Elapsed { pub filler: u8 }
pub struct ToolRunner { pub checkpoint_hook: Option<Hook>, pub semaphore: Semaphore, pub registry: ToolRegistry }
// which files an invocation can change: this contract of files_for_invocation is PROVED in unit c14_files against a defined files_of
// (write: the path argument verbatim; apply_patch: affected_paths of the parsed patch); here it is used modularly
pub uninterp spec fn files_of(inv: ToolInvocation) -> Option<Seq<PathBuf>>;
#[verifier::external_body]
pub fn files_for_invocation(invocation: &ToolInvocation) -> (r: Result<Option<Vec<PathBuf>>, String>)
    ensures r matches Ok(Some(f)) ==> files_of(*invocation) == Some(f@), r matches Ok(None) ==> files_of(*invocation) is None,
        r is Err ==> files_of(*invocation) is None,      // unparsable arguments: the tool cannot change any file
{ unimplemented!() }

// frames numbered consecutively from `from`, all on stream `sid`
pub open spec fn consecutive(ev: Seq<Event>, from: int, sid: Seq<char>) -> bool {
    forall|i: int| 0 <= i < ev.len() ==> (#[trigger] ev[i]).seq == from + i && ev[i].session_id@ == sid
}

impl ToolRunner {
    //@@ fn crates/rip-tools/src/runtime.rs ToolRunner::emit
    //@@ sig
        requires *old(seq) < u64::MAX,
        ensures
            ret.seq == *old(seq) && *final(seq) == *old(seq) + 1,                              // [tool_emit.numbers_consecutively]
            ret.session_id@ == session_id@ && ret.kind == kind,                                // [tool_emit.carries_stream_and_kind]
    //@@ end

    //@@ fn crates/rip-tools/src/runtime.rs ToolRunner::create_checkpoint
    //@@ sig
        requires *old(seq) < u64::MAX,
        ensures
            ret@.len() == 1 && consecutive(ret@, *old(seq) as int, session_id@) && *final(seq) == *old(seq) + 1,     // [create_checkpoint_frames.exactly_one_frame_numbered_next]
            ret@[0].kind is CheckpointCreated || ret@[0].kind is CheckpointFailed,
    //@@ end

    //@@ fn crates/rip-tools/src/runtime.rs ToolRunner::rewind_checkpoint
    //@@ sig
        requires *old(seq) < u64::MAX,
        ensures
            ret@.len() == 1 && consecutive(ret@, *old(seq) as int, session_id@) && *final(seq) == *old(seq) + 1,     // [rewind_checkpoint_frames.exactly_one_frame_numbered_next]
            ret@[0].kind is CheckpointRewound || ret@[0].kind is CheckpointFailed,
    //@@ end


    // the tool handler is a `dyn Fn` in the real runner: its call sites are replaced (R11) by this stand-in, which is told what the frame list
    // holds at that moment.  [run.*] clauses of C14: see the function below.
    #[verifier::external_body]
    pub fn vcall_handler(&self, handler: &ToolHandler, invocation: ToolInvocation, Ghost(frames): Ghost<Seq<Event>>) -> (r: ToolOutput)
        requires
            // an automatic checkpoint is taken BEFORE a file-editing tool runs: with a hook configured and files the tool can change, the
            // frames so far hold the CheckpointCreated frame of that checkpoint
            (self.checkpoint_hook is Some && files_of(invocation) is Some) ==> exists|i: int| 0 <= i < frames.len() && #[trigger] frames[i].kind is CheckpointCreated,      // [run.file_editing_tool_runs_only_after_its_automatic_checkpoint_was_taken]
        ensures r.stdout@.len() + r.stderr@.len() < 0x1_0000_0000,      // ASSUMED: a tool returns fewer than 2^32 chunks
    { unimplemented!() }
    #[verifier::external_body]
    pub fn vcall_handler_with_timeout(&self, timeout_ms: u64, handler: &ToolHandler, invocation: ToolInvocation, Ghost(frames): Ghost<Seq<Event>>) -> (r: Result<ToolOutput, Elapsed>)
        requires
            (self.checkpoint_hook is Some && files_of(invocation) is Some) ==> exists|i: int| 0 <= i < frames.len() && #[trigger] frames[i].kind is CheckpointCreated,      // [run.file_editing_tool_runs_only_after_its_automatic_checkpoint_was_taken]
        ensures r matches Ok(o) ==> o.stdout@.len() + o.stderr@.len() < 0x1_0000_0000,
    { unimplemented!() }

    //@@ fn crates/rip-tools/src/runtime.rs ToolRunner::run rules=R3 r7v=0,1
    //@@ rewrite tokio::time::timeout( Duration::from_millis(timeout_ms), (handler)(invocation.clone()), ) ==>> self.vcall_handler_with_timeout(timeout_ms, &handler, invocation.clone(), Ghost(events@))
    //@@ rewrite Ok((handler)(invocation.clone()) ==>> Ok(self.vcall_handler(&handler, invocation.clone(), Ghost(events@))
    //@@ rewrite started_at.elapsed().as_millis() as u64 ==>> started_at.elapsed_ms()
    //@@ rewrite let handler = match self.registry.get(&invocation.name) { ==>> proof { if self.checkpoint_hook is Some && files_of(invocation) is Some { assert(events@[events@.len() - 2].kind is CheckpointCreated); } } let handler = match self.registry.get(&invocation.name) {
    //@@ sig
        requires *old(seq) < 0x7fff_ffff_ffff_ffff,
        ensures
            consecutive(ret@, *old(seq) as int, session_id@) && *final(seq) == *old(seq) + ret@.len(),      // [run.frames_numbered_consecutively_from_the_counter]
            ret@.len() >= 2 && (ret@.last().kind is ToolEnded || ret@.last().kind is ToolFailed),      // [run.ends_with_exactly_one_terminal_frame]
    //@@ loop 0
        invariant consecutive(events@, *old(seq) as int, session_id@), *seq == *old(seq) + events@.len(), events@.len() >= 1,
            events@.len() + __v0@.len() + output.stderr@.len() < 0x1_0000_0000 + 4, *old(seq) < 0x7fff_ffff_ffff_ffff,
        decreases __v0@.len()
    //@@ loop 1
        invariant consecutive(events@, *old(seq) as int, session_id@), *seq == *old(seq) + events@.len(), events@.len() >= 1,
            events@.len() + __v1@.len() < 0x2_0000_0000 + 8, *old(seq) < 0x7fff_ffff_ffff_ffff,
        decreases __v1@.len()
    //@@ end

    //@@ fn crates/rip-tools/src/runtime.rs ToolRunner::emit_checkpoint_events rules=R9
    //@@ sig
        requires *old(seq) < u64::MAX,
        ensures
            // at most one frame is added, numbered with the next seq; earlier frames untouched
            final(events)@.len() <= old(events)@.len() + 1 && final(events)@.subrange(0, old(events)@.len() as int) == old(events)@,     // [auto_checkpoint.at_most_one_frame_appended]
            *final(seq) == *old(seq) + (final(events)@.len() - old(events)@.len()),                                                    // [auto_checkpoint.counter_advances_by_frames]
            final(events)@.len() > old(events)@.len() ==> (final(events)@.last().seq == *old(seq) && final(events)@.last().session_id@ == session_id@),
            // a file-editing tool with a configured hook: the hook was asked for an AUTO checkpoint of exactly the files the tool can change,
            // and the outcome is one CheckpointCreated{auto} or CheckpointFailed frame
            (self.checkpoint_hook is Some && files_of(*invocation) is Some) ==> (auto_checkpoint_requested(invocation.name@, files_of(*invocation)->Some_0)
                && final(events)@.len() == old(events)@.len() + 1
                && (final(events)@.last().kind matches EventKind::CheckpointCreated { auto, tool_name, .. } ==> auto && tool_name is Some && tool_name->Some_0@ == invocation.name@)
                && (final(events)@.last().kind is CheckpointCreated || final(events)@.last().kind is CheckpointFailed)),       // [auto_checkpoint.covers_exactly_the_files_the_tool_can_change]
            (self.checkpoint_hook is None || files_of(*invocation) is None) ==> (final(events)@.len() == old(events)@.len() || final(events)@.last().kind is CheckpointFailed),
            // the result tells the caller whether the tool may run: with a hook and files the tool can change, only after the checkpoint was created
            (ret && self.checkpoint_hook is Some && files_of(*invocation) is Some) ==> final(events)@.last().kind is CheckpointCreated,      // [auto_checkpoint.go_ahead_only_with_the_checkpoint_created]
    //@@ end
}

// ---- ripd/src/session.rs: frames for a tool call rejected by the tool choice ---------------------------------
//@@ fn crates/ripd/src/session.rs rejected_tool_invocation_events rules=R9
//@@ sig
    requires *old(seq) < u64::MAX - 1,
    ensures
        ret@.len() == 2 && consecutive(ret@, *old(seq) as int, session_id@) && *final(seq) == *old(seq) + 2,       // [rejected_tool.two_frames_numbered_next]
        ret@[0].kind is ToolStarted && ret@[1].kind is ToolFailed,
//@@ end

// ---- rip-kernel: the scripted session machine ---------------------------------------------------------------
pub struct Arc<T> { pub inner: T }
pub enum HookEventKind { SessionStarted, Output, SessionEnded }
pub struct HookContext { pub session_id: String, pub seq: u64, pub timestamp_ms: u64, pub event: HookEventKind, pub output: Option<String> }
pub enum HookOutcome { Continue, Abort { reason: String } }
pub struct HookEngine { pub filler: u8 }
impl Arc<HookEngine> { #[verifier::external_body] pub fn run(&self, ctx: &HookContext) -> HookOutcome { unimplemented!() } }
//@@ item crates/rip-kernel/src/lib.rs enum Stage
//@@ item crates/rip-kernel/src/lib.rs struct Session
impl Session {
    //@@ fn crates/rip-kernel/src/lib.rs Session::next_event rules=R9
    //@@ sig
        requires old(self).seq < u64::MAX,
        ensures
            // every frame handed out carries the counter's value, on the session's own stream, and the counter moves by exactly one
            ret matches Some(e) ==> (e.seq == old(self).seq && final(self).seq == old(self).seq + 1 && e.session_id@ == old(self).id@),     // [session_next_event.numbers_consecutively]
            ret is None ==> (final(self).seq == old(self).seq && old(self).stage is Done),                                                 // [session_next_event.none_only_when_done]
            final(self).id@ == old(self).id@,
            // the stream starts with its start frame and ends with exactly one end frame
            (ret is Some && old(self).stage is Start) ==> (ret->Some_0.kind is SessionStarted || ret->Some_0.kind is SessionEnded),                     // [session_next_event.first_frame_is_start_or_abort]
            (ret is Some && ret->Some_0.kind is SessionEnded) ==> final(self).stage is Done,                                                  // [session_next_event.nothing_after_the_end_frame]
            old(self).stage is Done ==> ret is None,                                                                                        // [session_next_event.a_finished_session_hands_out_nothing]
            (ret is Some && final(self).stage is Done) ==> ret->Some_0.kind is SessionEnded,                                                  // [session_next_event.only_the_end_frame_finishes_the_session]
    //@@ end
}

// ---- rip-log: one frame = one line + newline + flush, under one writer guard ---------------------------------
pub mod io {
    use vstd::prelude::*;
    verus! {
    pub struct Error { pub filler: u8 }
    pub enum ErrorKind { InvalidData, Other }
    impl Error { #[verifier::external_body] pub fn new<E>(kind: ErrorKind, e: E) -> Error { unimplemented!() } }
    pub type Result<T> = std::result::Result<T, Error>;
    } // verus!
}
pub mod serde_json_log {
    use super::*;
    verus! {
    pub struct Error { pub filler: u8 }
    // a serialised frame is one line: it contains no newline byte
    #[verifier::external_body]
    pub fn to_string(e: &Event) -> (r: Result<String, Error>)
        ensures r matches Ok(s) ==> line_of(*e) == s@ && !s@.contains('\n'),
    { unimplemented!() }
    } // verus!
}
pub uninterp spec fn line_of(e: Event) -> Seq<char>;
pub uninterp spec fn bytes_of(s: Seq<char>) -> Seq<u8>;
pub assume_specification[ String::as_bytes ](s: &String) -> (r: &[u8]) ensures r@ == bytes_of(s@);
// the guarded appender: ghost `written` = bytes handed to the OS writer, `flushed` = prefix already flushed
pub struct Writer { pub filler: u8 }
impl Writer {
    pub uninterp spec fn written(&self) -> Seq<u8>;
    pub uninterp spec fn flushed(&self) -> int;
    #[verifier::external_body]
    pub fn write_all(&mut self, b: &[u8]) -> (r: io::Result<()>)
        ensures r is Ok ==> final(self).written() == old(self).written() + b@, final(self).flushed() == old(self).flushed(),
    { unimplemented!() }
    #[verifier::external_body]
    pub fn flush(&mut self) -> (r: io::Result<()>)
        ensures final(self).written() == old(self).written(), r is Ok ==> final(self).flushed() == final(self).written().len(),
    { unimplemented!() }
}
pub struct WriterLockResult { pub filler: u8 }
pub struct WriterMutex { pub filler: u8 }
impl WriterMutex { #[verifier::external_body] pub fn lock(&self) -> WriterLockResult { unimplemented!() } }
impl WriterLockResult {
    // timeless fact: a frame line was completely written and flushed under one guard
    #[verifier::external_body] pub fn expect(self, msg: &str) -> (g: Writer) ensures g.flushed() <= g.written().len() { unimplemented!() }
}
pub struct EventLog { pub path: PathBuf, pub writer: WriterMutex }
pub open spec fn newline() -> Seq<u8> { seq![10u8] }
impl EventLog {
    //@@ fn crates/rip-log/src/lib.rs EventLog::append
    //@@ alias serde_json::to_string serde_json_log::to_string
    //@@ sig
    //@@ tail
        proof {
            // Ok only after the whole line, its newline and the flush went through the same guard, in this order
            assert(writer.written().len() == w0.len() + bytes_of(line_of(*event)).len() + 1
                && writer.written().subrange(0, (w0.len() + bytes_of(line_of(*event)).len()) as int) =~= w0 + bytes_of(line_of(*event)));                 // [log_append.exactly_line_then_one_terminator_byte_under_one_guard]
            assert(writer.flushed() == writer.written().len());                                     // [log_append.flushed_before_ok]
        }
    //@@ afterclosure 0
        let ghost w0 = writer.written();
    //@@ end
}

} // verus!
fn main() {}
