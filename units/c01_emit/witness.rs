// Replay enumerator for the per-session numbering sites: real text (R1 only) of Session::next_event (every hook script),
// ToolRunner::{emit, create_checkpoint, rewind_checkpoint, emit_checkpoint_events}, rejected_tool_invocation_events.
use std::cell::RefCell;
use std::path::PathBuf;
use std::sync::Arc;
//@@ include prelude/kernel_model_plain.rs
pub struct Uuid;
impl Uuid { pub fn new_v4() -> Uuid { Uuid } }
impl std::fmt::Display for Uuid { fn fmt(&self, f: &mut std::fmt::Formatter<'_>) -> std::fmt::Result { write!(f, "id") } }
pub fn now_ms() -> u64 { 0 }
// hooks: the outcome of the k-th hook call is scripted (true = abort)
#[derive(Debug, Clone, Copy, PartialEq)] pub enum HookEventKind { SessionStarted, Output, SessionEnded }
pub struct HookContext { pub session_id: String, pub seq: u64, pub timestamp_ms: u64, pub event: HookEventKind, pub output: Option<String> }
pub enum HookOutcome { Continue, Abort { reason: String } }
pub struct HookEngine { pub script: Vec<bool>, pub calls: RefCell<usize>, pub seen: RefCell<Vec<u64>> }
impl HookEngine { pub fn run(&self, ctx: &HookContext) -> HookOutcome { let k = *self.calls.borrow(); *self.calls.borrow_mut() += 1; self.seen.borrow_mut().push(ctx.seq);
    if self.script.get(k).copied().unwrap_or(false) { HookOutcome::Abort { reason: "hook".into() } } else { HookOutcome::Continue } } }
//@@ item crates/rip-kernel/src/lib.rs enum Stage
//@@ item crates/rip-kernel/src/lib.rs struct Session
impl Session {
    //@@ fn crates/rip-kernel/src/lib.rs Session::next_event
    //@@ end
}
// tool runner
//@@ item crates/rip-tools/src/runtime.rs struct CheckpointRequest
//@@ item crates/rip-tools/src/runtime.rs struct CheckpointRecord
//@@ item crates/rip-tools/src/runtime.rs struct CheckpointRewindRecord
//@@ item crates/rip-tools/src/runtime.rs struct ToolInvocation
pub struct Hook { pub fail: bool }
impl Hook {
    pub fn create(&self, r: CheckpointRequest) -> Result<CheckpointRecord, String> { if self.fail { Err("no".into()) } else { Ok(CheckpointRecord { id: "cp".into(), label: r.label, created_at_ms: 0, files: r.files.iter().map(|p| p.display().to_string()).collect() }) } }
    pub fn rewind(&self, _s: &str, id: &str) -> Result<CheckpointRewindRecord, String> { if self.fail { Err("no".into()) } else { Ok(CheckpointRewindRecord { id: id.into(), label: "l".into(), files: vec![] }) } }
}
pub struct ToolRunner { pub checkpoint_hook: Option<Hook> }
pub fn files_for_invocation(inv: &ToolInvocation) -> Result<Option<Vec<PathBuf>>, String> { match inv.name.as_str() { "write" => Ok(Some(vec![PathBuf::from("f")])), "apply_patch" => Err("bad patch".into()), _ => Ok(None) } }
impl ToolRunner {
    //@@ fn crates/rip-tools/src/runtime.rs ToolRunner::emit
    //@@ end
    //@@ fn crates/rip-tools/src/runtime.rs ToolRunner::create_checkpoint
    //@@ end
    //@@ fn crates/rip-tools/src/runtime.rs ToolRunner::rewind_checkpoint
    //@@ end
    //@@ fn crates/rip-tools/src/runtime.rs ToolRunner::emit_checkpoint_events
    //@@ end
}
//@@ fn crates/ripd/src/session.rs rejected_tool_invocation_events
//@@ end
// rip-log: the appender, over a writer that records what was written and what was flushed, with scripted failures
pub mod logw {
    use std::io;
    pub struct W { pub written: Vec<u8>, pub flushed: usize, pub fail_at: Option<usize>, pub calls: usize }
    impl W {
        fn step(&mut self) -> io::Result<()> { let k = self.calls; self.calls += 1; if self.fail_at == Some(k) { Err(io::Error::new(io::ErrorKind::Other, "io")) } else { Ok(()) } }
        pub fn write_all(&mut self, b: &[u8]) -> io::Result<()> { self.step()?; self.written.extend_from_slice(b); Ok(()) }
        pub fn flush(&mut self) -> io::Result<()> { self.step()?; self.flushed = self.written.len(); Ok(()) }
    }
    pub mod serde_json { pub fn to_string(e: &super::super::Event) -> Result<String, String> { Ok(format!("{{\"seq\":{},\"stream\":\"{}\"}}", e.seq, e.session_id)) } }
    pub struct EventLog { pub path: std::path::PathBuf, pub writer: std::sync::Mutex<W> }
    use super::Event;
    impl EventLog {
        //@@ fn crates/rip-log/src/lib.rs EventLog::append pub
        //@@ end
    }
}

fn contiguous(frames: &[Event], from: u64, sid: &str) -> bool { frames.iter().enumerate().all(|(i, e)| e.seq == from + i as u64 && e.session_id == sid) }

fn main() {
    // ---- EventLog::append: one frame = its line + newline, flushed, or an error; every failure point ----
    for fail_at in [None, Some(0usize), Some(1), Some(2)] {
        let log = logw::EventLog { path: PathBuf::new(), writer: std::sync::Mutex::new(logw::W { written: vec![], flushed: 0, fail_at, calls: 0 }) };
        let e = Event { id: "i".into(), session_id: "s".into(), timestamp_ms: 0, seq: 4, kind: EventKind::SessionEnded { reason: "r".into() } };
        let r = log.append(&e);
        let w = log.writer.lock().unwrap();
        let line = logw::serde_json::to_string(&e).unwrap();
        let ok = match fail_at { None => r.is_ok() && w.written == format!("{line}\n").into_bytes() && w.flushed == w.written.len(), Some(_) => r.is_err() };
        if !ok { println!("WITNESS {{\"function\": \"EventLog::append\", \"io_failure_at_call\": {:?}, \"bytes_written\": {:?}, \"flushed\": {}, \"result_ok\": {}, \"problem\": \"a successful append is not exactly the frame's line plus a newline, flushed / a failed write reported success\"}}", fail_at, String::from_utf8_lossy(&w.written), w.flushed, r.is_ok()); return; }
    }
    // ---- Session::next_event: every abort script over the three hook calls, every starting counter ----
    for start in [0u64, 5] { for code in 0..8u8 {
        let script: Vec<bool> = (0..3).map(|i| (code >> i) & 1 == 1).collect();
        let hooks = Arc::new(HookEngine { script: script.clone(), calls: RefCell::new(0), seen: RefCell::new(vec![]) });
        let mut s = Session { id: "s".into(), input: "in".into(), seq: start, stage: Stage::Start, hooks: hooks.clone() };
        let mut frames = Vec::new();
        for _ in 0..8 { match s.next_event() { Some(e) => frames.push(e), None => break } }
        let ends = frames.iter().filter(|e| matches!(e.kind, EventKind::SessionEnded { .. })).count();
        let problem = if !contiguous(&frames, start, "s") { Some("frame seqs are not start, start+1, ... without gap or duplicate") }
            else if s.seq != start + frames.len() as u64 { Some("the session counter is not first seq + number of frames") }
            else if frames.is_empty() || !(matches!(frames[0].kind, EventKind::SessionStarted { .. }) || matches!(frames[0].kind, EventKind::SessionEnded { .. })) { Some("the stream does not begin with its start frame") }
            else if ends != 1 || !matches!(frames.last().unwrap().kind, EventKind::SessionEnded { .. }) { Some("the stream does not end with exactly one end frame") }
            else if s.next_event().is_some() { Some("a frame was handed out after the end frame") }
            else { None };
        if let Some(p) = problem {
            println!("WITNESS {{\"function\": \"Session::next_event\", \"counter_at_start\": {}, \"hook_aborts_at_call\": {:?}, \"frame_seqs\": {:?}, \"frame_kinds\": {:?}, \"problem\": {:?}}}", start, script,
                frames.iter().map(|e| e.seq).collect::<Vec<_>>(), frames.iter().map(|e| match e.kind { EventKind::SessionStarted { .. } => "started", EventKind::SessionEnded { .. } => "ended", _ => "output" }).collect::<Vec<_>>(), p);
            return;
        }
    } }
    // ---- tool runner frames: every hook configuration, tools that edit / do not edit / have bad arguments ----
    for hook in [None, Some(false), Some(true)] { for tool in ["write", "apply_patch", "ls"] { for start in [0u64, 9] {
        let r = ToolRunner { checkpoint_hook: hook.map(|fail| Hook { fail }) };
        let inv = ToolInvocation { name: tool.into(), args: Value { filler: 0 }, timeout_ms: None };
        let mut seq = start; let mut all: Vec<Event> = Vec::new();
        all.push(r.emit("s", &mut seq, EventKind::ToolStarted { tool_id: "t".into(), name: tool.into(), args: Value { filler: 0 }, timeout_ms: None }));
        all.extend(r.create_checkpoint("s", &mut seq, "l".into(), vec![PathBuf::from("f")]));
        all.extend(r.rewind_checkpoint("s", &mut seq, "cp"));
        let before = all.len();
        r.emit_checkpoint_events("s", &mut seq, &inv, &mut all);
        let added = all.len() - before;
        all.extend(rejected_tool_invocation_events("s", &mut seq, &inv, "c", "denied"));
        let want_auto = hook.is_some() && tool != "ls";
        let problem = if !contiguous(&all, start, "s") || seq != start + all.len() as u64 { Some("frames of one session are not numbered consecutively / the counter is not first seq + number of frames") }
            else if added > 1 { Some("more than one frame for one automatic checkpoint") }
            else if want_auto && added != 1 { Some("a file-editing tool with a checkpoint hook produced no checkpoint frame") }
            else if tool == "write" && hook == Some(false) && !matches!(&all[before].kind, EventKind::CheckpointCreated { auto: true, tool_name: Some(n), .. } if n == "write") { Some("the automatic checkpoint frame is not CheckpointCreated{auto, tool_name}") }
            else { None };
        if let Some(p) = problem {
            println!("WITNESS {{\"function\": \"ToolRunner::emit_checkpoint_events\", \"checkpoint_hook\": {:?}, \"tool\": {:?}, \"counter_at_start\": {}, \"frame_seqs\": {:?}, \"counter_after\": {}, \"problem\": {:?}}}",
                match hook { None => "none", Some(false) => "succeeds", Some(true) => "fails" }, tool, start, all.iter().map(|e| e.seq).collect::<Vec<_>>(), seq, p);
            return;
        }
    } } }
}
