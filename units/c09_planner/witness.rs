// vx: label-insensitive
// The planners are replayed by the end-to-end pipeline enumerator (shared with unit c09_pipeline).
//@@ include units/c09_pipeline/witness.rs
