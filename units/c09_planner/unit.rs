//@@ unit c09_planner properties=C09,C02 variants=dry_run,nothing_new
#![allow(unused_imports, dead_code, unused_variables, unused_mut)]
use vstd::prelude::*;
use vstd::std_specs::iter::IteratorSpec;

//@@ include prelude/strings.rs

verus! {

// ---- stubs (R8; trusted) ----------------------------------------------------------------------
#[verifier::external_body] pub fn vfmt() -> String { unimplemented!() }        // R9
pub mod serde_json { use vstd::prelude::*; verus! { pub struct Value { pub filler: u8 } } }
pub struct J { pub filler: u8 }
#[verifier::external_body] pub fn vj<T>(t: &T) -> J { unimplemented!() }       // R6o: opaque JSON members
#[verifier::external_body] pub fn jnil() -> serde_json::Value { unimplemented!() }
#[verifier::external_body] pub fn jcons(j: J, rest: serde_json::Value) -> serde_json::Value { unimplemented!() }
pub struct Uuid { pub filler: u8 }
impl Uuid {
    #[verifier::external_body] pub fn new_v4() -> Uuid { unimplemented!() }
    #[verifier::external_body] pub fn to_string(&self) -> String { unimplemented!() }
}
pub const COMPACTION_JOB_KIND_SUMMARIZER_V1: &'static str = "compaction_summarizer_v1";

//@@ item crates/ripd/src/continuities.rs struct CompactionCutPointsV1Request dropderive=Clone
//@@ item crates/ripd/src/continuities.rs struct CompactionCutPointsV1Response dropderive=Clone
//@@ item crates/ripd/src/continuities.rs struct CompactionCutPointV1 dropderive=Clone
//@@ item crates/ripd/src/continuities.rs struct CompactionAutoV1Request dropderive=Clone
//@@ item crates/ripd/src/continuities.rs struct CompactionAutoV1Response dropderive=Clone
//@@ item crates/ripd/src/continuities.rs struct CompactionPlannedCutPointV1
//@@ item crates/ripd/src/continuities.rs struct CompactionAutoResultCheckpointV1 dropderive=Clone
//@@ item crates/ripd/src/continuities.rs struct CompactionAutoScheduleV1Request dropderive=Clone
//@@ item crates/ripd/src/continuities.rs struct CompactionAutoScheduleV1Response dropderive=Clone
//@@ item crates/ripd/src/continuities.rs struct CompactionAutoScheduleDecidedPayload
//@@ item crates/rip-kernel/src/lib.rs struct CompactionPlannedCutPoint dropderive=Clone

// ---- specification from the property statement ----------------------------------------------------
// the thread's cut points for a stride, latest first (computed by compaction_cut_points_v1, not under contract)
pub uninterp spec fn cut_points_of(thread: Seq<char>, stride: u64) -> Seq<CompactionCutPointV1>;
pub open spec fn min_int(a: int, b: int) -> int { if a <= b { a } else { b } }
// planning: walk the first n candidates latest-first, keep those not yet checkpointed until k are planned
pub open spec fn plan_upto(cps: Seq<CompactionCutPointV1>, n: int, k: int) -> Seq<CompactionCutPointV1>
    decreases n
{
    if n <= 0 { Seq::empty() } else {
        let p = plan_upto(cps, n - 1, k);
        if p.len() >= k || cps[n - 1].already_checkpointed { p } else { p.push(cps[n - 1]) }
    }
}
pub open spec fn planned_is(p: Seq<CompactionPlannedCutPointV1>, want: Seq<CompactionCutPointV1>) -> bool {
    p.len() == want.len() && forall|i: int| 0 <= i < p.len() ==> (#[trigger] p[i]).target_message_ordinal == want[i].target_message_ordinal
        && p[i].to_seq == want[i].to_seq && p[i].to_message_id@ == want[i].to_message_id@
}
pub proof fn lemma_plan_full_stays(cps: Seq<CompactionCutPointV1>, n: int, m: int, k: int)
    requires 0 <= n <= m <= cps.len(), plan_upto(cps, n, k).len() >= k,
    ensures plan_upto(cps, m, k) == plan_upto(cps, n, k),
    decreases m - n
{
    if n < m { lemma_plan_full_stays(cps, n, m - 1, k); }
}
pub proof fn lemma_plan_len(cps: Seq<CompactionCutPointV1>, n: int, k: int)
    requires 0 <= n <= cps.len(), k >= 0,
    ensures plan_upto(cps, n, k).len() <= k, plan_upto(cps, n, k).len() <= n,
        forall|i: int| 0 <= i < plan_upto(cps, n, k).len() ==> !(#[trigger] plan_upto(cps, n, k)[i]).already_checkpointed,
    decreases n
{
    if n > 0 { lemma_plan_len(cps, n - 1, k); }
}
pub proof fn lemma_plan_empty_when_all_done(cps: Seq<CompactionCutPointV1>, n: int, k: int)
    requires 0 <= n <= cps.len(), forall|i: int| 0 <= i < n ==> (#[trigger] cps[i]).already_checkpointed,
    ensures plan_upto(cps, n, k).len() == 0,
    decreases n
{
    if n > 0 { lemma_plan_empty_when_all_done(cps, n - 1, k); }
}
pub proof fn lits_distinct()
    ensures "noop"@ != "spawned"@, "noop"@ != "scheduled"@, "dry_run"@ != "scheduled"@, "skipped_inflight"@ != "scheduled"@, "spawned"@ != "noop"@,
{
    reveal_strlit("noop"); reveal_strlit("spawned"); reveal_strlit("scheduled"); reveal_strlit("dry_run"); reveal_strlit("skipped_inflight");
    assert("noop"@.len() == 4 && "spawned"@.len() == 7 && "scheduled"@.len() == 9 && "dry_run"@.len() == 7 && "skipped_inflight"@.len() == 16);
}
// timeless facts emitted by the append stubs
pub uninterp spec fn job_spawned(thread: Seq<char>, job_id: Seq<char>) -> bool;
pub uninterp spec fn decision_frame(thread: Seq<char>, decision_id: Seq<char>, decision: Seq<char>, planned: Seq<(u64, u64, Seq<char>)>, job_id: Option<Seq<char>>) -> bool;
pub open spec fn proj_frame(f: Seq<CompactionPlannedCutPoint>) -> Seq<(u64, u64, Seq<char>)> { f.map_values(|x: CompactionPlannedCutPoint| (x.target_message_ordinal, x.to_seq, x.to_message_id@)) }
pub open spec fn vec_view(v: Vec<CompactionPlannedCutPoint>) -> Seq<CompactionPlannedCutPoint> { v@ }
pub open spec fn proj_plan(p: Seq<CompactionPlannedCutPointV1>) -> Seq<(u64, u64, Seq<char>)> { p.map_values(|x: CompactionPlannedCutPointV1| (x.target_message_ordinal, x.to_seq, x.to_message_id@)) }
pub open spec fn opt_view(o: Option<String>) -> Option<Seq<char>> { if o is Some { Some(o->Some_0@) } else { None } }
pub open spec fn frame_plan_is(f: Seq<CompactionPlannedCutPoint>, p: Seq<CompactionPlannedCutPointV1>) -> bool {
    f.len() == p.len() && forall|i: int| 0 <= i < f.len() ==> (#[trigger] f[i]).target_message_ordinal == p[i].target_message_ordinal && f[i].to_seq == p[i].to_seq && f[i].to_message_id@ == p[i].to_message_id@
}

pub struct ContinuityStore { pub filler: u8 }
impl ContinuityStore {
    // assumed: the cut-point capability returns the `limit` latest cut points of cut_points_of, latest first
    #[verifier::external_body]
    pub fn compaction_cut_points_v1(&self, thread_id: &str, req: CompactionCutPointsV1Request) -> (r: Result<CompactionCutPointsV1Response, String>)
        ensures r matches Ok(resp) ==> (req.stride_messages is Some && req.limit is Some
            && resp.cut_points@ == cut_points_of(thread_id@, req.stride_messages->Some_0).subrange(0,
                min_int(req.limit->Some_0 as int, cut_points_of(thread_id@, req.stride_messages->Some_0).len() as int))),
    { unimplemented!() }
    // In the scenario variants `dry_run` (every request is a dry run) and `nothing_new` (every cut point is already
    // checkpointed) the append stubs require `false`: verification then shows that no frame can be appended at all.
    #[verifier::external_body]
    pub fn append_job_spawned(&self, continuity_id: &str, job_id: &str, job_kind: &str, details: Option<serde_json::Value>, actor_id: String, origin: String) -> (r: Result<String, String>)
//@@ variant dry_run
        requires false,                                                                              // [silence.no_job_frame_on_dry_run]
//@@ endvariant
//@@ variant nothing_new
        requires false,                                                                              // [silence.no_job_frame_when_nothing_new]
//@@ endvariant
        ensures r is Ok ==> job_spawned(continuity_id@, job_id@),
    { unimplemented!() }
    // effect constraint (all scenarios): a decision frame always carries a non-empty plan
    #[verifier::external_body]
    pub fn append_compaction_auto_schedule_decided(&self, continuity_id: &str, payload: CompactionAutoScheduleDecidedPayload) -> (r: Result<String, String>)
        requires
            payload.planned@.len() > 0,                                                              // [decision_frame.requires_nonempty_plan]
//@@ variant dry_run
            false,                                                                                   // [silence.no_decision_frame_on_dry_run]
//@@ endvariant
//@@ variant nothing_new
            false,                                                                                   // [silence.no_decision_frame_when_nothing_new]
//@@ endvariant
        ensures r is Ok ==> decision_frame(continuity_id@, payload.decision_id@, payload.decision@, proj_frame(payload.planned@), opt_view(payload.job_id)),
    { unimplemented!() }
    #[verifier::external_body]
    pub fn find_inflight_compaction_job_id_best_effort_v1(&self, continuity_id: &str) -> Option<String> { unimplemented!() }

    //@@ fn crates/ripd/src/continuities.rs ContinuityStore::compaction_auto_spawn_job_v1 rules=R6o,R9 r7=0
    //@@ sig@dry_run
        requires req.dry_run == Some(true),
    //@@ sig@nothing_new
        requires forall|st: u64, i: int| 0 <= i < cut_points_of(thread_id@, st).len() ==> (#[trigger] cut_points_of(thread_id@, st)[i]).already_checkpointed,
    //@@ sig
        ensures
            ret matches Ok(resp) ==> {
                let st = if req.stride_messages is Some { req.stride_messages->Some_0 } else { 10_000u64 };
                let k = if req.max_new_checkpoints is Some { if req.max_new_checkpoints->Some_0 < 1 { 1int } else if req.max_new_checkpoints->Some_0 > 32 { 32int } else { req.max_new_checkpoints->Some_0 as int } } else { 1int };
                let all = cut_points_of(thread_id@, st);
                let cand = all.subrange(0, min_int(32, all.len() as int));
                // planned = the first k not-yet-checkpointed cut points among the 32 latest, order and fields preserved
                &&& planned_is(resp.planned@, plan_upto(cand, cand.len() as int, k))                                     // [spawn_job.planned_is_first_k_unchecked_latest_first]
                // bracket: "spawned" iff a job-spawned frame for exactly that job id was written
                &&& (resp.status@ == "spawned"@ ==> (resp.job_id is Some && job_spawned(thread_id@, resp.job_id->Some_0@) && resp.planned@.len() > 0 && req.dry_run != Some(true)))   // [spawn_job.spawned_only_with_job_frame_nonempty_plan_not_dry_run]
            },
    //@@ loop 0
        invariant
            __s0@ == cut_points.cut_points@,
            __i0 <= __s0@.len(),
            max_new >= 1, max_new <= 32,
            planned@.len() <= max_new,
            planned_is(planned@, plan_upto(cut_points.cut_points@, __i0 as int, max_new as int)),                          // [spawn_job.loop.planned_follows_plan]
        ensures
            planned_is(planned@, plan_upto(cut_points.cut_points@, cut_points.cut_points@.len() as int, max_new as int)),
        decreases __s0@.len() - __i0
    //@@ before break 0
        proof { lemma_plan_full_stays(cut_points.cut_points@, __i0 as int - 1, cut_points.cut_points@.len() as int, max_new as int); }
    //@@ afterloop 0
        proof { reveal_strlit("noop"); reveal_strlit("spawned"); assert("noop"@.len() != "spawned"@.len()); }
    //@@ afterloop@nothing_new 0
        proof {
            reveal_strlit("noop"); reveal_strlit("spawned"); assert("noop"@.len() != "spawned"@.len());
            assert forall|i: int| 0 <= i < cut_points.cut_points@.len() implies (#[trigger] cut_points.cut_points@[i]).already_checkpointed by {
                assert(cut_points.cut_points@[i] == cut_points_of(thread_id@, stride)[i]);
            }
            lemma_plan_empty_when_all_done(cut_points.cut_points@, cut_points.cut_points@.len() as int, max_new as int);
        }
    //@@ end

    //@@ fn crates/ripd/src/continuities.rs ContinuityStore::compaction_auto_schedule_spawn_job_v1 rules=R6o,R9 r7=0
    //@@ sig@dry_run
        requires req.dry_run == Some(true),
    //@@ sig@nothing_new
        requires forall|st: u64, i: int| 0 <= i < cut_points_of(thread_id@, st).len() ==> (#[trigger] cut_points_of(thread_id@, st)[i]).already_checkpointed,
    //@@ sig
        ensures
            ret matches Ok(resp) ==> {
                let st = if req.stride_messages is Some { req.stride_messages->Some_0 } else { 10_000u64 };
                let k = if req.max_new_checkpoints is Some { if req.max_new_checkpoints->Some_0 < 1 { 1int } else if req.max_new_checkpoints->Some_0 > 32 { 32int } else { req.max_new_checkpoints->Some_0 as int } } else { 1int };
                let all = cut_points_of(thread_id@, st);
                let cand = all.subrange(0, min_int(32, all.len() as int));
                &&& planned_is(resp.planned@, plan_upto(cand, cand.len() as int, k))                                     // [schedule.planned_is_first_k_unchecked_latest_first]
                // a decision id is returned only together with a decision frame that carries exactly the plan
                &&& (resp.decision_id matches Some(d) ==> decision_frame(thread_id@, d@, resp.decision@, proj_plan(resp.planned@), opt_view(resp.job_id)))   // [schedule.decision_frame_carries_exactly_the_plan_and_job]
                // "scheduled" names a job whose job-spawned frame was written
                &&& (resp.decision@ == "scheduled"@ ==> (resp.decision_id is Some && resp.job_id is Some && job_spawned(thread_id@, resp.job_id->Some_0@)))   // [schedule.scheduled_names_a_spawned_job]
            },
    //@@ entry
        broadcast use group_string_eq;
    //@@ closure 0
        -> (r: CompactionPlannedCutPoint) ensures r.target_message_ordinal == p.target_message_ordinal && r.to_seq == p.to_seq && r.to_message_id@ == p.to_message_id@
    //@@ closure 1
        -> (r: CompactionPlannedCutPoint) ensures r.target_message_ordinal == p.target_message_ordinal && r.to_seq == p.to_seq && r.to_message_id@ == p.to_message_id@
    //@@ afterclosure 0
        proof { assert(proj_frame(vec_view(planned_frame)) =~= proj_plan(planned@)); }      // [schedule.decision_frame_carries_exactly_the_plan_and_job]
    //@@ afterclosure 1
        proof { assert(proj_frame(vec_view(planned_frame)) =~= proj_plan(planned@)); }      // [schedule.decision_frame_carries_exactly_the_plan_and_job]
    //@@ loop 0
        invariant
            __s0@ == cut_points.cut_points@,
            __i0 <= __s0@.len(),
            max_new_checkpoints >= 1, max_new_checkpoints <= 32,
            planned@.len() <= max_new_checkpoints,
            planned_is(planned@, plan_upto(cut_points.cut_points@, __i0 as int, max_new_checkpoints as int)),               // [schedule.loop.planned_follows_plan]
        ensures
            planned_is(planned@, plan_upto(cut_points.cut_points@, cut_points.cut_points@.len() as int, max_new_checkpoints as int)),
        decreases __s0@.len() - __i0
    //@@ before break 0
        proof { lemma_plan_full_stays(cut_points.cut_points@, __i0 as int - 1, cut_points.cut_points@.len() as int, max_new_checkpoints as int); }
    //@@ afterloop 0
        proof { lits_distinct(); }
    //@@ afterloop@nothing_new 0
        proof {
            lits_distinct();
            assert forall|i: int| 0 <= i < cut_points.cut_points@.len() implies (#[trigger] cut_points.cut_points@[i]).already_checkpointed by {
                assert(cut_points.cut_points@[i] == cut_points_of(thread_id@, stride)[i]);
            }
            lemma_plan_empty_when_all_done(cut_points.cut_points@, cut_points.cut_points@.len() as int, max_new_checkpoints as int);
        }
    //@@ end
}

} // verus!
fn main() {}
