// Replay enumerator for checkpoints: the real Workspace::{create_checkpoint, rewind_to_checkpoint, to_relative} and
// Patch::affected_paths run natively against the real std::fs in a scratch directory.
use std::collections::{BTreeMap, BTreeSet};
use std::fs;
use std::io;
use std::path::{Component, Path, PathBuf};
use std::cell::RefCell;
pub struct Uuid;
thread_local! { static CTR: RefCell<u64> = RefCell::new(0); }
impl Uuid { pub fn new_v4() -> Uuid { Uuid } }
impl std::fmt::Display for Uuid { fn fmt(&self, f: &mut std::fmt::Formatter<'_>) -> std::fmt::Result { let n = CTR.with(|c| { *c.borrow_mut() += 1; *c.borrow() }); write!(f, "cp-{n}") } }
fn now_ms() -> u64 { std::time::SystemTime::now().duration_since(std::time::UNIX_EPOCH).map(|d| d.as_millis() as u64).unwrap_or(0) }      // the real clock: a checkpoint is stamped with the time it was taken
fn hash_bytes(b: &[u8]) -> String { format!("h{}", b.len()) }
//@@ item crates/rip-workspace/src/lib.rs struct CheckpointFile
//@@ item crates/rip-workspace/src/lib.rs struct Checkpoint
//@@ item crates/rip-workspace/src/lib.rs struct Workspace
// stand-in (de)serialisation of the checkpoint metadata: one line per field
pub mod serde_json {
    use super::{Checkpoint, CheckpointFile};
    pub fn to_vec_pretty(c: &Checkpoint) -> Result<Vec<u8>, String> {
        let mut s = format!("{}\n{}\n{}\n{}\n", c.id, c.session_id, c.label, c.created_at_ms);
        for f in &c.files { s.push_str(&format!("{}\t{}\t{}\n", f.path, f.exists, f.sha256.clone().unwrap_or_default())); }
        Ok(s.into_bytes())
    }
    pub fn from_slice(b: &[u8]) -> Result<Checkpoint, String> {
        let s = String::from_utf8(b.to_vec()).map_err(|e| e.to_string())?;
        let mut l = s.lines();
        let id = l.next().ok_or("id")?.to_string(); let session_id = l.next().ok_or("s")?.to_string(); let label = l.next().ok_or("l")?.to_string();
        let created_at_ms = l.next().ok_or("t")?.parse().map_err(|_| "t")?;
        let files = l.map(|x| { let mut p = x.split('\t'); CheckpointFile { path: p.next().unwrap_or("").to_string(), exists: p.next() == Some("true"), sha256: p.next().map(|h| h.to_string()) } }).collect();
        Ok(Checkpoint { id, session_id, label, created_at_ms, files })
    }
}
impl Workspace {
    //@@ fn crates/rip-workspace/src/lib.rs Workspace::create_checkpoint
    //@@ end
    //@@ fn crates/rip-workspace/src/lib.rs Workspace::rewind_to_checkpoint
    //@@ end
    //@@ fn crates/rip-workspace/src/lib.rs Workspace::to_relative
    //@@ end
    //@@ fn crates/rip-workspace/src/lib.rs Workspace::safe_join
    //@@ end
    //@@ fn crates/rip-workspace/src/lib.rs Workspace::list_checkpoints
    //@@ end
}
#[derive(Debug, Clone, PartialEq, Eq)]
pub struct PatchHunk { pub before: Vec<String>, pub after: Vec<String> }
// the authority's checkpoint hook (ripd): rewind by id
pub struct CheckpointRewindRecord { pub id: String, pub label: String, pub files: Vec<String> }
pub struct WorkspaceCheckpointHook { pub workspace: Workspace }
impl WorkspaceCheckpointHook {
    //@@ fn crates/ripd/src/checkpoints.rs WorkspaceCheckpointHook::rewind
    //@@ end
}
//@@ item crates/rip-workspace/src/patch.rs enum PatchOp
//@@ item crates/rip-workspace/src/patch.rs struct Patch
impl Patch {
    //@@ fn crates/rip-workspace/src/patch.rs Patch::affected_paths
    //@@ end
}

fn snapshot(root: &Path) -> BTreeMap<PathBuf, Option<Vec<u8>>> {
    // every regular file and directory below root except the .rip store
    fn walk(p: &Path, root: &Path, out: &mut BTreeMap<PathBuf, Option<Vec<u8>>>) {
        if let Ok(rd) = fs::read_dir(p) { for e in rd.flatten() {
            let q = e.path(); let rel = q.strip_prefix(root).unwrap().to_path_buf();
            if rel.starts_with(".rip") { continue; }
            if q.is_dir() { out.insert(rel, None); walk(&q, root, out); } else { out.insert(rel, fs::read(&q).ok()); }
        } }
    }
    let mut out = BTreeMap::new(); walk(root, root, &mut out); out
}
fn store_entries(root: &Path) -> usize {
    fn walk(p: &Path) -> usize { fs::read_dir(p).map(|rd| rd.flatten().map(|e| 1 + walk(&e.path())).sum()).unwrap_or(0) }
    walk(&root.join(".rip"))
}

fn main() {
    let args: Vec<String> = std::env::args().collect();
    let label = args.get(1).cloned().unwrap_or_default();
    if label.starts_with("affected_paths") {
        let names = ["a", "b", "c"];
        // patches of up to 3 operations: add / delete / update / update+move over 3 names
        let mut ops_all: Vec<PatchOp> = Vec::new();
        for n in names { ops_all.push(PatchOp::AddFile { path: n.into(), content: String::new() }); ops_all.push(PatchOp::DeleteFile { path: n.into() });
            ops_all.push(PatchOp::UpdateFile { path: n.into(), moved_to: None, hunks: vec![] });
            for m in names { if m != n { ops_all.push(PatchOp::UpdateFile { path: n.into(), moved_to: Some(m.into()), hunks: vec![] }); } } }
        for k in 0..=2usize { let total = ops_all.len().pow(k as u32 + 1); for code in 0..total {
            let mut c = code; let mut ops = Vec::new(); for _ in 0..=k { ops.push(ops_all[c % ops_all.len()].clone()); c /= ops_all.len(); }
            let mut want: BTreeSet<PathBuf> = BTreeSet::new();
            for op in &ops { match op { PatchOp::AddFile { path, .. } | PatchOp::DeleteFile { path } => { want.insert(path.clone()); }
                PatchOp::UpdateFile { path, moved_to, .. } => { want.insert(path.clone()); if let Some(m) = moved_to { want.insert(m.clone()); } } } }
            let got: BTreeSet<PathBuf> = Patch { ops: ops.clone() }.affected_paths().into_iter().collect();
            if got != want { println!("WITNESS {{\"function\": \"Patch::affected_paths\", \"ops\": {:?}, \"returned\": {:?}, \"every_path_the_patch_can_change\": {:?}}}", format!("{:?}", ops), got, want); return; }
        } }
        return;
    }
    if !(label.starts_with("checkpoint") || label.contains("create_checkpoint") || label.contains("rewind")) { return; }
    let base = std::env::temp_dir().join(format!("rip-verif-c14-{}", std::process::id()));
    let _ = fs::remove_dir_all(&base);
    // a stored record is data: whatever path it names (a damaged or hand-written checkpoint file - the store lies inside the workspace and
    // every file tool may write to it), a rewind touches nothing outside the root
    for bad in ["../escape.txt", "d/../../escape.txt", "/ABS_ESCAPE"] { for exists in [true, false] {
        let outer = base.join(format!("crafted{}{}", bad.len(), exists)); let root = outer.join("ws");
        let ws = Workspace { root: root.clone(), checkpoints_dir: root.join(".rip").join("checkpoints") };
        let cp = ws.checkpoints_dir.join("s").join("cp"); fs::create_dir_all(cp.join("files").join("d")).unwrap();
        let abs_target = outer.join("abs_escape.txt");
        let named = if bad.starts_with('/') { abs_target.to_string_lossy().to_string() } else { bad.to_string() };
        fs::write(cp.join("escape.txt"), "stored").unwrap(); fs::write(cp.join("files").join("escape.txt"), "stored").unwrap();
        fs::write(outer.join("escape.txt"), "outside").unwrap(); fs::write(&abs_target, "outside").unwrap();
        fs::write(cp.join("checkpoint.json"), format!("cp\ns\nl\n0\n{}\t{}\t\n", named, exists)).unwrap();
        let res = ws.rewind_to_checkpoint("s", "cp").map_err(|e| e.to_string());
        let ok = fs::read_to_string(outer.join("escape.txt")).ok().as_deref() == Some("outside") && fs::read_to_string(&abs_target).ok().as_deref() == Some("outside");
        if !ok {
            println!("WITNESS {{\"function\": \"Workspace::rewind_to_checkpoint\", \"stored_record_names\": {:?}, \"recorded_as_existing\": {}, \"rewind_result\": {:?}, \"problem\": \"a file outside the workspace root was written or removed\"}}", named, exists, res);
            let _ = fs::remove_dir_all(&base); return;
        }
    } }
    // an id is matched against the `id` FIELD of the stored records (data) and then used as a directory name: an id with parent segments
    // must not make the hook read a "checkpoint" outside the root and copy its files in
    {
        let outer = base.join("crafted_id"); let root = outer.join("ws");
        let ws = Workspace { root: root.clone(), checkpoints_dir: root.join(".rip").join("checkpoints") };
        let evil = "../../../../outside_cp";
        let outside = outer.join("outside_cp"); fs::create_dir_all(outside.join("files")).unwrap();
        fs::write(outside.join("files").join("stolen.txt"), "secret").unwrap();
        let rec = format!("{}\ns\nl\n0\nstolen.txt\ttrue\t\n", evil);
        fs::write(outside.join("checkpoint.json"), &rec).unwrap();
        let planted = ws.checkpoints_dir.join("s").join("planted"); fs::create_dir_all(&planted).unwrap();
        fs::write(planted.join("checkpoint.json"), &rec).unwrap();
        let hook = WorkspaceCheckpointHook { workspace: ws };
        let res = hook.rewind("s", evil).map(|r| r.files);
        if root.join("stolen.txt").exists() {
            println!("WITNESS {{\"function\": \"WorkspaceCheckpointHook::rewind\", \"checkpoint_id\": {:?}, \"planted_record_claims_that_id\": true, \"rewind_result\": {:?}, \"problem\": \"a file from outside the workspace root was read and copied into it\"}}", evil, res);
            let _ = fs::remove_dir_all(&base); return;
        }
    }
    // two names that differ only in case are two files (on a case-sensitive file system): both are covered, both are restored
    {
        let root = base.join("casepair"); fs::create_dir_all(&root).unwrap();
        let ws = Workspace { root: root.clone(), checkpoints_dir: root.join(".rip").join("checkpoints") };
        fs::create_dir_all(&ws.checkpoints_dir).unwrap();
        fs::write(root.join("Makefile"), "gnu v1").unwrap(); fs::write(root.join("makefile"), "bsd v1").unwrap();
        if fs::read(root.join("Makefile")).ok() != fs::read(root.join("makefile")).ok() {      // skipped on a case-insensitive file system
            let req = vec![root.join("Makefile"), root.join("makefile"), root.join("Makefile")];
            match ws.create_checkpoint("s", "l", &req) {
                Ok(cp) => {
                    fs::write(root.join("Makefile"), "gnu v2").unwrap(); fs::write(root.join("makefile"), "bsd v2").unwrap();
                    let res = ws.rewind_to_checkpoint("s", &cp.id).map(|_| ()).map_err(|e| e.to_string());
                    let got = (fs::read_to_string(root.join("Makefile")).ok(), fs::read_to_string(root.join("makefile")).ok());
                    if res.is_ok() && got != (Some("gnu v1".to_string()), Some("bsd v1".to_string())) {
                        println!("WITNESS {{\"function\": \"Workspace::create_checkpoint + rewind_to_checkpoint\", \"requested\": [\"Makefile\", \"makefile\", \"Makefile\"], \"at_checkpoint\": [\"gnu v1\", \"bsd v1\"], \"after_rewind\": {:?}, \"problem\": \"a file named in the checkpoint request was not restored by the successful rewind (names that differ only in case are different files)\"}}", got);
                        let _ = fs::remove_dir_all(&base); return;
                    }
                }
                Err(e) => { println!("WITNESS {{\"function\": \"Workspace::create_checkpoint\", \"requested\": [\"Makefile\", \"makefile\", \"Makefile\"], \"problem\": \"a request naming files inside the root was refused: {}\"}}", e); let _ = fs::remove_dir_all(&base); return; }
            }
        }
    }
    // a covered file replaced after the checkpoint by a file with an OLD modification time (mv of a backup, cp -p, tar x) is restored
    // like any other: what is compared is content, not time stamps
    {
        let root = base.join("oldmtime"); fs::create_dir_all(&root).unwrap();
        let ws = Workspace { root: root.clone(), checkpoints_dir: root.join(".rip").join("checkpoints") };
        fs::create_dir_all(&ws.checkpoints_dir).unwrap();
        fs::write(root.join("config.toml"), "checkpointed").unwrap();
        if let Ok(cp) = ws.create_checkpoint("s", "l", &[root.join("config.toml")]) {
            fs::write(root.join("config.toml"), "old backup").unwrap();
            let old = std::time::UNIX_EPOCH + std::time::Duration::from_secs(1_000_000_000);
            let stamped = fs::File::options().write(true).open(root.join("config.toml")).and_then(|f| f.set_modified(old)).is_ok();
            let res = ws.rewind_to_checkpoint("s", &cp.id).map(|_| ()).map_err(|e| e.to_string());
            let got = fs::read_to_string(root.join("config.toml")).ok();
            if stamped && res.is_ok() && got.as_deref() != Some("checkpointed") {
                println!("WITNESS {{\"function\": \"Workspace::rewind_to_checkpoint\", \"covered\": \"config.toml\", \"at_checkpoint\": \"checkpointed\", \"replaced_by\": \"old backup (modification time set to 2001)\", \"after_rewind\": {:?}, \"problem\": \"a covered file whose content changed was not restored by the successful rewind\"}}", got);
                let _ = fs::remove_dir_all(&base); return;
            }
        }
    }
    // a checkpoint stays what it was: after a rewind the workspace file is a COPY of the stored bytes - editing it in place (append,
    // non-atomic write, a patch update) and rewinding to the same checkpoint again restores the checkpointed bytes once more
    {
        let root = base.join("twice"); fs::create_dir_all(&root).unwrap();
        let ws = Workspace { root: root.clone(), checkpoints_dir: root.join(".rip").join("checkpoints") };
        fs::create_dir_all(&ws.checkpoints_dir).unwrap();
        fs::write(root.join("a.txt"), "one\n").unwrap();
        if let Ok(cp) = ws.create_checkpoint("s", "l", &[root.join("a.txt")]) {
            fs::write(root.join("a.txt"), "two\n").unwrap();
            let r1 = ws.rewind_to_checkpoint("s", &cp.id).map(|_| ()).map_err(|e| e.to_string());
            // in-place edit of the restored file: same inode, new bytes
            let edited = fs::OpenOptions::new().write(true).truncate(true).open(root.join("a.txt")).and_then(|mut f| { use std::io::Write; f.write_all(b"three\n") }).is_ok();
            let r2 = ws.rewind_to_checkpoint("s", &cp.id).map(|_| ()).map_err(|e| e.to_string());
            let got = fs::read_to_string(root.join("a.txt")).ok();
            if r1.is_ok() && edited && r2.is_ok() && got.as_deref() != Some("one\n") {
                println!("WITNESS {{\"function\": \"Workspace::rewind_to_checkpoint\", \"history\": \"checkpoint a.txt=one; write two; rewind; edit the restored file in place to three; rewind to the same checkpoint again\", \"after_second_rewind\": {:?}, \"at_checkpoint\": \"one\\n\", \"problem\": \"the second rewind to the same checkpoint does not restore the checkpointed bytes (the restored file shared storage with the checkpoint's copy)\"}}", got);
                let _ = fs::remove_dir_all(&base); return;
            }
        }
    }
    // a request that is refused because of its LAST path leaves nothing behind either (the paths before it were not copied yet)
    {
        let root = base.join("refused_late"); fs::create_dir_all(root.join("src")).unwrap();
        let ws = Workspace { root: root.clone(), checkpoints_dir: root.join(".rip").join("checkpoints") };
        fs::create_dir_all(&ws.checkpoints_dir).unwrap();
        fs::write(root.join("src").join("a.txt"), "a").unwrap(); fs::write(root.join("b.txt"), "b").unwrap();
        let n0 = store_entries(&root);
        for bad in ["/etc/hostname", "../outside.txt"] {
            let refused = ws.create_checkpoint("s", "l", &[root.join("src").join("a.txt"), PathBuf::from("b.txt"), PathBuf::from(bad)]);
            if refused.is_ok() || store_entries(&root) != n0 {
                println!("WITNESS {{\"function\": \"Workspace::create_checkpoint\", \"requested\": [\"src/a.txt\", \"b.txt\", {:?}], \"accepted\": {}, \"store_entries_before\": {}, \"store_entries_after\": {}, \"problem\": \"a path outside the workspace was accepted or its refusal left entries (copies of the files named before it) in the checkpoint store\"}}", bad, refused.is_ok(), n0, store_entries(&root));
                let _ = fs::remove_dir_all(&base); return;
            }
        }
    }
    let files = ["a.txt", "d/b\\c.txt"];      // the second name holds a backslash: on Unix an ordinary character of the file name
    let mut case = 0u64;
    // state of each file: 0 absent, 1 "v1", 2 "v2"; before checkpoint x after edits x which files are covered x how they are named x cwd x sabotage
    for before in 0..9usize { for after in 0..9usize { for cover in 1..4usize { for naming in 0..2usize { for cwd_is_root in [true, false] { for sabotage in [false, true] {
        case += 1;
        let root = base.join(format!("r{case}")); let other = base.join(format!("o{case}"));
        fs::create_dir_all(&root).unwrap(); fs::create_dir_all(&other).unwrap();
        let put = |st: usize, f: &str, r: &Path| { let p = r.join(f); if st == 0 { let _ = fs::remove_file(&p); } else { fs::create_dir_all(p.parent().unwrap()).unwrap(); fs::write(&p, if st == 1 { "v1" } else { "v2" }).unwrap(); } };
        let sts_b = [before % 3, before / 3]; let sts_a = [after % 3, after / 3];
        for (i, f) in files.iter().enumerate() { put(sts_b[i], f, &root); put(2, f, &other); }
        let ws = Workspace { root: root.clone(), checkpoints_dir: root.join(".rip").join("checkpoints") };
        fs::create_dir_all(&ws.checkpoints_dir).unwrap();
        std::env::set_current_dir(if cwd_is_root { &root } else { &other }).unwrap();
        let covered: Vec<usize> = (0..2).filter(|i| (cover >> i) & 1 == 1).collect();
        let req: Vec<PathBuf> = covered.iter().map(|i| if naming == 0 { root.join(files[*i]) } else { PathBuf::from(files[*i]) }).collect();
        let at_cp = snapshot(&root);
        let cp = match ws.create_checkpoint("s", "l", &req) { Ok(c) => c, Err(e) => { println!("WITNESS {{\"function\": \"Workspace::create_checkpoint\", \"requested\": {:?}, \"cwd_is_root\": {}, \"problem\": \"a request naming files inside the root was refused: {}\"}}", req, cwd_is_root, e); return; } };
        for (i, f) in files.iter().enumerate() { put(sts_a[i], f, &root); }
        // sabotage: the directory of d/b.txt is replaced by a plain file, so restoring d/b.txt must fail
        let sab = sabotage && covered.contains(&1) && sts_b[1] != 0;
        if sab { let _ = fs::remove_dir_all(root.join("d")); fs::write(root.join("d"), "not a dir").unwrap(); }
        let pre_rewind = snapshot(&root);
        let res = ws.rewind_to_checkpoint("s", &cp.id).map(|_| ());
        let post = snapshot(&root);
        let mut problem: Option<String> = None;
        match &res {
            Ok(()) => { for i in &covered { let rel = PathBuf::from(files[*i]); let want = at_cp.get(&rel).cloned().flatten(); let got = post.get(&rel).cloned().flatten();
                if want != got { problem = Some(format!("after rewind {} has {:?} but had {:?} when the checkpoint was taken", files[*i], got.map(|b| String::from_utf8_lossy(&b).to_string()), want.map(|b| String::from_utf8_lossy(&b).to_string()))); } } }
            Err(_) => { if post != pre_rewind { problem = Some("a rewind that failed did not leave the workspace as it was".to_string()); } else if !sab { problem = Some("rewind failed although nothing prevents it".to_string()); } }
        }
        if let Some(p) = problem {
            println!("WITNESS {{\"function\": \"Workspace::create_checkpoint + rewind_to_checkpoint\", \"files\": {:?}, \"state_at_checkpoint\": {:?}, \"state_before_rewind\": {:?}, \"covered\": {:?}, \"named_relative\": {}, \"cwd_is_root\": {}, \"parent_dir_replaced_by_file\": {}, \"rewind_result\": {:?}, \"problem\": {:?}}}",
                files, sts_b, sts_a, covered, naming == 1, cwd_is_root, sab, res.as_ref().map_err(|e| e.to_string()), p);
            let _ = std::env::set_current_dir("/"); let _ = fs::remove_dir_all(&base); return;
        }
        // rewind through the authority's hook: only an id of a checkpoint of that session is honoured; anything else (a path climbing
        // out of the store to planted metadata, an absolute path, an alias of the id) is refused and changes nothing
        if cover == 3 && naming == 0 && !sab {
            let planted = other.join("planted"); let _ = fs::create_dir_all(planted.join("files"));
            fs::write(planted.join("files/a.txt"), "PLANTED").unwrap();
            fs::write(planted.join("checkpoint.json"), "evil\ns\nl\n0\na.txt\ttrue\th7\n").unwrap();
            let hook = WorkspaceCheckpointHook { workspace: Workspace { root: root.clone(), checkpoints_dir: root.join(".rip").join("checkpoints") } };
            let rel_out = format!("../../../../{}/planted", other.file_name().unwrap().to_string_lossy());
            for id in [rel_out.clone(), planted.to_string_lossy().to_string(), "".to_string(), ".".to_string(), format!("./{}", cp.id), format!("{}/", cp.id), format!("x/../{}", cp.id), "missing".to_string()] {
                let before = snapshot(&root);
                let r = hook.rewind("s", &id);
                if r.is_ok() || snapshot(&root) != before {
                    println!("WITNESS {{\"function\": \"WorkspaceCheckpointHook::rewind\", \"checkpoint_id_argument\": {:?}, \"existing_checkpoint_id\": {:?}, \"accepted\": {}, \"workspace_changed\": {}, \"problem\": \"a checkpoint id that is not the id of a checkpoint of the session was honoured (metadata and files read from outside the checkpoint store)\"}}", id, cp.id, r.is_ok(), snapshot(&root) != before);
                    let _ = std::env::set_current_dir("/"); let _ = fs::remove_dir_all(&base); return;
                }
            }
            if hook.rewind("s", &cp.id).is_err() { println!("WITNESS {{\"function\": \"WorkspaceCheckpointHook::rewind\", \"checkpoint_id_argument\": {:?}, \"problem\": \"the id of an existing checkpoint was refused\"}}", cp.id); let _ = std::env::set_current_dir("/"); let _ = fs::remove_dir_all(&base); return; }
        }
        // a refused request leaves nothing behind in the checkpoint store
        let n0 = store_entries(&root);
        let refused = ws.create_checkpoint("s2", "l", &[PathBuf::from("/etc/hostname")]);
        if refused.is_ok() || store_entries(&root) != n0 {
            println!("WITNESS {{\"function\": \"Workspace::create_checkpoint\", \"requested\": [\"/etc/hostname\"], \"accepted\": {}, \"store_entries_before\": {}, \"store_entries_after\": {}, \"problem\": \"a path outside the workspace was accepted or its refusal left entries in the checkpoint store\"}}", refused.is_ok(), n0, store_entries(&root));
            let _ = std::env::set_current_dir("/"); let _ = fs::remove_dir_all(&base); return;
        }
        let _ = std::env::set_current_dir("/");
        let _ = fs::remove_dir_all(&root); let _ = fs::remove_dir_all(&other);
    } } } } } }
    let _ = fs::remove_dir_all(&base);
}
