//@@ unit c14_checkpoint properties=C14,C13,C12 bounded=checkpoint.rewind_restores_exactly_the_checkpointed_files_failed_rewind_leaves_workspace_unchanged_refusal_leaves_no_trace
#![allow(unused_imports, dead_code, unused_variables, unused_mut)]
use vstd::prelude::*;
use vstd::std_specs::iter::IteratorSpec;

//@@ include prelude/path_model.rs

verus! {

pub mod io {
    use vstd::prelude::*;
    verus! {
    pub struct Error { pub filler: u8 }
    pub enum ErrorKind { NotFound, InvalidInput, InvalidData, Other }
    impl Error {
        #[verifier::external_body] pub fn new<E>(kind: ErrorKind, e: E) -> Error { unimplemented!() }
    }
    pub type Result<T> = std::result::Result<T, Error>;
    } // verus!
}

// ---- effect constraints (DESIGN §3.2): the file system may only be touched at absolute paths that lie
// lexically inside the workspace root; writes of a checkpoint only inside the checkpoint store ---------
pub uninterp spec fn ws_root() -> Path;
pub uninterp spec fn store_dir() -> Path;
pub open spec fn fs_ok(p: Path) -> bool { is_abs(p) && within(p, ws_root()) }
pub open spec fn store_ok(p: Path) -> bool { is_abs(p) && within(p, store_dir()) && within(p, ws_root()) }
// timeless facts about what was captured
pub uninterp spec fn read_file(p: Path, bytes: Seq<u8>) -> bool;      // `bytes` were read from p
pub uninterp spec fn wrote_file(p: Path, bytes: Seq<u8>) -> bool;     // `bytes` were written to p

impl Path {
    #[verifier::external_body]
    pub fn exists(&self) -> (r: bool)
        requires fs_ok(*self),                                          // [fs.exists.requires_absolute_path_inside_root]
    { unimplemented!() }
    #[verifier::external_body]
    pub fn parent(&self) -> (r: Option<&Path>)
        ensures r matches Some(q) ==> (is_abs(*self) ==> is_abs(*q)) && comps(*self).len() > 0 && comps(*q) == comps(*self).drop_last()
            // derived clause (lemma_within_parent proves it from the equation above)
            && forall|base: Path| (#[trigger] within(*self, base) && comps(*self).len() > comps(base).len()) ==> within(*q, base),
    { unimplemented!() }
    #[verifier::external_body]
    pub fn to_string_lossy(&self) -> (r: LossyStr) ensures r.of() == *self { unimplemented!() }
}
pub struct LossyStr { pub filler: u8 }
impl LossyStr {
    pub uninterp spec fn of(&self) -> Path;
    // the recorded entry names the relative path it was derived from
    #[verifier::external_body]
    pub fn to_string(&self) -> (s: String) ensures path_of_str(s@) == self.of() { unimplemented!() }
}
pub mod fs {
    use super::*;
    verus! {
    #[verifier::external_body]
    pub fn create_dir_all<P: AsPath>(p: P) -> io::Result<()>
        requires store_ok(p.path_spec()),                               // [fs.create_dir_all.requires_path_inside_checkpoint_store]
    { unimplemented!() }
    #[verifier::external_body]
    pub fn read<P: AsPath>(p: P) -> (r: io::Result<Vec<u8>>)
        requires fs_ok(p.path_spec()),                                  // [fs.read.requires_absolute_path_inside_root]
        ensures r matches Ok(b) ==> read_file(p.path_spec(), b@),
    { unimplemented!() }
    #[verifier::external_body]
    pub fn write<P: AsPath, B: AsBytes>(p: P, b: B) -> (r: io::Result<()>)
        requires store_ok(p.path_spec()),                               // [fs.write.requires_path_inside_checkpoint_store]
        ensures r is Ok ==> wrote_file(p.path_spec(), b.bytes_spec()),
    { unimplemented!() }
    } // verus!
}
pub trait AsBytes: Sized { spec fn bytes_spec(self) -> Seq<u8>; }
impl<'a> AsBytes for &'a Vec<u8> { open spec fn bytes_spec(self) -> Seq<u8> { self@ } }
impl AsBytes for Vec<u8> { open spec fn bytes_spec(self) -> Seq<u8> { self@ } }
impl<'a> AsPath for &'a &'a Path { open spec fn path_spec(self) -> Path { **self } }

pub struct Uuid { pub filler: u8 }
impl Uuid {
    #[verifier::external_body] pub fn new_v4() -> Uuid { unimplemented!() }
    // a uuid string is one normal path component
    #[verifier::external_body] pub fn to_string(&self) -> (s: String) ensures single_normal(path_of_str(s@)) { unimplemented!() }
}
pub open spec fn single_normal(p: Path) -> bool { !is_abs(p) && comps(p).len() == 1 && comps(p)[0] is Normal }
// the two literal names used inside a checkpoint directory are plain names (trusted)
#[verifier::external_body]
pub proof fn axiom_plain_literals()
    ensures single_normal(path_of_str("files"@)), single_normal(path_of_str("checkpoint.json"@)),
{}
pub proof fn lemma_single_normal_clean(p: Path)
    requires single_normal(p),
    ensures !is_abs(p), clean(comps(p)), forall|i: int| 0 <= i < comps(p).len() ==> !(#[trigger] comps(p)[i] is CurDir),
{}
pub proof fn lemma_within_refl(p: Path)
    ensures within(p, p),
{
    assert(comps(p) =~= comps(p) + Seq::<Component>::empty());
    assert(clean(Seq::<Component>::empty()));
}
#[verifier::external_body] pub fn now_ms() -> u64 { unimplemented!() }
#[verifier::external_body] pub fn hash_bytes(b: &Vec<u8>) -> String { unimplemented!() }
pub mod serde_json {
    use super::*;
    verus! {
    pub struct Error { pub filler: u8 }
    #[verifier::external_body] pub fn to_vec_pretty<T>(v: &T) -> Result<Vec<u8>, Error> { unimplemented!() }
    } // verus!
}

//@@ item crates/rip-workspace/src/lib.rs struct CheckpointFile dropderive=Clone
//@@ item crates/rip-workspace/src/lib.rs struct Checkpoint dropderive=Clone
//@@ item crates/rip-workspace/src/lib.rs struct Workspace

impl Workspace {
    // representation invariant established by Workspace::new: absolute root, store = root/.rip/checkpoints
    pub open spec fn wf(&self) -> bool {
        &&& self.root == ws_root() && self.checkpoints_dir == store_dir()
        &&& is_abs(self.root) && is_abs(self.checkpoints_dir) && comps(self.root).len() > 0
        &&& within(self.checkpoints_dir, self.root)
    }

    // contract of to_relative as proved in unit c13_resolvers
    #[verifier::external_body]
    pub fn to_relative(&self, path: &Path) -> (ret: io::Result<Path>)
        ensures ret matches Ok(rel) ==> !is_abs(rel) && clean(comps(rel)),
    { unimplemented!() }

    //@@ fn crates/rip-workspace/src/lib.rs Workspace::create_checkpoint
    //@@ sig
        requires
            self.wf(),
            single_normal(path_of_str(session_id@)),        // session ids are generated by the authority (uuid): one normal component
        ensures
            ret matches Ok(cp) ==> cp.files@.len() == files@.len(),                          // [create_checkpoint.one_entry_per_requested_file]
    //@@ entry
        proof {
            axiom_plain_literals();
            lemma_single_normal_clean(path_of_str(session_id@));
            lemma_single_normal_clean(path_of_str("files"@));
            lemma_single_normal_clean(path_of_str("checkpoint.json"@));
            lemma_within_refl(store_dir());
        }
    //@@ loop 0 iter=it0
        invariant
            self.wf(),
            rels@.len() == it0.index@,
            forall|k: int| 0 <= k < rels@.len() ==> !is_abs(#[trigger] rels@[k]) && clean(comps(rels@[k])),      // [create_checkpoint.loop.every_path_validated_before_the_store_is_touched]
    //@@ loop 1 iter=it1
        invariant
            self.wf(),
            it1.snapshot@.remaining().len() == rels@.len(),
            forall|k: int| 0 <= k < rels@.len() ==> *(#[trigger] it1.snapshot@.remaining()[k]) == rels@[k],
            forall|k: int| 0 <= k < rels@.len() ==> !is_abs(#[trigger] rels@[k]) && clean(comps(rels@[k])),
            rels@.len() == files@.len(),
            entries@.len() == it1.index@,
            store_ok(files_root), store_ok(checkpoint_root),
            comps(files_root).len() > comps(store_dir()).len(), comps(store_dir()).len() >= comps(ws_root()).len(),
    //@@ loopbody 1
        proof {
            assert(*rel == rels@[it1.index@]);
        }
    //@@ end
}

// ---- which files an apply_patch invocation can change (auto-checkpoint coverage) -------------------------
pub struct PatchHunk { pub before: Vec<String>, pub after: Vec<String> }
//@@ item crates/rip-workspace/src/patch.rs enum PatchOp dropderive=Clone,PartialEq,Eq
//@@ item crates/rip-workspace/src/patch.rs struct Patch dropderive=Clone,PartialEq,Eq
impl Clone for Path { fn clone(&self) -> (r: Self) ensures r == *self { Path { filler: self.filler } } }

// every path an operation can touch: its own path and, for a move, the destination
pub open spec fn op_touches(op: PatchOp, p: Path) -> bool {
    match op {
        PatchOp::AddFile { path, .. } => p == path,
        PatchOp::DeleteFile { path } => p == path,
        PatchOp::UpdateFile { path, moved_to, .. } => p == path || moved_to == Some(p),
    }
}
pub open spec fn named_by(ops: Seq<PatchOp>, n: int, p: Path) -> bool { exists|i: int| 0 <= i < n && #[trigger] op_touches(ops[i], p) }

impl Patch {
    //@@ fn crates/rip-workspace/src/patch.rs Patch::affected_paths
    //@@ sig
        ensures
            // covers every file the patch can change ...
            forall|i: int, p: Path| 0 <= i < self.ops@.len() && #[trigger] op_touches(self.ops@[i], p) ==> ret@.contains(p),        // [affected_paths.covers_every_op_path_and_move_target]
            // ... and nothing else
            forall|j: int| 0 <= j < ret@.len() ==> named_by(self.ops@, self.ops@.len() as int, #[trigger] ret@[j]),   // [affected_paths.only_paths_named_by_the_patch]
    //@@ loop 0 iter=it0
        invariant
            it0.snapshot@.remaining().len() == self.ops@.len(),
            forall|k: int| 0 <= k < self.ops@.len() ==> *(#[trigger] it0.snapshot@.remaining()[k]) == self.ops@[k],
            forall|i: int, p: Path| 0 <= i < it0.index@ && #[trigger] op_touches(self.ops@[i], p) ==> paths@.contains(p),
            forall|j: int| 0 <= j < paths@.len() ==> named_by(self.ops@, it0.index@, #[trigger] paths@[j]),
    //@@ loopbody 0
        let ghost before = paths@;
        proof { assert(*op == self.ops@[it0.index@]); }
    //@@ loopend 0
        proof {
            let cur = self.ops@[it0.index@];
            // everything pushed so far is still there, and this op's paths were pushed
            assert(forall|k: int| 0 <= k < before.len() ==> paths@[k] == before[k]);
            assert forall|i: int, p: Path| 0 <= i < it0.index@ + 1 && #[trigger] op_touches(self.ops@[i], p) implies paths@.contains(p) by {
                if i < it0.index@ {
                    assert(before.contains(p));
                    let k = choose|k: int| 0 <= k < before.len() && before[k] == p;
                    assert(paths@[k] == p);
                } else {
                    assert(paths@.len() > before.len());
                    assert(paths@[before.len() as int] == p || (paths@.len() > before.len() + 1 && paths@[before.len() as int + 1] == p));
                }
            }
            assert forall|j: int| 0 <= j < paths@.len() implies named_by(self.ops@, it0.index@ + 1, #[trigger] paths@[j]) by {
                if j < before.len() {
                    assert(named_by(self.ops@, it0.index@, before[j]));
                    let i = choose|i: int| 0 <= i < it0.index@ && #[trigger] op_touches(self.ops@[i], before[j]);
                    assert(op_touches(self.ops@[i], paths@[j]));
                } else {
                    assert(op_touches(cur, paths@[j]));
                }
            }
        }
    //@@ end
}

} // verus!
fn main() {}
