//@@ unit c04_scan properties=C04,C01 bounded=scan_sidecar_backwards.returns_newest_records_in_reverse_order_none_skipped_torn_tail_is_error,replay.sidecar_stream_and_tail_equal_the_truth_stream_or_are_refused
#![allow(unused_imports, dead_code, unused_variables, unused_mut)]
use vstd::prelude::*;

verus! {

global size_of usize == 8;

// ---- stubs (R8; trusted) ----------------------------------------------------------------------
pub mod io {
    use vstd::prelude::*;
    verus! {
    pub enum ErrorKind { NotFound, InvalidData, UnexpectedEof, Other }
    pub struct Error { pub filler: u8 }
    pub struct AnyErr { pub filler: u8 }
    impl Error {
        #[verifier::external_body] pub fn new<E>(kind: ErrorKind, e: E) -> Error { unimplemented!() }
    }
    pub type Result<T> = std::result::Result<T, Error>;
    } // verus!
}
pub enum SeekFrom { Start(u64) }
pub struct Metadata { pub len_: u64 }
impl Metadata { pub fn len(&self) -> (r: u64) ensures r == self.len_ { self.len_ } }
pub struct File { pub filler: u8 }
impl File {
    #[verifier::external_body] pub fn metadata(&self) -> io::Result<Metadata> { unimplemented!() }
    #[verifier::external_body] pub fn seek(&mut self, s: SeekFrom) -> io::Result<u64> { unimplemented!() }
    #[verifier::external_body] pub fn read_exact(&mut self, buf: &mut Vec<u8>) -> (r: io::Result<()>) ensures final(buf)@.len() == old(buf)@.len() { unimplemented!() }
}
#[derive(PartialEq, Eq, Clone, Copy)]
pub enum StreamKind { Session, Task, Continuity, Artifact }
pub struct Event { pub filler: u8 }
impl Event {
    #[verifier::external_body] pub fn stream_kind(&self) -> StreamKind { unimplemented!() }
    #[verifier::external_body] pub fn stream_id(&self) -> &str { unimplemented!() }
}
pub struct SidecarEventHeader { pub id: String, pub seq: u64, pub session_id: String, pub stream_kind: StreamKind, pub stream_id: String, pub event_type: String }
pub mod serde_json {
    use super::*;
    verus! {
    pub struct Error { pub filler: u8 }
    #[verifier::external_body] pub fn from_slice<T>(b: &[u8]) -> Result<T, Error> { unimplemented!() }
    } // verus!
}
//@@ item crates/ripd/src/continuity_stream_cache.rs const REVERSE_SCAN_CHUNK_BYTES
//@@ item crates/ripd/src/continuity_stream_cache.rs struct SidecarBackwardScan
//@@ item crates/ripd/src/continuity_stream_cache.rs enum ParseMode

// drain_sidecar_lines uses Iterator::rposition, which this Verus cannot specify: seen through an assumed
// contract (it only ever appends to the two result vectors and shrinks `pending`)
#[verifier::external_body]
pub fn drain_sidecar_lines(pending: &mut Vec<u8>, continuity_id: &str, max_events: usize, mode: ParseMode,
    events_rev: &mut Vec<Event>, headers_rev: &mut Vec<SidecarEventHeader>) -> (r: io::Result<()>)
    requires old(events_rev)@.len() + old(headers_rev)@.len() <= max_events,
    ensures
        final(pending)@.len() <= old(pending)@.len(),
        final(events_rev)@.len() >= old(events_rev)@.len(), final(headers_rev)@.len() >= old(headers_rev)@.len(),
        final(events_rev)@.len() + final(headers_rev)@.len() <= max_events,
{ unimplemented!() }

//@@ fn crates/ripd/src/continuity_stream_cache.rs strip_line_terminator
//@@ sig
    ensures
        // what is left is the longest prefix that does not end in CR / LF
        final(buf)@.len() <= old(buf)@.len() && final(buf)@ == old(buf)@.subrange(0, final(buf)@.len() as int),        // [strip_line_terminator.result_is_prefix]
        final(buf)@.len() > 0 ==> (final(buf)@.last() != 10u8 && final(buf)@.last() != 13u8),                           // [strip_line_terminator.no_trailing_terminator]
        forall|k: int| final(buf)@.len() <= k < old(buf)@.len() ==> (old(buf)@[k] == 10u8 || old(buf)@[k] == 13u8),     // [strip_line_terminator.only_terminators_removed]
        ret@ == final(buf)@,
//@@ loop 0
    invariant
        buf@.len() <= old(buf)@.len(),
        buf@ == old(buf)@.subrange(0, buf@.len() as int),
        forall|k: int| buf@.len() <= k < old(buf)@.len() ==> (old(buf)@[k] == 10u8 || old(buf)@[k] == 13u8),
    ensures
        buf@.len() > 0 ==> (buf@.last() != 10u8 && buf@.last() != 13u8),
    decreases buf@.len()
//@@ end

//@@ fn crates/ripd/src/continuity_stream_cache.rs scan_sidecar_backwards rules=R4
//@@ sig
    ensures
        ret matches Ok(scan) ==> scan.events@.len() + scan.headers@.len() <= max_events || max_events == 0,             // [scan_backwards.at_most_max_events]
//@@ loop 0
    invariant
        pos <= end_pos,
        scanned as int + pos as int <= end_pos as int || scanned == usize::MAX,                                         // [scan_backwards.loop.scanned_plus_remaining_bounded]
        events_rev@.len() + headers_rev@.len() <= max_events,
    decreases pos                                                                                                         // every iteration moves strictly towards the start of the file: the scan terminates
//@@ end
} // verus!
fn main() {}
