// Replay enumerator for the backwards sidecar scanner: the real function text (R1 only) runs over an in-memory
// file; records are "e<seq>" lines; a record that does not parse is "torn".
use std::io::{self, SeekFrom};
pub struct Metadata { n: u64 }
impl Metadata { pub fn len(&self) -> u64 { self.n } }
pub struct File { data: Vec<u8>, pos: u64 }
thread_local! { static SIDECAR: std::cell::RefCell<Option<Vec<u8>>> = std::cell::RefCell::new(None); }
// the sidecar's path: a stand-in whose existence is that of the in-memory sidecar
#[derive(Clone, Debug)] pub struct PathBuf(pub String);
pub type Path = PathBuf;
impl PathBuf { pub fn exists(&self) -> bool { SIDECAR.with(|s| s.borrow().is_some()) } pub fn from(s: &str) -> PathBuf { PathBuf(s.to_string()) } }
pub struct BufReader { data: Vec<u8> }
impl BufReader { pub fn new(f: File) -> Self { BufReader { data: f.data } }
    pub fn lines(self) -> impl Iterator<Item = io::Result<String>> { let text = String::from_utf8_lossy(&self.data).into_owned(); let mut v: Vec<io::Result<String>> = text.split('\n').map(|l| Ok(l.strip_suffix('\r').unwrap_or(l).to_string())).collect(); if text.ends_with('\n') || text.is_empty() { v.pop(); } v.into_iter() } }
impl File {
    pub fn open(_p: &PathBuf) -> io::Result<File> { SIDECAR.with(|s| s.borrow().clone()).map(|data| File { data, pos: 0 }).ok_or_else(|| io::Error::new(io::ErrorKind::NotFound, "absent")) }
    pub fn metadata(&self) -> io::Result<Metadata> { Ok(Metadata { n: self.data.len() as u64 }) }
    pub fn seek(&mut self, s: SeekFrom) -> io::Result<u64> { if let SeekFrom::Start(p) = s { self.pos = p; } Ok(self.pos) }
    pub fn read_exact(&mut self, buf: &mut [u8]) -> io::Result<()> {
        let a = self.pos as usize; let b = a + buf.len();
        if b > self.data.len() { return Err(io::Error::new(io::ErrorKind::UnexpectedEof, "eof")); }
        buf.copy_from_slice(&self.data[a..b]); self.pos = b as u64; Ok(())
    }
}
#[derive(PartialEq, Eq, Clone, Copy, Debug)]
pub enum StreamKind { Session, Task, Continuity, Artifact }
#[derive(Debug, Clone)]
pub struct Event { pub seq: u64 }
impl Event { pub fn stream_kind(&self) -> StreamKind { StreamKind::Continuity } pub fn stream_id(&self) -> &str { "c" } }
#[derive(Debug, Clone)]
pub struct SidecarEventHeader { pub id: String, pub seq: u64, pub session_id: String, pub stream_kind: StreamKind, pub stream_id: String, pub event_type: String }
pub trait Parse: Sized { fn parse(b: &[u8]) -> Option<Self>; }
fn parse_seq(b: &[u8]) -> Option<u64> { let s = std::str::from_utf8(b).ok()?; let s = s.strip_prefix('e')?; let t = s.trim_end_matches('x'); if t.is_empty() { return None; } t.parse().ok() }
impl Parse for Event { fn parse(b: &[u8]) -> Option<Self> { parse_seq(b).map(|seq| Event { seq }) } }
impl Parse for SidecarEventHeader { fn parse(b: &[u8]) -> Option<Self> { parse_seq(b).map(|seq| SidecarEventHeader { id: String::new(), seq, session_id: "c".into(), stream_kind: StreamKind::Continuity, stream_id: "c".into(), event_type: String::new() }) } }
pub mod serde_json { pub fn from_str<T: super::Parse>(s: &str) -> Result<T, String> { T::parse(s.as_bytes()).ok_or_else(|| "parse".to_string()) }
    pub fn from_slice<T: super::Parse>(b: &[u8]) -> Result<T, String> { T::parse(b).ok_or_else(|| "parse".to_string()) } }
//@@ item crates/ripd/src/continuity_stream_cache.rs const REVERSE_SCAN_CHUNK_BYTES
//@@ item crates/ripd/src/continuity_stream_cache.rs struct SidecarBackwardScan
//@@ item crates/ripd/src/continuity_stream_cache.rs enum ParseMode
//@@ fn crates/ripd/src/continuity_stream_cache.rs strip_line_terminator
//@@ end
//@@ fn crates/ripd/src/continuity_stream_cache.rs drain_sidecar_lines
//@@ end
//@@ fn crates/ripd/src/continuity_stream_cache.rs scan_sidecar_backwards
//@@ end
//@@ item crates/ripd/src/continuity_stream_cache.rs struct TailScan
// the checkpoint index (compaction_checkpoint_index.rs): one JSON entry per line; here "e<seq>" decodes to an entry with that seq
//@@ item crates/ripd/src/compaction_checkpoint_index.rs const COMPACTION_CHECKPOINT_INDEX_VERSION_V1
#[derive(Debug, Clone)]
pub struct CompactionCheckpointIndexEntryV1 { pub version: u32, pub seq: u64, pub to_seq: u64, pub checkpoint_id: String, pub cut_rule_id: String, pub summary_kind: String, pub summary_artifact_id: String }
impl Parse for CompactionCheckpointIndexEntryV1 { fn parse(b: &[u8]) -> Option<Self> { parse_seq(b).map(|seq| CompactionCheckpointIndexEntryV1 { version: 1, seq, to_seq: seq, checkpoint_id: String::new(), cut_rule_id: String::new(), summary_kind: String::new(), summary_artifact_id: String::new() }) } }
//@@ fn crates/ripd/src/compaction_checkpoint_index.rs load_index_v1
//@@ end
pub struct ContinuityStreamCache;
impl ContinuityStreamCache {
    fn path_for(&self, id: &str) -> PathBuf { PathBuf::from(id) }
    //@@ fn crates/ripd/src/continuity_stream_cache.rs ContinuityStreamCache::try_replay
    //@@ end
    //@@ fn crates/ripd/src/continuity_stream_cache.rs ContinuityStreamCache::scan_tail
    //@@ end
}
// whole-stream and tail answers from the sidecar: equal to the truth stream's, or refused (Err -> the caller replays the truth log)
fn replay_clauses() {
    // sidecar = any sequence of up to 4 records with seq in 0..4 (gaps, repeats, out of order, not starting at 0), blank lines, a torn record
    let toks = ["e0", "e1", "e2", "e3", "", "e"];
    for n in 0..=4usize { for code in 0..toks.len().pow(n as u32) {
        let mut c = code; let lines: Vec<&str> = (0..n).map(|_| { let t = toks[c % toks.len()]; c /= toks.len(); t }).collect();
        let mut data = Vec::new(); for l in &lines { data.extend_from_slice(l.as_bytes()); data.push(b'\n'); }
        SIDECAR.with(|s| *s.borrow_mut() = Some(data.clone()));
        let recs: Vec<u64> = lines.iter().filter_map(|l| parse_seq(l.as_bytes())).collect();
        let torn = lines.iter().any(|l| *l == "e");
        let cache = ContinuityStreamCache;
        match cache.try_replay("c") {
            Ok(Some(v)) => { let got: Vec<u64> = v.iter().map(|e| e.seq).collect(); let want: Vec<u64> = (0..got.len() as u64).collect();
                if got != want || got != recs || torn || got.is_empty() { println!("WITNESS {{\"function\": \"ContinuityStreamCache::try_replay\", \"sidecar_lines\": {:?}, \"returned_seqs\": {:?}, \"problem\": \"a sidecar that is not the whole stream 0,1,2,... was served as the thread's events instead of being refused\"}}", lines, got); std::process::exit(0); } }
            Ok(None) => { println!("WITNESS {{\"function\": \"ContinuityStreamCache::try_replay\", \"sidecar_lines\": {:?}, \"problem\": \"an existing sidecar was reported absent\"}}", lines); std::process::exit(0); }
            Err(_) => { let ok = !torn && !recs.is_empty() && recs == (0..recs.len() as u64).collect::<Vec<_>>();
                if ok { println!("WITNESS {{\"function\": \"ContinuityStreamCache::try_replay\", \"sidecar_lines\": {:?}, \"problem\": \"a complete, well-formed sidecar was refused\"}}", lines); std::process::exit(0); } }
        }
        // the checkpoint index is served only whole: every non-blank line decodes and the seqs do not go back; anything else is an error
        // (the caller rebuilds from the sidecar), never a shorter list
        match load_index_v1(&PathBuf::from("c")) {
            Ok(Some(v)) => { let got: Vec<u64> = v.iter().map(|e| e.seq).collect();
                if got != recs || torn || got.is_empty() || got.windows(2).any(|w| w[1] < w[0]) { println!("WITNESS {{\"function\": \"load_index_v1\", \"index_lines\": {:?}, \"returned_seqs\": {:?}, \"problem\": \"an index with a line that does not decode (or seqs going back) was served, with entries missing, instead of being refused\"}}", lines, got); std::process::exit(0); } }
            Ok(None) => { println!("WITNESS {{\"function\": \"load_index_v1\", \"index_lines\": {:?}, \"problem\": \"an existing index was reported absent\"}}", lines); std::process::exit(0); }
            Err(_) => { let ok = !torn && !recs.is_empty() && recs.windows(2).all(|w| w[1] >= w[0]);
                if ok { println!("WITNESS {{\"function\": \"load_index_v1\", \"index_lines\": {:?}, \"problem\": \"a complete, well-formed index was refused\"}}", lines); std::process::exit(0); } }
        }
        for max_events in [1usize, 2, 10] {
            match cache.scan_tail("c", max_events, 1 << 20) {
                Ok(Some(t)) => { let got: Vec<u64> = t.events.iter().map(|e| e.seq).collect();
                    let tail_want: Vec<u64> = recs[recs.len().saturating_sub(max_events)..].to_vec();
                    let contiguous = got.windows(2).all(|w| w[1] == w[0] + 1);
                    if !contiguous || got != tail_want || torn && got.len() < max_events.min(recs.len()) && false { println!("WITNESS {{\"function\": \"ContinuityStreamCache::scan_tail\", \"sidecar_lines\": {:?}, \"max_events\": {}, \"returned_seqs\": {:?}, \"problem\": \"the tail served from the sidecar is not the newest records in contiguous ascending seq order\"}}", lines, max_events, got); std::process::exit(0); } }
                Ok(None) => { println!("WITNESS {{\"function\": \"ContinuityStreamCache::scan_tail\", \"sidecar_lines\": {:?}, \"problem\": \"an existing sidecar was reported absent\"}}", lines); std::process::exit(0); }
                Err(_) => {}
            }
        }
    } }
    SIDECAR.with(|s| *s.borrow_mut() = None);
    let cache = ContinuityStreamCache;
    if !matches!(cache.try_replay("c"), Ok(None)) || !matches!(cache.scan_tail("c", 4, 64), Ok(None)) { println!("WITNESS {{\"function\": \"ContinuityStreamCache::try_replay\", \"problem\": \"an absent sidecar is not reported as absent\"}}"); std::process::exit(0); }
}

fn main() {
    let args: Vec<String> = std::env::args().collect();
    let label = args.get(1).cloned().unwrap_or_default();
    if label.starts_with("replay") || label.starts_with("try_replay") || label.starts_with("scan_tail") || label.starts_with("checkpoint_index") || label.is_empty() { replay_clauses(); if !label.is_empty() { return; } }
    if label.starts_with("strip_line_terminator") {
        let alpha = [b'a', b'\n', b'\r'];
        for n in 0..=5u32 { for code in 0..3usize.pow(n) {
            let mut c = code; let mut v = Vec::new(); for _ in 0..n { v.push(alpha[c % 3]); c /= 3; }
            let orig = v.clone();
            let out = strip_line_terminator(&mut v).to_vec();
            let mut want = orig.clone(); while matches!(want.last(), Some(b'\n') | Some(b'\r')) { want.pop(); }
            if out != want || v != want { println!("WITNESS {{\"function\": \"strip_line_terminator\", \"input\": {:?}, \"left\": {:?}, \"expected\": {:?}}}", orig, out, want); return; }
        } }
        return;
    }
    // sidecar contents: up to 4 records, each terminated by LF / CRLF; the last one possibly unterminated or torn; blank lines allowed;
    // one variant pads records so that the file spans several 8 KiB scan chunks
    for pad in [0usize, 5000] {
      for nrec in 0..=4usize {
        for termcode in 0..2usize.pow(nrec as u32) {
          for tail in 0..4usize {            // 0: terminated, 1: last record lacks its newline, 2: torn record appended, 3: blank line appended
            let mut data: Vec<u8> = Vec::new();
            let mut seqs: Vec<u64> = Vec::new();
            for i in 0..nrec {
                data.extend_from_slice(format!("e{}{}", i, "x".repeat(pad)).as_bytes()); seqs.push(i as u64);
                let last = i + 1 == nrec;
                if last && tail == 1 { break; }
                if (termcode >> i) & 1 == 1 { data.extend_from_slice(b"\r\n"); } else { data.push(b'\n'); }
            }
            if tail == 2 { data.extend_from_slice(b"e"); }   // torn: does not parse
            if tail == 3 { data.extend_from_slice(b"\n"); }
            if tail == 1 && nrec == 0 { continue; }
            for max_events in [1usize, 2, 3, 10] {
              for max_bytes in [4usize, 9, 64, 1 << 20] {
                for mode in [ParseMode::Event, ParseMode::Header] {
                    let mut f = File { data: data.clone(), pos: 0 };
                    let res = scan_sidecar_backwards(&mut f, "c", max_events, max_bytes, mode, None);
                    let mut problem: Option<String> = None;
                    match &res {
                        Ok(scan) => {
                            let got: Vec<u64> = match mode { ParseMode::Event => scan.events.iter().map(|e| e.seq).collect(), ParseMode::Header => scan.headers.iter().map(|h| h.seq).collect() };
                            let want_all: Vec<u64> = seqs.iter().rev().cloned().collect();
                            if got.len() > max_events { problem = Some("more records than max_events".into()); }
                            else if tail == 2 && max_bytes >= data.len() && !got.is_empty() && got[0] == *want_all.first().unwrap_or(&u64::MAX) && scan.complete == true && false { }
                            else if tail == 2 && max_bytes >= 2 { problem = Some("a torn last record was silently skipped (Ok) instead of an error that sends the caller to the truth log".into()); }
                            else if got != want_all[..got.len().min(want_all.len())] || got.len() > want_all.len() { problem = Some("returned records are not the newest records of the sidecar in reverse order (a record was skipped)".into()); }
                            else if scan.complete && got.len() != want_all.len() { problem = Some("scan claims to be complete but records are missing".into()); }
                        }
                        Err(_) => {
                            if tail != 2 && max_bytes >= 1 << 20 { problem = Some("well-formed sidecar rejected".into()); }
                        }
                    }
                    if let Some(p) = problem {
                        if label.contains("at_most_max_events") && !p.contains("max_events") { continue; }
                        if !label.contains("at_most_max_events") && !label.contains("returns_newest") { continue; }
                        println!("WITNESS {{\"function\": \"scan_sidecar_backwards\", \"sidecar_bytes\": {:?}, \"record_padding\": {}, \"max_events\": {}, \"max_bytes\": {}, \"mode\": \"{}\", \"result\": {:?}, \"problem\": \"{}\"}}",
                            String::from_utf8_lossy(&data).replace(&"x".repeat(pad.max(1)), if pad > 0 { "<pad>" } else { "x" }), pad, max_events, max_bytes, match mode { ParseMode::Event => "Event", ParseMode::Header => "Header" },
                            res.as_ref().map(|s| (s.events.iter().map(|e| e.seq).collect::<Vec<_>>(), s.headers.iter().map(|h| h.seq).collect::<Vec<_>>(), s.complete)).map_err(|e| e.to_string()), p);
                        return;
                    }
                }
              }
            }
          }
        }
      }
    }
}
