//@@ unit c02_handlers properties=C02 nodegrade forbid=^(append|append_[a-z_]+|create_continuity(_locked)?|ensure_default|branch|handoff|compaction_checkpoint_cumulative_v1|compaction_auto_v1|compaction_auto_schedule_v1|provider_cursor_rotate_v1|spawn_session|create_session|rebuild_truth|truncate|set_len|remove_file|write|write_all)$
// The HTTP handlers of the read-only thread capabilities (server.rs): cut points, compaction status, provider-cursor status, context-selection
// status.  "Status, cut-point ... invocations add nothing at all" (C02) at the API surface: the real text of each handler - axum extractor
// parameters and `impl IntoResponse` rewritten to plain types (R11) - reaches nothing but its one read capability of the store (whose own
// effect freedom is decided in c02_readonly / c09_cutpoints).  Every writer of the store and of the engine is forbidden here: a call of one,
// also through a callee the source gains later, fails `requires false`; any other new callee leaves the unit undecided.
#![allow(unused_imports, dead_code, unused_variables, unused_mut)]
use vstd::prelude::*;

verus! {
global size_of usize == 8;

pub struct Response { pub filler: u8 }
pub enum StatusCode { OK, BAD_REQUEST, NOT_FOUND, INTERNAL_SERVER_ERROR }
impl StatusCode { #[verifier::external_body] pub fn into_response(self) -> Response { unimplemented!() } }
#[verifier::external_body] pub fn ok_response<T>(body: T) -> Response { unimplemented!() }
#[verifier::external_body] pub fn vlower(s: &String) -> String { unimplemented!() }
#[verifier::external_body] pub fn vcontains(s: &String, pat: &str) -> bool { unimplemented!() }
pub struct CompactionCutPointsV1Request { pub filler: u8 }
pub struct CompactionCutPointsV1Response { pub filler: u8 }
pub struct CompactionStatusV1Request { pub filler: u8 }
pub struct CompactionStatusV1Response { pub filler: u8 }
pub struct ProviderCursorStatusV1Request { pub filler: u8 }
pub struct ProviderCursorStatusV1Response { pub filler: u8 }
pub struct ContextSelectionStatusV1Request { pub filler: u8 }
pub struct ContextSelectionStatusV1Response { pub filler: u8 }
// the store as a handler sees it: the four read capabilities (decided elsewhere); nothing else is known, so anything else the source may
// come to call is looked up in the repository and judged by the `forbid` pattern
pub struct ContinuityStore { pub filler: u8 }
impl ContinuityStore {
    #[verifier::external_body] pub fn compaction_cut_points_v1(&self, id: &str, req: CompactionCutPointsV1Request) -> Result<CompactionCutPointsV1Response, String> { unimplemented!() }
    #[verifier::external_body] pub fn compaction_status_v1(&self, id: &str, req: CompactionStatusV1Request) -> Result<CompactionStatusV1Response, String> { unimplemented!() }
    #[verifier::external_body] pub fn provider_cursor_status_v1(&self, id: &str, req: ProviderCursorStatusV1Request) -> Result<ProviderCursorStatusV1Response, String> { unimplemented!() }
    #[verifier::external_body] pub fn context_selection_status_v1(&self, id: &str, req: ContextSelectionStatusV1Request) -> Result<ContextSelectionStatusV1Response, String> { unimplemented!() }
}
pub struct SessionEngine { pub filler: u8 }
impl SessionEngine { #[verifier::external_body] pub fn continuities(&self) -> ContinuityStore { unimplemented!() } }
pub struct AppState { pub engine: SessionEngine }

//@@ fn crates/ripd/src/server.rs thread_compaction_cut_points rules=R3
//@@ include prelude/handler_rewrites.rs
//@@ rewrite Json(payload): Json<crate::CompactionCutPointsV1Request> ==>> payload: CompactionCutPointsV1Request
//@@ rewrite err_lower.contains("invalid_stride") ==>> vcontains(&err_lower, "invalid_stride")
//@@ sig
    ensures true,      // [readonly.cut_points_handler_reaches_only_its_read_capability]
//@@ end

//@@ fn crates/ripd/src/server.rs thread_compaction_status rules=R3
//@@ include prelude/handler_rewrites.rs
//@@ rewrite Json(payload): Json<crate::CompactionStatusV1Request> ==>> payload: CompactionStatusV1Request
//@@ rewrite err_lower.contains("invalid_stride") ==>> vcontains(&err_lower, "invalid_stride")
//@@ sig
    ensures true,      // [readonly.compaction_status_handler_reaches_only_its_read_capability]
//@@ end

//@@ fn crates/ripd/src/server.rs thread_provider_cursor_status rules=R3
//@@ include prelude/handler_rewrites.rs
//@@ rewrite Json(payload): Json<crate::ProviderCursorStatusV1Request> ==>> payload: ProviderCursorStatusV1Request
//@@ sig
    ensures true,      // [readonly.provider_cursor_status_handler_reaches_only_its_read_capability]
//@@ end

//@@ fn crates/ripd/src/server.rs thread_context_selection_status rules=R3
//@@ include prelude/handler_rewrites.rs
//@@ rewrite Json(payload): Json<crate::ContextSelectionStatusV1Request> ==>> payload: ContextSelectionStatusV1Request
//@@ sig
    ensures true,      // [readonly.context_selection_status_handler_reaches_only_its_read_capability]
//@@ end

} // verus!
fn main() {}
