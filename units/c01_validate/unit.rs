//@@ unit c01_validate properties=C01
// The replay-time validator of the event log (rip-log validate_event_order): a log is accepted only if, for EVERY stream, the frames of that
// stream carry the seqs 0,1,2,... in log order, without gap or duplicate.  The HashMap with a (kind, &str) key and the entry API is replaced
// by an opaque counter table with the same two operations (R11).
#![allow(unused_imports, dead_code, unused_variables, unused_mut)]
use vstd::prelude::*;

//@@ include prelude/kernel_model.rs

verus! {
global size_of usize == 8;

#[verifier::external_body] pub fn vfmt() -> String { unimplemented!() }        // R9
pub mod io {
    use vstd::prelude::*;
    verus! {
    pub enum ErrorKind { InvalidData, Other }
    pub struct Error { pub filler: u8 }
    impl Error { #[verifier::external_body] pub fn new<E>(kind: ErrorKind, e: E) -> Error { unimplemented!() } }
    pub type Result<T> = std::result::Result<T, Error>;
    } // verus!
}
#[derive(PartialEq, Eq, Clone, Copy, Structural)]
pub enum StreamKind { Session, Task, Continuity, Artifact }
pub type Key = (StreamKind, Seq<char>);
pub uninterp spec fn kind_of(e: Event) -> StreamKind;      // rip-kernel's Event::stream_kind
pub open spec fn key_of(e: Event) -> Key { (kind_of(e), e.session_id@) }
impl Event {
    #[verifier::external_body] pub fn stream_kind(&self) -> (r: StreamKind) ensures r == kind_of(*self) { unimplemented!() }
    #[verifier::external_body] pub fn stream_id(&self) -> (r: &str) ensures r@ == self.session_id@ { unimplemented!() }
}
// how many of the first n frames belong to stream k
pub open spec fn count(ev: Seq<Event>, k: Key, n: int) -> int
    decreases n
{ if n <= 0 { 0 } else { count(ev, k, n - 1) + (if key_of(ev[n - 1]) == k { 1int } else { 0int }) } }
// the property, per frame: a frame's seq is the number of earlier frames of its own stream
pub open spec fn numbered(ev: Seq<Event>, n: int) -> bool { forall|i: int| 0 <= i < n ==> (#[trigger] ev[i]).seq == count(ev, key_of(ev[i]), i) }

// the counter table: HashMap<(StreamKind, &str), u64> with `.entry(key).or_insert(0)` in the source
pub struct Expected { pub m: Map<Key, u64>, pub filler: u8 }
impl Expected {
    #[verifier::external_body] pub fn new() -> (r: Expected) ensures r.m == Map::<Key, u64>::empty() { unimplemented!() }
    #[verifier::external_body] pub fn get_or_zero(&self, kind: StreamKind, id: &str) -> (r: u64)
        ensures r == (if self.m.contains_key((kind, id@)) { self.m[(kind, id@)] } else { 0 }) { unimplemented!() }
    #[verifier::external_body] pub fn set(&mut self, kind: StreamKind, id: &str, v: u64)
        ensures final(self).m == old(self).m.insert((kind, id@), v) { unimplemented!() }
}
pub open spec fn table_counts(t: Expected, ev: Seq<Event>, n: int) -> bool {
    forall|k: Key| (#[trigger] t.m.contains_key(k) ==> t.m[k] == count(ev, k, n)) && (!t.m.contains_key(k) ==> count(ev, k, n) == 0)
}

//@@ fn crates/rip-log/src/lib.rs validate_event_order rules=R9 r7=0
//@@ rewrite let mut expected: HashMap<(StreamKind, &str), u64> = HashMap::new(); ==>> let mut expected: Expected = Expected::new();
//@@ rewrite let entry = expected .entry((event.stream_kind(), event.stream_id())) .or_insert(0); ==>> let entry_v: u64 = expected.get_or_zero(event.stream_kind(), event.stream_id()); let entry = &entry_v;
//@@ rewrite *entry += 1; ==>> expected.set(event.stream_kind(), event.stream_id(), entry_v + 1);
//@@ sig
    requires events@.len() < u64::MAX,
    ensures
        ret is Ok ==> numbered(events@, events@.len() as int),      // [validate.accepted_only_if_every_stream_is_numbered_0_1_2_in_log_order]
//@@ loop 0
    invariant __i0 <= __s0.len(), __s0@ == events@, events@.len() < u64::MAX,
        numbered(events@, __i0 as int), table_counts(expected, events@, __i0 as int),
        forall|k: Key| #[trigger] count(events@, k, __i0 as int) <= __i0,
    decreases __s0.len() - __i0
//@@ loopend 0
    proof { assert forall|k: Key| #[trigger] count(events@, k, __i0 as int) <= __i0 by { assert(count(events@, k, __i0 as int - 1) <= __i0 - 1); } }
//@@ end

} // verus!
fn main() {}
