// vx: label-insensitive
// Replay of the log validator: the REAL text of validate_event_order (R1 only) over every log of up to 5 frames drawn from two session
// streams and one task stream with seqs 0..3: accepted exactly when every stream is numbered 0,1,2,... in log order.
use std::collections::HashMap;
use std::io;
#[derive(Debug, Clone, Copy, PartialEq, Eq, Hash)]
pub enum StreamKind { Session, Task, Continuity, Artifact }
#[derive(Debug, Clone)]
pub struct Event { pub session_id: String, pub seq: u64, pub kind_: StreamKind }
impl Event { pub fn stream_kind(&self) -> StreamKind { self.kind_ } pub fn stream_id(&self) -> &str { &self.session_id } }
//@@ fn crates/rip-log/src/lib.rs validate_event_order
//@@ end
fn main() {
    let streams = [(StreamKind::Session, "a"), (StreamKind::Session, "b"), (StreamKind::Task, "a")];
    let alphabet: Vec<(usize, u64)> = (0..3).flat_map(|s| (0..4u64).map(move |q| (s, q))).collect();
    for n in 0..=5usize { for code in 0..alphabet.len().pow(n as u32) {
        let mut c = code; let mut log: Vec<Event> = Vec::new(); let mut desc = Vec::new();
        for _ in 0..n { let (s, q) = alphabet[c % alphabet.len()]; c /= alphabet.len(); log.push(Event { session_id: streams[s].1.to_string(), seq: q, kind_: streams[s].0 }); desc.push(format!("{:?}/{}#{}", streams[s].0, streams[s].1, q)); }
        let mut next = [0u64; 3]; let mut ok = true;
        for e in &log { let s = streams.iter().position(|x| x.0 == e.kind_ && x.1 == e.session_id).unwrap(); if e.seq != next[s] { ok = false; break; } next[s] += 1; }
        let got = validate_event_order(&log).is_ok();
        if got != ok {
            println!("WITNESS {{\"function\": \"validate_event_order\", \"log\": {:?}, \"accepted\": {}, \"every_stream_numbered_from_zero_without_gap\": {}}}", desc, got, ok);
            return;
        }
    } }
}
