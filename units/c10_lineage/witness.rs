// Replay enumerator for branch / handoff: the real function text (R1 only) runs against small executable
// stand-ins for the store's collaborators (in-memory log, counter map); parent streams are enumerated.
use std::cell::RefCell;
use std::collections::HashMap;
use std::sync::Mutex;
//@@ include prelude/kernel_model_plain.rs

pub mod io { pub type Error = String; pub type Result<T> = std::result::Result<T, String>; }
pub struct Uuid;
thread_local! { static CTR: RefCell<u64> = RefCell::new(0); }
impl Uuid { pub fn new_v4() -> Uuid { Uuid } }
impl std::fmt::Display for Uuid { fn fmt(&self, f: &mut std::fmt::Formatter<'_>) -> std::fmt::Result { let n = CTR.with(|c| { *c.borrow_mut() += 1; *c.borrow() }); write!(f, "uuid-{n}") } }
pub fn now_ms() -> u64 { 0 }
pub struct PathBuf;
pub fn workspace_key(_p: &PathBuf) -> String { "ws".to_string() }
pub struct EventLog { pub appended: RefCell<Vec<Event>> }
impl EventLog { pub fn append(&self, e: &Event) -> Result<(), String> { self.appended.borrow_mut().push(e.clone()); Ok(()) } }
pub struct ContinuityStreamCache;
impl ContinuityStreamCache { pub fn append_best_effort(&self, _e: &Event) {} }
pub struct Sender;
impl Sender { pub fn send(&self, _e: Event) -> Result<usize, ()> { Ok(0) } }
pub struct HandoffContextBundleV1;
impl HandoffContextBundleV1 { pub fn new_source_cut(_m: String, _t: String, _s: u64, _mid: Option<String>) -> Self { HandoffContextBundleV1 } }
pub mod handoff_context_bundle { pub fn write_bundle_v1(_root: &super::PathBuf, _b: &super::HandoffContextBundleV1) -> Result<String, String> { Ok("bundle-artifact".to_string()) } }
pub struct ContinuityStore {
    pub workspace_root: PathBuf, pub event_log: EventLog, pub stream_cache: ContinuityStreamCache, pub sender: Sender,
    pub next_seq: Mutex<HashMap<String, u64>>, pub parent: Vec<Event>,
}
impl ContinuityStore {
    pub fn replay_events(&self, _id: &str) -> io::Result<Vec<Event>> { Ok(self.parent.clone()) }
    pub fn create_continuity_locked(&self, next_seq: &mut HashMap<String, u64>, workspace: String, _id: Option<String>, title: Option<String>, _d: bool) -> Result<String, String> {
        let id = "child".to_string();
        if next_seq.contains_key(&id) { return Err("continuity already exists".into()); }
        self.event_log.append(&Event { id: "c0".into(), session_id: id.clone(), timestamp_ms: 0, seq: 0, kind: EventKind::ContinuityCreated { workspace, title } })?;
        next_seq.insert(id.clone(), 1);
        Ok(id)
    }
    //@@ fn crates/ripd/src/continuities.rs ContinuityStore::branch
    //@@ end
    //@@ fn crates/ripd/src/continuities.rs ContinuityStore::handoff
    //@@ end
}
mod crate_alias {}
use self as crate_root;

fn frame(seq: u64, code: usize) -> Event {
    // code: 0 other, 1 message a, 2 message b, 3 spawned(a), 4 ended(a), 5 spawned(b), 6 ended(b)
    let kind = match code {
        1 | 2 => EventKind::ContinuityMessageAppended { actor_id: "u".into(), origin: "o".into(), content: "c".into() },
        3 | 5 => EventKind::ContinuityRunSpawned { run_session_id: "s".into(), message_id: if code == 3 { "a".into() } else { "b".into() }, actor_id: None, origin: None },
        4 | 6 => EventKind::ContinuityRunEnded { run_session_id: "s".into(), message_id: if code == 4 { "a".into() } else { "b".into() }, reason: "r".into(), actor_id: None, origin: None },
        _ => EventKind::ContinuityContextCompiled { run_session_id: "s".into(), bundle_artifact_id: "x".into(), compiler_id: "c".into(), compiler_strategy: "s".into(), from_seq: 0, from_message_id: None, actor_id: "u".into(), origin: "o".into() },
    };
    let id = match code { 1 => "a".to_string(), 2 => "b".to_string(), _ => format!("f{seq}") };
    Event { id, session_id: "parent".into(), timestamp_ms: 0, seq, kind }
}
fn is_msg(e: &Event) -> bool { matches!(e.kind, EventKind::ContinuityMessageAppended { .. }) }
fn related(e: &Event, m: &str) -> bool {
    (is_msg(e) && e.id == m) || matches!(&e.kind, EventKind::ContinuityRunSpawned { message_id, .. } | EventKind::ContinuityRunEnded { message_id, .. } if message_id == m)
}

fn main() {
    let args: Vec<String> = std::env::args().collect();
    let label = args.get(1).cloned().unwrap_or_default();
    let func = args.get(2).cloned().unwrap_or_default();
    let handoff = func.contains("handoff");
    // parent streams: creation frame at seq 0 then up to 5 frames; message ids a / b appear at most once each
    for n in 0..=5usize {
        for code in 0..7usize.pow(n as u32) {
            let mut c = code; let mut codes = Vec::new();
            for _ in 0..n { codes.push(c % 7); c /= 7; }
            if codes.iter().filter(|x| **x == 1).count() > 1 || codes.iter().filter(|x| **x == 2).count() > 1 { continue; }
            // the source thread may itself be a branch: its second frame is then the lineage record of ITS source (naming a message that is
            // not a message of this thread)
            for is_branch in [false, true] {
            if is_branch && n > 3 { continue; }
            let mut parent = vec![Event { id: "c".into(), session_id: "parent".into(), timestamp_ms: 0, seq: 0, kind: EventKind::ContinuityCreated { workspace: "ws".into(), title: None } }];
            if is_branch { parent.push(Event { id: "lin".into(), session_id: "parent".into(), timestamp_ms: 0, seq: 1, kind: EventKind::ContinuityBranched { parent_thread_id: "grand".into(), parent_seq: 3, parent_message_id: Some("gm".into()), actor_id: "u".into(), origin: "o".into() } }); }
            let off = parent.len() as u64;
            for (i, k) in codes.iter().enumerate() { parent.push(frame(i as u64 + off, *k)); }
            let head = parent.last().unwrap().seq;
            let mut selectors: Vec<(Option<String>, Option<u64>)> = vec![(None, None), (Some("a".into()), None), (Some("b".into()), None), (Some("a".into()), Some(0)), (Some("c".into()), None)];
            for e in parent.iter().filter(|e| !is_msg(e)).take(2) { selectors.push((Some(e.id.clone()), None)); }
            for s in 0..=head + 1 { selectors.push((None, Some(s))); }
            // the summary a handoff is given: text, blank text (accepted by the entry check like any text), an artifact id, nothing
            let summaries: Vec<(Option<String>, Option<String>)> = if handoff && n <= 2 {
                vec![(Some("md".to_string()), None), (Some("  \n\t".to_string()), None), (Some(String::new()), None), (None, Some("art".to_string())), (None, None)]
            } else { vec![(Some("md".to_string()), None)] };
            for summary in summaries {
            for (from_mid, from_seq) in selectors.clone() {
                let store = ContinuityStore { workspace_root: PathBuf, event_log: EventLog { appended: RefCell::new(Vec::new()) }, stream_cache: ContinuityStreamCache,
                    sender: Sender, next_seq: Mutex::new(HashMap::new()), parent: parent.clone() };
                let res = if handoff {
                    store.handoff("parent", None, summary.clone(), from_mid.clone(), from_seq, ("u".to_string(), "o".to_string()))
                } else {
                    store.branch("parent", None, from_mid.clone(), from_seq, "u".to_string(), "o".to_string())
                };
                let written = store.event_log.appended.borrow().clone();
                let mut problem: Option<String> = None;
                match &res {
                    Err(_) => { if !written.is_empty() && from_mid.is_some() && from_seq.is_some() { problem = Some("both selectors given but frames were written".into()); } }
                    Ok(_) if handoff && summary.0.is_none() && summary.1.is_none() => { problem = Some("a handoff without any summary was accepted: its lineage frame cannot carry a resolvable summary".into()); }
                    Ok((child, cut, mid)) => {
                        if from_mid.is_some() && from_seq.is_some() { problem = Some("both selectors accepted".into()); }
                        if let (Some(m), None) = (&from_mid, from_seq) { if !parent.iter().any(|e| is_msg(e) && e.id == *m) {
                            problem = Some(format!("recorded cut at message id {m:?}, which names no message of the source thread")); } }
                        if problem.is_none() {
                        // expected cut / message id from the property statement
                        let (ecut, emid): (u64, Option<String>) = if let Some(s) = from_seq {
                            (s, parent.iter().rev().find(|e| is_msg(e) && e.seq <= s).map(|e| e.id.clone()))
                        } else if let Some(m) = &from_mid {
                            (parent.iter().filter(|e| related(e, m)).map(|e| e.seq).max().unwrap_or(0), Some(m.clone()))
                        } else { (head, parent.iter().rev().find(|e| is_msg(e)).map(|e| e.id.clone())) };
                        if *cut > head { problem = Some(format!("recorded cut {cut} beyond the source head {head}")); }
                        else if *cut != ecut || *mid != emid { problem = Some(format!("recorded cut ({cut}, {mid:?}) but the source thread determines ({ecut}, {emid:?})")); }
                        else if written.iter().any(|e| e.session_id != *child) { problem = Some("a frame was appended to a stream other than the new thread".into()); }
                        else if written.len() != 2 || written[0].seq != 0 || written[1].seq != 1
                            || !matches!(written[0].kind, EventKind::ContinuityCreated { .. })
                            || !(matches!(&written[1].kind, EventKind::ContinuityBranched { parent_seq, parent_message_id, .. } if *parent_seq == *cut && parent_message_id == mid)
                                 || matches!(&written[1].kind, EventKind::ContinuityHandoffCreated { from_seq: fs, from_message_id: fm, summary_artifact_id, .. } if *fs == *cut && fm == mid && summary_artifact_id.is_some())) {
                            problem = Some(format!("the new thread's first two frames are not creation + lineage record of the returned cut with a resolvable summary: wrote {} frame(s)", written.len()));
                        }
                        }
                    }
                }
                // report only the kind of problem the asked clause is about
                let problem = problem.filter(|p| {
                    if label.contains("both_selectors") { p.contains("both selectors") }
                    else if label.contains("child_starts") || label.contains("summary") { p.contains("frame") }
                    else if label.contains("cut") { p.contains("recorded cut") }
                    else { true }
                });
                if let Some(p) = problem {
                    println!("WITNESS {{\"function\": \"{}\", \"summary_markdown_and_artifact_id\": {:?}, \"parent_frames\": {:?}, \"from_message_id\": {:?}, \"from_seq\": {:?}, \"returned\": {:?}, \"problem\": {:?}}}",
                        if handoff { "ContinuityStore::handoff" } else { "ContinuityStore::branch" }, summary,
                        parent.iter().map(|e| format!("{}:{}", e.seq, match &e.kind { EventKind::ContinuityMessageAppended { .. } => format!("msg({})", e.id),
                            EventKind::ContinuityRunSpawned { message_id, .. } => format!("spawned({message_id})"), EventKind::ContinuityRunEnded { message_id, .. } => format!("ended({message_id})"),
                            EventKind::ContinuityCreated { .. } => "created".to_string(), _ => "other".to_string() })).collect::<Vec<_>>(),
                        from_mid, from_seq, res.as_ref().ok().map(|t| (t.1, t.2.clone())), p);
                    return;
                }
            }
            }
            }
        }
    }
}
