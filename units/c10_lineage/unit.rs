//@@ unit c10_lineage properties=C10,C01
#![allow(unused_imports, dead_code, unused_variables, unused_mut)]
use vstd::prelude::*;
use vstd::std_specs::iter::IteratorSpec;

//@@ include prelude/kernel_model.rs
//@@ include prelude/seq_discipline.rs
//@@ include prelude/strings.rs
//@@ include prelude/cont_store_stubs.rs

verus! {

#[verifier::external_body]
pub fn workspace_key(p: &PathBuf) -> String { unimplemented!() }
pub struct HandoffContextBundleV1 { pub filler: u8 }
impl HandoffContextBundleV1 {
    #[verifier::external_body]
    pub fn new_source_cut(markdown: String, from_thread_id: String, from_seq: u64, from_message_id: Option<String>) -> HandoffContextBundleV1 { unimplemented!() }
}
pub mod handoff_context_bundle {
    use super::*;
    verus! {
    #[verifier::external_body]
    pub fn write_bundle_v1(root: &PathBuf, b: &HandoffContextBundleV1) -> Result<String, String> { unimplemented!() }
    } // verus!
}

// ---- specification of the cut, from the property statement ------------------------------------
pub open spec fn is_msg(e: Event) -> bool { e.kind is ContinuityMessageAppended }
pub open spec fn ascending(p: Seq<Event>) -> bool { forall|i: int, j: int| 0 <= i < j < p.len() ==> (#[trigger] p[i]).seq < (#[trigger] p[j]).seq }
// index of the last message frame with seq <= s among p[..n], or -1
pub open spec fn last_msg_idx(p: Seq<Event>, n: int, s: u64) -> int
    decreases n
{
    if n <= 0 { -1 } else if is_msg(p[n - 1]) && p[n - 1].seq <= s { n - 1 } else { last_msg_idx(p, n - 1, s) }
}
pub open spec fn names_last_message_at_or_before(mid: Option<String>, p: Seq<Event>, s: u64) -> bool {
    let i = last_msg_idx(p, p.len() as int, s);
    if i >= 0 { mid matches Some(id) && id@ == p[i].id@ } else { mid is None }
}
// frames that belong to message m: the message frame itself and the run frames that name it
pub open spec fn related(e: Event, m: Seq<char>) -> bool {
    (is_msg(e) && e.id@ == m)
    || (e.kind matches EventKind::ContinuityRunSpawned { message_id, .. } && message_id@ == m)
    || (e.kind matches EventKind::ContinuityRunEnded { message_id, .. } && message_id@ == m)
}
pub open spec fn last_related_idx(p: Seq<Event>, n: int, m: Seq<char>) -> int
    decreases n
{
    if n <= 0 { -1 } else if related(p[n - 1], m) { n - 1 } else { last_related_idx(p, n - 1, m) }
}
pub proof fn lemma_last_related_bounds(p: Seq<Event>, n: int, m: Seq<char>)
    requires 0 <= n <= p.len(),
    ensures
        -1 <= last_related_idx(p, n, m) < n,
        last_related_idx(p, n, m) >= 0 ==> related(p[last_related_idx(p, n, m)], m),
    decreases n
{
    if n > 0 && !related(p[n - 1], m) { lemma_last_related_bounds(p, n - 1, m); }
}
pub proof fn lemma_last_msg_bounds(p: Seq<Event>, n: int, s: u64)
    requires 0 <= n <= p.len(),
    ensures
        -1 <= last_msg_idx(p, n, s) < n,
        last_msg_idx(p, n, s) >= 0 ==> (is_msg(p[last_msg_idx(p, n, s)]) && p[last_msg_idx(p, n, s)].seq <= s),
        forall|j: int| last_msg_idx(p, n, s) < j < n ==> !(is_msg(#[trigger] p[j]) && p[j].seq <= s),
    decreases n
{
    if n > 0 && !(is_msg(p[n - 1]) && p[n - 1].seq <= s) { lemma_last_msg_bounds(p, n - 1, s); }
}
// what the (hidden) reversed iterator view `rem` and the result of `.rev().find(msg at or before s).map(id)` satisfy
pub open spec fn rev_find_facts(rem: Seq<&Event>, p: Seq<Event>, s: u64, lm: Option<String>) -> bool {
    &&& rem.len() == p.len()
    &&& forall|k: int| 0 <= k < p.len() ==> *(#[trigger] rem[k]) == p[p.len() - 1 - k]
    &&& (lm is None ==> forall|k: int| 0 <= k < p.len() ==> !(is_msg(*(#[trigger] rem[k])) && rem[k].seq <= s))
    &&& (lm matches Some(id) ==> exists|i0: int| 0 <= i0 < p.len() && id@ == (#[trigger] rem[i0]).id@ && is_msg(*rem[i0]) && rem[i0].seq <= s
            && forall|k: int| 0 <= k < i0 ==> !(is_msg(*(#[trigger] rem[k])) && rem[k].seq <= s))
}
pub proof fn lemma_rev_find_names_last_message(rem: Seq<&Event>, p: Seq<Event>, s: u64, lm: Option<String>)
    requires rev_find_facts(rem, p, s, lm),
    ensures names_last_message_at_or_before(lm, p, s),
{
    let n = p.len() as int;
    lemma_last_msg_bounds(p, n, s);
    let i = last_msg_idx(p, n, s);
    if i >= 0 {
        let t = rem[n - 1 - i];
        assert(*t == p[i]);
        if lm is Some {
            let i0 = choose|i0: int| 0 <= i0 < p.len() && lm->Some_0@ == (#[trigger] rem[i0]).id@ && is_msg(*rem[i0]) && rem[i0].seq <= s
                && forall|k: int| 0 <= k < i0 ==> !(is_msg(*(#[trigger] rem[k])) && rem[k].seq <= s);
            assert(*rem[i0] == p[n - 1 - i0]);
            assert(n - 1 - i0 == i);
        }
    } else {
        if lm is Some {
            let i0 = choose|i0: int| 0 <= i0 < p.len() && lm->Some_0@ == (#[trigger] rem[i0]).id@ && is_msg(*rem[i0]) && rem[i0].seq <= s
                && forall|k: int| 0 <= k < i0 ==> !(is_msg(*(#[trigger] rem[k])) && rem[k].seq <= s);
            assert(*rem[i0] == p[n - 1 - i0]);
        }
    }
}
pub open spec fn has_message(p: Seq<Event>, n: int, m: Seq<char>) -> bool {
    exists|i: int| 0 <= i < n && is_msg(#[trigger] p[i]) && p[i].id@ == m
}

// the recorded cut (seq, message id) for each selector, over the source thread p as it was
pub open spec fn lineage_cut_ok(cut: u64, mid: Option<String>, p: Seq<Event>, from_seq: Option<u64>, from_mid: Option<String>) -> bool {
    &&& p.len() > 0
    &&& cut <= p[p.len() - 1].seq                                        // lies within the source thread
    &&& (from_seq is Some ==> (cut == from_seq->Some_0 && names_last_message_at_or_before(mid, p, cut)))
    &&& ((from_seq is None && from_mid is None) ==> (cut == p[p.len() - 1].seq && names_last_message_at_or_before(mid, p, cut)))
    &&& ((from_seq is None && from_mid is Some) ==> {
            let m = from_mid->Some_0@;
            &&& has_message(p, p.len() as int, m)                       // the requested message exists in the source
            &&& mid is Some && mid->Some_0@ == m
            &&& last_related_idx(p, p.len() as int, m) >= 0
            &&& cut == p[last_related_idx(p, p.len() as int, m)].seq    // ... together with the end of the run that answered it
        })
}

// timeless fact: p is the source thread as it was when replayed
pub uninterp spec fn replayed(stream: Seq<char>, p: Seq<Event>) -> bool;

impl ContinuityStore {
    // assumed: a validated replay returns the stream in strictly ascending seq order
    #[verifier::external_body]
    pub fn replay_events(&self, continuity_id: &str) -> (r: io::Result<Vec<Event>>)
        ensures r matches Ok(evs) ==> ascending(evs@) && replayed(continuity_id@, evs@),
    { unimplemented!() }

    // contract of create_continuity as proved in unit c01_cont: the creation frame is in the log, the guard it took is released again -
    // NOTHING is reserved for the caller afterwards (a caller that goes on to append a lineage frame must take the lock itself and
    // read the counter through it)
    #[verifier::external_body]
    pub fn create_continuity(&self, workspace: String, continuity_id: Option<String>, title: Option<String>, set_as_default: bool) -> (ret: Result<String, String>)
        ensures ret matches Ok(id) ==> appended(id@, 0),
    { unimplemented!() }

    // contract of create_continuity_locked as proved in unit c01_cont (callers see only the contract)
    #[verifier::external_body]
    pub fn create_continuity_locked(&self, next_seq: &mut SeqGuard, workspace: String, continuity_id: Option<String>, title: Option<String>, set_as_default: bool) -> (ret: Result<String, String>)
        requires continuity_id matches Some(id) ==> reserved(id@, 0), old(next_seq).held(),
        ensures
            final(next_seq).held(),
            ret matches Ok(id) ==> appended(id@, 0) && reserved(id@, 1),
            ret matches Ok(id) ==> !old(next_seq)@.contains_key(id@) && final(next_seq)@ == old(next_seq)@.insert(id@, 1),
            ret is Err ==> final(next_seq)@ == old(next_seq)@,
    { unimplemented!() }

    //@@ fn crates/ripd/src/continuities.rs ContinuityStore::branch rules=R9,R10
    //@@ rewrite self.stream_cache.append_best_effort(&event); => self.stream_cache.append_best_effort_locked(&next_seq, &event);
    //@@ rewrite? drop(next_seq); => vrelease(&mut next_seq);
    //@@ sig
        ensures
            (from_message_id is Some && from_seq is Some) ==> ret is Err,                                           // [branch.both_selectors_refused]
            // the new thread's first two frames are its creation (seq 0) and its lineage record (seq 1) carrying the returned cut
            ret matches Ok(t) ==> (appended(t.0@, 0) && lineage_frame(t.0@, 1, t.1, t.2)),                             // [branch.child_starts_with_creation_then_lineage]
            ret matches Ok(t) ==> exists|p: Seq<Event>| #![auto] replayed(parent_thread_id@, p) && lineage_cut_ok(t.1, t.2, p, from_seq, from_message_id),   // [branch.recorded_cut_names_last_message_or_requested_message_with_its_run]
    //@@ closure 1
        -> (r: u64) ensures r == event.seq
    //@@ closure 2
        -> (r: bool) ensures r == (event.seq <= from_seq && is_msg(**event))
    //@@ closure 3
        -> (r: String) ensures r@ == event.id@
    //@@ afterclosure 3
        proof {
            // name the hidden reversed iterator view, then conclude with the lemma
            assert(exists|rem: Seq<&Event>| #![trigger rem.len()] rem.len() == parent_events@.len() && rev_find_facts(rem, parent_events@, from_seq, last_message));
            let rem = choose|rem: Seq<&Event>| #![trigger rem.len()] rem.len() == parent_events@.len() && rev_find_facts(rem, parent_events@, from_seq, last_message);
            lemma_rev_find_names_last_message(rem, parent_events@, from_seq, last_message);
        }
    //@@ closure 4
        -> (r: bool) ensures r == is_msg(**event)
    //@@ closure 5
        -> (r: String) ensures r@ == event.id@
    //@@ afterclosure 5
        proof {
            assert(forall|k: int| 0 <= k < parent_events@.len() ==> (#[trigger] parent_events@[k]).seq <= head_seq);
            assert(exists|rem: Seq<&Event>| #![trigger rem.len()] rem.len() == parent_events@.len() && rev_find_facts(rem, parent_events@, head_seq, last_message));
            let rem = choose|rem: Seq<&Event>| #![trigger rem.len()] rem.len() == parent_events@.len() && rev_find_facts(rem, parent_events@, head_seq, last_message);
            lemma_rev_find_names_last_message(rem, parent_events@, head_seq, last_message);
        }
    //@@ afterloop 0
        proof { lemma_last_related_bounds(parent_events@, parent_events@.len() as int, message_id@); }
    //@@ entry
        broadcast use group_string_eq;
    //@@ loop 0 iter=it0
        invariant
            it0.snapshot@.remaining().len() == parent_events@.len(),
            forall|k: int| 0 <= k < parent_events@.len() ==> *(#[trigger] it0.snapshot@.remaining()[k]) == parent_events@[k],
            ascending(parent_events@),
            from_message_id matches Some(m) && m@ == message_id@,
            message_seq is Some == has_message(parent_events@, it0.index@, message_id@),
            message_seq is Some ==> max_related_seq is Some,
            max_related_seq is Some == (last_related_idx(parent_events@, it0.index@, message_id@) >= 0),
            max_related_seq matches Some(v) ==> v == parent_events@[last_related_idx(parent_events@, it0.index@, message_id@)].seq,   // [branch.loop.cut_is_last_frame_related_to_message]
    //@@ loopbody 0
        broadcast use group_string_eq;
        proof { lemma_last_related_bounds(parent_events@, it0.index@, message_id@); }
    //@@ end

    //@@ fn crates/ripd/src/continuities.rs ContinuityStore::handoff rules=R9,R10
    //@@ rewrite self.stream_cache.append_best_effort(&event); => self.stream_cache.append_best_effort_locked(&next_seq, &event);
    //@@ rewrite? drop(next_seq); => vrelease(&mut next_seq);
    //@@ sig
        ensures
            (from_message_id is Some && from_seq is Some) ==> ret is Err,                                           // [handoff.both_selectors_refused]
            // the new thread's first two frames are its creation (seq 0) and its lineage record (seq 1) carrying the returned cut
            ret matches Ok(t) ==> (appended(t.0@, 0) && lineage_frame(t.0@, 1, t.1, t.2) && handoff_has_summary(t.0@)),                             // [handoff.child_starts_with_creation_then_lineage_with_resolvable_summary]
            (summary.0 is None && summary.1 is None) ==> ret is Err,                                                   // [handoff.summary_required]
            ret matches Ok(t) ==> exists|p: Seq<Event>| #![auto] replayed(from_thread_id@, p) && lineage_cut_ok(t.1, t.2, p, from_seq, from_message_id),   // [handoff.recorded_cut_names_last_message_or_requested_message_with_its_run]
    //@@ closure 1
        -> (r: u64) ensures r == event.seq
    //@@ closure 2
        -> (r: bool) ensures r == (event.seq <= from_seq && is_msg(**event))
    //@@ closure 3
        -> (r: String) ensures r@ == event.id@
    //@@ afterclosure 3
        proof {
            // name the hidden reversed iterator view, then conclude with the lemma
            assert(exists|rem: Seq<&Event>| #![trigger rem.len()] rem.len() == from_events@.len() && rev_find_facts(rem, from_events@, from_seq, last_message));
            let rem = choose|rem: Seq<&Event>| #![trigger rem.len()] rem.len() == from_events@.len() && rev_find_facts(rem, from_events@, from_seq, last_message);
            lemma_rev_find_names_last_message(rem, from_events@, from_seq, last_message);
        }
    //@@ closure 4
        -> (r: bool) ensures r == is_msg(**event)
    //@@ closure 5
        -> (r: String) ensures r@ == event.id@
    //@@ afterclosure 5
        proof {
            assert(forall|k: int| 0 <= k < from_events@.len() ==> (#[trigger] from_events@[k]).seq <= head_seq);
            assert(exists|rem: Seq<&Event>| #![trigger rem.len()] rem.len() == from_events@.len() && rev_find_facts(rem, from_events@, head_seq, last_message));
            let rem = choose|rem: Seq<&Event>| #![trigger rem.len()] rem.len() == from_events@.len() && rev_find_facts(rem, from_events@, head_seq, last_message);
            lemma_rev_find_names_last_message(rem, from_events@, head_seq, last_message);
        }
    //@@ afterloop 0
        proof { lemma_last_related_bounds(from_events@, from_events@.len() as int, message_id@); }
    //@@ entry
        broadcast use group_string_eq;
    //@@ loop 0 iter=it0
        invariant
            it0.snapshot@.remaining().len() == from_events@.len(),
            forall|k: int| 0 <= k < from_events@.len() ==> *(#[trigger] it0.snapshot@.remaining()[k]) == from_events@[k],
            ascending(from_events@),
            from_message_id matches Some(m) && m@ == message_id@,
            message_seq is Some == has_message(from_events@, it0.index@, message_id@),
            message_seq is Some ==> max_related_seq is Some,
            max_related_seq is Some == (last_related_idx(from_events@, it0.index@, message_id@) >= 0),
            max_related_seq matches Some(v) ==> v == from_events@[last_related_idx(from_events@, it0.index@, message_id@)].seq,   // [handoff.loop.cut_is_last_frame_related_to_message]
    //@@ loopbody 0
        broadcast use group_string_eq;
        proof { lemma_last_related_bounds(from_events@, it0.index@, message_id@); }
    //@@ end
}

} // verus!
fn main() {}
