//@@ unit c17_truncate properties=C17
#![allow(unused_imports, dead_code, unused_variables, unused_mut)]
use vstd::prelude::*;

//@@ include prelude/utf8_model.rs


pub mod tools_builtins {
    use super::*;
    verus! {
    //@@ fn crates/rip-tools/src/builtins/mod.rs truncate_utf8 name=tools_builtins::truncate_utf8
    //@@ alias std::str::from_utf8 from_utf8
    //@@ alias String::from_utf8_lossy from_utf8_lossy
    //@@ sig
        ensures
            ret.2 <= bytes@.len() && ret.2 <= max_bytes,                                                  // [tools_builtins.truncate_utf8.used_within_limits]
            ret.0@ == lossy(bytes@.subrange(0, ret.2 as int)),                                            // [tools_builtins.truncate_utf8.text_decodes_the_used_prefix]
            !ret.1 ==> ret.2 == bytes@.len(),                                                             // [tools_builtins.truncate_utf8.untruncated_consumes_all]
            (bytes@.len() <= max_bytes && bytes@.len() > 0) ==> ret.2 > 0,                                // [tools_builtins.truncate_utf8.page_makes_progress]
            // paging: a page of well-formed text is cut on a character boundary and decoded strictly
            (page_ok(bytes@) && bytes@.len() <= max_bytes) ==> (valid(bytes@.subrange(0, ret.2 as int))
                && ret.0@ == dec(bytes@.subrange(0, ret.2 as int))
                && (ret.2 == bytes@.len() || incomplete(bytes@.subrange(ret.2 as int, bytes@.len() as int)))),   // [tools_builtins.truncate_utf8.page_ends_on_char_boundary]
            (bytes@.len() > max_bytes) ==> (ret.2 == 0 || valid(bytes@.subrange(0, ret.2 as int))),      // [tools_builtins.truncate_utf8.trimmed_prefix_is_well_formed]
    //@@ entry
        broadcast use axiom_valid_empty;
        proof { assert(bytes@.subrange(0, bytes@.len() as int) =~= bytes@); }
    //@@ loop 0
        invariant
            end <= max_bytes,
            max_bytes < bytes@.len(),
        decreases end
    //@@ end
    } // verus!
}

pub mod tasks_logs {
    use super::*;
    verus! {
    //@@ fn crates/ripd/src/tasks/logs.rs truncate_utf8 name=tasks_logs::truncate_utf8
    //@@ alias std::str::from_utf8 from_utf8
    //@@ alias String::from_utf8_lossy from_utf8_lossy
    //@@ sig
        ensures
            ret.2 <= bytes@.len() && ret.2 <= max_bytes,                                                  // [tasks_logs.truncate_utf8.used_within_limits]
            ret.0@ == lossy(bytes@.subrange(0, ret.2 as int)),                                            // [tasks_logs.truncate_utf8.text_decodes_the_used_prefix]
            !ret.1 ==> ret.2 == bytes@.len(),                                                             // [tasks_logs.truncate_utf8.untruncated_consumes_all]
            (bytes@.len() <= max_bytes && bytes@.len() > 0) ==> ret.2 > 0,                                // [tasks_logs.truncate_utf8.page_makes_progress]
            // paging: a page of well-formed text is cut on a character boundary and decoded strictly
            (page_ok(bytes@) && bytes@.len() <= max_bytes) ==> (valid(bytes@.subrange(0, ret.2 as int))
                && ret.0@ == dec(bytes@.subrange(0, ret.2 as int))
                && (ret.2 == bytes@.len() || incomplete(bytes@.subrange(ret.2 as int, bytes@.len() as int)))),   // [tasks_logs.truncate_utf8.page_ends_on_char_boundary]
            (bytes@.len() > max_bytes) ==> (ret.2 == 0 || valid(bytes@.subrange(0, ret.2 as int))),      // [tasks_logs.truncate_utf8.trimmed_prefix_is_well_formed]
    //@@ entry
        broadcast use axiom_valid_empty;
        proof { assert(bytes@.subrange(0, bytes@.len() as int) =~= bytes@); }
    //@@ loop 0
        invariant
            end <= max_bytes,
            max_bytes < bytes@.len(),
        decreases end
    //@@ end
    } // verus!
}

fn main() {}
