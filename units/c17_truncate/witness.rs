// Replay enumerator for truncate_utf8 (both copies): real function text against real std UTF-8.
mod tools_builtins {
    //@@ fn crates/rip-tools/src/builtins/mod.rs truncate_utf8 pub
    //@@ end
}
mod tasks_logs {
    //@@ fn crates/ripd/src/tasks/logs.rs truncate_utf8 pub
    //@@ end
}
fn texts(max_chars: usize) -> Vec<String> {
    let alpha = ["a", "é", "€", "😀"];
    let mut out = vec![String::new()];
    let mut frontier = vec![String::new()];
    for _ in 0..max_chars {
        let mut next = Vec::new();
        for s in &frontier { for a in alpha { let mut t = s.clone(); t.push_str(a); next.push(t); } }
        out.extend(next.iter().cloned());
        frontier = next;
    }
    out
}
fn main() {
    let args: Vec<String> = std::env::args().collect();
    let label = args.get(1).cloned().unwrap_or_default();
    let func = args.get(2).cloned().unwrap_or_default();
    let tools = label.starts_with("tools_builtins") || func.starts_with("tools_builtins");
    let f: fn(&[u8], usize) -> (String, bool, usize) = if tools { tools_builtins::truncate_utf8 } else { tasks_logs::truncate_utf8 };
    let name = if tools { "rip-tools builtins::truncate_utf8" } else { "ripd tasks::logs::truncate_utf8" };
    // (1) single calls: pages = prefixes of well-formed text (start on a boundary, end anywhere)
    for t in texts(4) {
        let all = t.as_bytes();
        for plen in 0..=all.len() {
            let page = &all[..plen];
            for max in 0..=plen + 2 {
                let (text, trunc, used) = f(page, max);
                let mut problem = None;
                if used > page.len() || used > max { problem = Some("used exceeds the limits"); }
                else if !trunc && used != page.len() { problem = Some("not flagged truncated although bytes were left"); }
                else if page.len() <= max && !page.is_empty() && used == 0 { problem = Some("no progress on a non-empty page"); }
                else if page.len() <= max && (std::str::from_utf8(page).is_ok() || page.iter().take_while(|_| true).count() > 0 && first_char_complete(page)) {
                    // page of well-formed text whose first character is complete: strict decoding of the used prefix
                    match std::str::from_utf8(&page[..used]) {
                        Ok(s) if s == text => {}
                        _ => problem = Some("page of well-formed text is not cut on a character boundary / not decoded strictly"),
                    }
                }
                if let Some(p) = problem {
                    if label.contains("page_ends_on_char_boundary") || !p.starts_with("page of") {
                        println!("WITNESS {{\"function\": \"{}\", \"bytes\": {:?}, \"max_bytes\": {}, \"returned_text\": {:?}, \"returned_truncated\": {}, \"returned_used\": {}, \"problem\": \"{}\"}}", name, page, max, text, trunc, used, p);
                        return;
                    }
                }
            }
        }
    }
    // (2) page-by-page reading reproduces the text exactly (pages of >= 4 bytes)
    for t in texts(4) {
        let all = t.as_bytes();
        for page_size in 4..=6usize {
            let mut off = 0; let mut acc = String::new(); let mut steps = 0;
            while off < all.len() && steps < 64 {
                let end = (off + page_size).min(all.len());
                let (text, _trunc, used) = f(&all[off..end], page_size);
                acc.push_str(&text); off += used.max(if used == 0 { 1 } else { 0 }); steps += 1;
            }
            if acc != t && label.contains("page_ends_on_char_boundary") {
                println!("WITNESS {{\"function\": \"{}\", \"stored_text\": {:?}, \"page_size\": {}, \"reassembled\": {:?}, \"problem\": \"reading page by page does not reproduce the stored text\"}}", name, t, page_size, acc);
                return;
            }
        }
    }
}
fn first_char_complete(page: &[u8]) -> bool {
    match std::str::from_utf8(page) { Ok(_) => true, Err(e) => e.valid_up_to() > 0 && e.error_len().is_none() }
}
