//@@ unit c04_status properties=C04 noverus bounded=status.terminates_and_equals_the_truth_log_in_every_cache_state
// This unit carries no Verus obligations: the four status capabilities (compaction_status_v1, provider_cursor_status_v1,
// provider_cursor_rotate_v1, context_selection_status_v1) are 100-300 line functions over HashMap entries, function-local structs,
// closures and serde_json values, outside what this Verus accepts.  Their C04 clause - every call terminates and returns exactly
// the answer determined by the truth log whatever the state of the rebuildable caches - is checked as a BOUNDED stand-in by
// units/c04_status/witness.rs: the real text of the four functions runs against the shared store scaffolding over every history
// of up to 5 (quick) / 6 (thorough) operations from {message, provider cursor for two keys, context-selection decision, auto
// compaction, auto.schedule, unrelated job frame} (at most two compaction runs), with caches absent / present and complete /
// present but every tail scan limited to the newest 1, 2 or 3 frames and reported incomplete (= a thread longer than every tail
// window).  A call that scans the tail more than 200 times is reported as non-terminating.  Never counted as proved.
fn main() {}
