//@@ unit c04_status properties=C04,C08 noverus bounded=status.terminates_and_equals_the_truth_log_in_every_cache_state
// This unit carries no Verus obligations: the four status capabilities (compaction_status_v1, provider_cursor_status_v1,
// provider_cursor_rotate_v1, context_selection_status_v1) are 100-300 line functions over HashMap entries, function-local structs,
// closures and serde_json values, outside what this Verus accepts.  Their C04 clause - every call terminates and returns exactly
// the answer determined by the truth log whatever the state of the rebuildable caches - is checked as a BOUNDED stand-in by
// units/c04_status/witness.rs: the real text of the four functions runs against the shared store scaffolding over every history
// of up to 5 (quick) / 6 (thorough) operations from {message, provider cursor for two keys, context-selection decision, auto
// compaction, auto.schedule, unrelated job frame} (at most two compaction runs), with caches absent / present and complete /
// present but every tail scan limited to the newest 1, 2 or 3 frames and reported incomplete (= a thread longer than every tail
// window).  A call that scans the tail more than 200 times is reported as non-terminating.  The same program checks the
// context a run is compiled from (also property C08: independent of cache state and read path): the real
// load_context_compile_input_recent_messages_v1 (observed through the cut point and the 16 messages the real select_recent_messages takes)
// on threads of 17 / 20 messages with three run-frame patterns, every anchor, messages+runs tail windows {whole, 1, 5, 16, 17, 18, 24, 40};
// and latest_compaction_checkpoint_for_compile_v1 / hierarchical_compaction_checkpoints_for_compile_v1 (levels 0..3, real cache-side
// halving selection) on threads of 9 / 12 messages with manual checkpoints at every subset of four cut points, both append orders, one
// cut point summarised twice, from_seq at the head, mid-thread, 2 and 0 - caches present vs absent.  Never counted as proved.
fn main() {}
