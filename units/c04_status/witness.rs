// vx: label-insensitive
// Bounded replay of the four status capabilities over a continuity (compaction status, provider-cursor status and rotation,
// context-selection status): the REAL text of each (R1 only) runs against the shared store scaffolding with (a) caches absent
// (truth-log paths), (b) caches present and complete, (c) caches present but the tail scan limited to a window of the newest
// 1 / 2 / 3 frames and reported incomplete (what a thread longer than every tail window looks like).  Every call must return
// (no more than 200 tail scans) and give the answer determined by the truth log, i.e. the same answer in all cache states.
//@@ include units/c09_pipeline/scaffold.rs
//@@ item crates/ripd/src/continuities.rs struct ContinuityMeta
//@@ item crates/ripd/src/continuities.rs struct CompactionStatusV1Request
//@@ item crates/ripd/src/continuities.rs struct CompactionStatusV1Response
//@@ item crates/ripd/src/continuities.rs struct CompactionStatusCheckpointV1
//@@ item crates/ripd/src/continuities.rs struct CompactionStatusScheduleDecisionV1
//@@ item crates/ripd/src/continuities.rs struct CompactionStatusJobOutcomeV1
//@@ item crates/ripd/src/continuities.rs struct ProviderCursorStatusV1Request
//@@ item crates/ripd/src/continuities.rs struct ProviderCursorStatusCursorV1
//@@ item crates/ripd/src/continuities.rs struct ProviderCursorStatusV1Response
//@@ item crates/ripd/src/continuities.rs struct ProviderCursorRotateV1Request
//@@ item crates/ripd/src/continuities.rs struct ProviderCursorRotateV1Response
//@@ item crates/ripd/src/continuities.rs struct ContextSelectionStatusV1Request
//@@ item crates/ripd/src/continuities.rs struct ContextSelectionStatusCheckpointV1
//@@ item crates/ripd/src/continuities.rs struct ContextSelectionStatusResetV1
//@@ item crates/ripd/src/continuities.rs struct ContextSelectionStatusDecisionV1
//@@ item crates/ripd/src/continuities.rs struct ContextSelectionStatusV1Response
//@@ item crates/ripd/src/continuities.rs struct ProviderCursorUpdatedPayload
//@@ item crates/ripd/src/continuities.rs struct ContextSelectionDecidedPayload
pub mod rip_kernel { pub use super::{ContextSelectionCompactionCheckpointV1, ContextSelectionResetV1}; }
//@@ fn crates/ripd/src/continuities.rs parse_compaction_job_created_checkpoints
//@@ end
//@@ item crates/ripd/src/continuities.rs struct ContextCompileInput
//@@ item crates/ripd/src/continuities.rs struct CompactionCheckpointForCompile
//@@ item crates/ripd/src/context_compiler.rs const RECENT_MESSAGES_V1_LIMIT
//@@ item crates/ripd/src/context_compiler.rs struct SelectedMessage
//@@ fn crates/ripd/src/context_compiler.rs select_recent_messages
//@@ end
//@@ fn crates/ripd/src/continuities.rs resolve_cutpoint_from_tail
//@@ end
//@@ fn crates/ripd/src/continuities.rs resolve_context_compile_cutpoint_full
//@@ end
impl ContinuityStore {
    pub fn get(&self, id: &str) -> Option<ContinuityMeta> { if self.event_log.frames.borrow().iter().any(|e| e.session_id == id) { Some(ContinuityMeta { continuity_id: id.to_string(), created_at_ms: 0, title: None, archived: false }) } else { None } }
    //@@ fn crates/ripd/src/continuities.rs ContinuityStore::append_provider_cursor_updated
    //@@ end
    //@@ fn crates/ripd/src/continuities.rs ContinuityStore::append_context_selection_decided
    //@@ end
    //@@ fn crates/ripd/src/continuities.rs ContinuityStore::append_run_spawned
    //@@ end
    //@@ fn crates/ripd/src/continuities.rs ContinuityStore::append_run_ended
    //@@ end
    //@@ fn crates/ripd/src/continuities.rs ContinuityStore::compaction_status_v1
    //@@ end
    //@@ fn crates/ripd/src/continuities.rs ContinuityStore::provider_cursor_status_v1
    //@@ end
    //@@ fn crates/ripd/src/continuities.rs ContinuityStore::provider_cursor_rotate_v1
    //@@ end
    //@@ fn crates/ripd/src/continuities.rs ContinuityStore::context_selection_status_v1
    //@@ end
    //@@ fn crates/ripd/src/continuities.rs ContinuityStore::load_context_compile_input_recent_messages_v1
    //@@ end
    //@@ fn crates/ripd/src/continuities.rs ContinuityStore::latest_compaction_checkpoint_for_compile_v1
    //@@ end
    //@@ fn crates/ripd/src/continuities.rs ContinuityStore::hierarchical_compaction_checkpoints_for_compile_v1
    //@@ end
}
// the context a run is compiled from, observed through what the compiler takes from it: the cut point and the selected messages
fn compile_view(st: &ContinuityStore, anchor: &str) -> String {
    reset_scans();
    match st.load_context_compile_input_recent_messages_v1(T, anchor) {
        Err(e) => format!("Err({e})"),
        Ok(inp) => format!("from_seq={} from_message_id={:?} selected={:?}", inp.from_seq, inp.from_message_id, select_recent_messages(&inp.continuity_events, inp.from_seq, RECENT_MESSAGES_V1_LIMIT).iter().map(|m| m.seq).collect::<Vec<_>>()),
    }
}
fn checkpoint_views(st: &ContinuityStore, from_seq: u64) -> String {
    reset_scans();
    let latest = st.latest_compaction_checkpoint_for_compile_v1(T, from_seq).map(|o| o.map(|c| (c.checkpoint_id, c.to_seq)));
    let hier: Vec<_> = (0..=3usize).map(|lv| st.hierarchical_compaction_checkpoints_for_compile_v1(T, from_seq, lv).map(|v| v.into_iter().map(|c| (c.checkpoint_id, c.to_seq)).collect::<Vec<_>>())).collect();
    format!("latest={:?} hierarchical(levels 0..3)={:?}", latest, hier)
}
fn compile_input_clauses() -> bool {
    // (a) threads of 17-20 messages with run frames: the tail read path with every window size must hand the compiler the same cut and the same 16 messages as the truth log
    for n_msgs in [17usize, 20] { for pattern in 0..3u8 {
        let mk = |mode: u8, window: Option<usize>| { let st = fresh(mode, window); let mut ids = Vec::new();
            for i in 0..n_msgs { let id = st.append_message(T, "user".into(), "o".into(), format!("m{i}")).unwrap(); ids.push(id.clone());
                if pattern >= 1 { st.append_run_spawned(T, &id, &format!("run{i}"), "u".into(), "o".into()).unwrap(); }
                if pattern == 2 || (pattern == 1 && i % 3 == 0) { st.append_run_ended(T, &id, &format!("run{i}"), "completed".into(), "u".into(), "o".into()).unwrap(); } }
            (st, ids) };
        let (truth_st, ids) = mk(0, None);
        for (ai, anchor) in ids.iter().enumerate() {
            let want = compile_view(&truth_st, anchor);
            for window in [None, Some(1usize), Some(5), Some(16), Some(17), Some(18), Some(24), Some(40)] {
                let (st, ids2) = mk(1, window);
                let got = compile_view(&st, &ids2[ai]);
                // ids are generated per store: compare through positions
                let norm = |s: &str, ids: &Vec<String>| { let mut t = s.to_string(); for (k, id) in ids.iter().enumerate() { t = t.replace(id.as_str(), &format!("msg#{k}")); } t };
                if norm(&got, &ids2) != norm(&want, &ids) {
                    println!("WITNESS {{\"function\": \"ContinuityStore::load_context_compile_input_recent_messages_v1\", \"messages\": {}, \"run_frames\": {:?}, \"anchor_message_number\": {}, \"messages_runs_tail_window\": {:?}, \"compile_input_with_caches\": {:?}, \"compile_input_from_the_truth_log\": {:?}, \"problem\": \"the context compiled for a run depends on the state of the rebuildable caches\"}}", n_msgs, ["none", "spawned for every message, ended for every third", "spawned and ended for every message"][pattern as usize], ai, window, norm(&got, &ids2), norm(&want, &ids));
                    return true;
                }
            }
        }
    } }
    // (b) checkpoint selection for compile (latest, and the halving hierarchy): 9 or 12 messages, manual checkpoints at every subset of 4 chosen
    //     messages in both append orders, optionally one cut point summarised twice; caches present vs absent, at the head and mid-thread
    for n_msgs in [9usize, 12] { for mask in 0..16u32 { for rev in [false, true] { for dup in [false, true] { for foreign in [false, true] {
        let positions: Vec<usize> = [1usize, n_msgs / 3, n_msgs / 2, n_msgs - 1].iter().enumerate().filter(|(b, _)| (mask >> b) & 1 == 1).map(|(_, p)| *p).collect();
        let mk = |mode: u8| { let st = fresh(mode, None); let mut seqs = Vec::new();
            for i in 0..n_msgs { st.append_message(T, "user".into(), "o".into(), format!("m{i}")).unwrap(); seqs.push(st.event_log.frames.borrow().last().unwrap().seq); }
            let mut order = positions.clone(); if rev { order.reverse(); } if dup { if let Some(p) = positions.first() { order.push(*p); } }
            for p in order { st.compaction_checkpoint_cumulative_v1(T, CompactionCheckpointCumulativeV1Request { summary_markdown: Some("s".into()), summary_artifact_id: None, to_message_id: None, to_seq: Some(seqs[p]), stride_messages: None, actor_id: "u".into(), origin: "o".into() }).unwrap(); }
            // a LATER checkpoint frame of a kind the compiler does not support, cut at the same message as each cumulative checkpoint:
            // it must not shadow the cumulative one
            if foreign { for p in positions.iter() { st.append_compaction_checkpoint_created(T, CompactionCheckpointCreatedPayload { cut_rule_id: "manual_v1".into(), summary_kind: "rolling_v0".into(), summary_artifact_id: "f".repeat(64), from_seq: 0, from_message_id: None, to_seq: seqs[*p], to_message_id: None, actor_id: "u".into(), origin: "o".into() }).unwrap(); } }
            st };
        let (a, b) = (mk(0), mk(1));
        let head = a.event_log.frames.borrow().last().unwrap().seq;
        for from_seq in [head, (n_msgs / 2 + 1) as u64, 2, 0] {
            let (want, got) = (checkpoint_views(&a, from_seq), checkpoint_views(&b, from_seq));
            if want != got {
                println!("WITNESS {{\"function\": \"ContinuityStore::hierarchical_compaction_checkpoints_for_compile_v1\", \"messages\": {}, \"checkpoints_at_message_numbers\": {:?}, \"appended_newest_first\": {}, \"first_cut_point_summarised_twice\": {}, \"foreign_kind_checkpoint_frames_appended_later_at_the_same_cuts\": {}, \"from_seq\": {}, \"answer_with_caches\": {:?}, \"answer_from_the_truth_log\": {:?}, \"problem\": \"the checkpoints selected for compilation depend on the state of the rebuildable caches\"}}", n_msgs, positions, rev, dup, foreign, from_seq, got, want);
                return true;
            }
        }
    } } } } }
    false
}

const T: &str = "t";
fn fresh(mode: u8, window: Option<usize>) -> ContinuityStore {
    reset_scans(); CTR.with(|c| *c.borrow_mut() = 0); BLOBS.with(|b| b.borrow_mut().clear()); SIDECAR.with(|s| s.borrow_mut().clear()); FAULT_WRITE_AT.with(|f| *f.borrow_mut() = None);
    let st = ContinuityStore { workspace_root: PathBuf::from("/ws"), event_log: EventLog { frames: RefCell::new(Vec::new()) }, stream_cache: ContinuityStreamCache { mode, window }, sender: Sender, next_seq: Mutex::new(HashMap::new()) };
    let created = Event { id: "c0".into(), session_id: T.into(), timestamp_ms: 0, seq: 0, kind: EventKind::ContinuityCreated { workspace: "ws".into(), title: None } };
    st.event_log.append(&created).unwrap(); st.stream_cache.append_best_effort(&created);
    st
}
// history ops: 0 message; 1 provider cursor set (provider p, model a); 2 provider cursor set (provider p, model b); 3 context selection decided;
// 4 auto compaction with stride 1 (job spawned, checkpoint, job ended); 5 auto.schedule with stride 1 (adds a decision frame); 6 unrelated job frame
fn build(st: &ContinuityStore, ops: &[u8]) {
    let mut k = 0usize;
    for op in ops { match *op {
        0 => { st.append_message(T, "user".into(), "o".into(), format!("m{k}")).unwrap(); k += 1; }
        1 | 2 => { st.append_provider_cursor_updated(T, ProviderCursorUpdatedPayload { provider: "p".into(), endpoint: None, model: Some(if *op == 1 { "a".into() } else { "b".into() }), cursor: Some(Value::String(format!("cur{k}"))), action: "set".into(), reason: None, run_session_id: None, actor_id: "u".into(), origin: "o".into() }).unwrap(); }
        3 => { st.append_context_selection_decided(T, ContextSelectionDecidedPayload { run_session_id: format!("r{k}"), message_id: "m".into(), compiler_id: "c".into(), compiler_strategy: "recent_messages_v1".into(), limits: Value::Null, compaction_checkpoint: None, compaction_checkpoints: vec![], resets: vec![], reason: None, actor_id: "u".into(), origin: "o".into() }).unwrap(); }
        4 => { let _ = st.compaction_auto_v1(T, CompactionAutoV1Request { stride_messages: Some(1), max_new_checkpoints: Some(1), dry_run: None, actor_id: "u".into(), origin: "o".into() }); }
        5 => { let _ = st.compaction_auto_schedule_v1(T, CompactionAutoScheduleV1Request { stride_messages: Some(1), max_new_checkpoints: Some(1), block_on_inflight: Some(false), execute: Some(true), dry_run: Some(false), actor_id: "u".into(), origin: "o".into() }); }
        _ => { st.append_job_spawned(T, "j-other", "other_kind", None, "u".into(), "o".into()).unwrap(); }
    } }
}
const OPS: [&str; 7] = ["message", "provider cursor (p, a)", "provider cursor (p, b)", "context selection decided", "auto compaction (stride 1)", "auto.schedule (stride 1)", "unrelated job frame"];
fn answers(st: &ContinuityStore) -> Result<[String; 4], String> {
    let call = |name: &str, f: &dyn Fn() -> String| -> Result<String, String> {
        reset_scans();
        std::panic::catch_unwind(std::panic::AssertUnwindSafe(f)).map_err(|p| format!("{name}: {}", p.downcast_ref::<String>().cloned().or_else(|| p.downcast_ref::<&str>().map(|s| s.to_string())).unwrap_or_default()))
    };
    Ok([
        call("compaction_status_v1", &|| format!("{:?}", st.compaction_status_v1(T, CompactionStatusV1Request { stride_messages: Some(1) })))?,
        call("provider_cursor_status_v1", &|| format!("{:?}", st.provider_cursor_status_v1(T, ProviderCursorStatusV1Request {}).map(|mut r| { r.cursors.sort_by(|a, b| a.seq.cmp(&b.seq)); r })))?,
        call("context_selection_status_v1", &|| format!("{:?}", st.context_selection_status_v1(T, ContextSelectionStatusV1Request { limit: Some(3) })))?,
        call("provider_cursor_rotate_v1", &|| { let r = st.provider_cursor_rotate_v1(T, ProviderCursorRotateV1Request { provider: None, endpoint: None, model: None, reason: None, actor_id: "u".into(), origin: "o".into() }); format!("{:?}", r.map(|x| (x.rotated, x.provider, x.endpoint, x.model))) })?,
    ])
}
const NAMES: [&str; 4] = ["ContinuityStore::compaction_status_v1", "ContinuityStore::provider_cursor_status_v1", "ContinuityStore::context_selection_status_v1", "ContinuityStore::provider_cursor_rotate_v1"];

fn main() {
    let hook = std::panic::take_hook(); std::panic::set_hook(Box::new(|_| {}));
    if compile_input_clauses() { return; }
    let max_len: usize = if std::env::var("VX_TIER").as_deref() == Ok("thorough") { 6 } else { 5 };
    for n in 0..=max_len { for code in 0..7usize.pow(n as u32) {
        let mut c = code; let ops: Vec<u8> = (0..n).map(|_| { let o = (c % 7) as u8; c /= 7; o }).collect();
        if ops.iter().filter(|o| **o == 4 || **o == 5).count() > 2 { continue; }
        let truth = { let st = fresh(0, None); build(&st, &ops); answers(&st) };
        let truth = match truth { Ok(t) => t, Err(e) => { println!("WITNESS {{\"function\": {:?}, \"history\": {:?}, \"cache_state\": \"absent\", \"problem\": {:?}}}", e.split(':').next().unwrap_or(""), ops.iter().map(|o| OPS[*o as usize]).collect::<Vec<_>>(), e); return; } };
        for (mode, window, what) in [(1u8, None, "present and complete"), (1, Some(1usize), "tail scans see only the newest frame and are incomplete"), (1, Some(2), "tail scans see only the newest 2 frames and are incomplete"), (1, Some(3), "tail scans see only the newest 3 frames and are incomplete")] {
            let st = fresh(mode, window); build(&st, &ops);
            match answers(&st) {
                Err(e) => { println!("WITNESS {{\"function\": \"ContinuityStore::{}\", \"history\": {:?}, \"cache_state\": {:?}, \"problem\": {:?}}}", e.split(':').next().unwrap_or(""), ops.iter().map(|o| OPS[*o as usize]).collect::<Vec<_>>(), what, e); return; }
                Ok(got) => for i in 0..4 { if got[i] != truth[i] {
                    println!("WITNESS {{\"function\": {:?}, \"history\": {:?}, \"cache_state\": {:?}, \"answer_with_caches\": {:?}, \"answer_from_the_truth_log\": {:?}, \"problem\": \"the answer depends on the state of the rebuildable caches\"}}", NAMES[i], ops.iter().map(|o| OPS[*o as usize]).collect::<Vec<_>>(), what, got[i], truth[i]);
                    return; } }
            }
        }
    } }
    std::panic::set_hook(hook);
}
