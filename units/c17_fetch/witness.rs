// vx: label-insensitive
// Bounded replay of the artifact_fetch tool: the real run_artifact_fetch, is_sha256_hex, artifacts_blobs_dir, path_rel and truncate_utf8
// (rip-tools copy) over an in-memory blob store; stored outputs are followed page by page exactly as a client does
// (next offset = offset_bytes + bytes of the previous answer).
use std::cell::RefCell;
use std::collections::HashMap;
use std::io::{self, SeekFrom};
use std::path::{Path, PathBuf};
thread_local! { static BLOBS: RefCell<HashMap<PathBuf, Vec<u8>>> = RefCell::new(HashMap::new()); static SHORT: RefCell<usize> = RefCell::new(usize::MAX); }
pub struct Meta { n: u64 } impl Meta { pub fn len(&self) -> u64 { self.n } }
pub mod fsx { use super::*; pub fn metadata(p: &PathBuf) -> io::Result<Meta> { BLOBS.with(|b| b.borrow().get(p).map(|v| Meta { n: v.len() as u64 })).ok_or_else(|| io::Error::new(io::ErrorKind::NotFound, "missing")) } }
pub struct File { data: Vec<u8>, pos: u64 }
impl File {
    pub fn open(p: &PathBuf) -> io::Result<File> { BLOBS.with(|b| b.borrow().get(p).cloned()).map(|data| File { data, pos: 0 }).ok_or_else(|| io::Error::new(io::ErrorKind::NotFound, "missing")) }
    pub fn seek(&mut self, s: SeekFrom) -> io::Result<u64> { if let SeekFrom::Start(p) = s { self.pos = p; } Ok(self.pos) }
    // a read may return fewer bytes than asked for (SHORT caps it), as std::io::Read allows
    pub fn read(&mut self, buf: &mut [u8]) -> io::Result<usize> { let a = (self.pos as usize).min(self.data.len()); let k = buf.len().min(self.data.len() - a).min(SHORT.with(|s| *s.borrow())); buf[..k].copy_from_slice(&self.data[a..a + k]); self.pos += k as u64; Ok(k) }
}
pub mod serde_json { #[derive(Clone, Debug, Default)] pub struct Value { pub offset_bytes: u64, pub bytes: u64, pub total_bytes: u64, pub truncated: bool } }
macro_rules! json { ({ "id": $a:expr, "path": $b:expr, "offset_bytes": $c:expr, "bytes": $d:expr, "total_bytes": $e:expr, "truncated": $f:expr $(,)? }) => { { let _ = (&$a, &$b); serde_json::Value { offset_bytes: ($c) as u64, bytes: ($d) as u64, total_bytes: ($e) as u64, truncated: $f } } } }
pub struct ToolInvocation { pub name: String, pub args: serde_json::Value, pub timeout_ms: Option<u64> }
#[derive(Debug)]
pub struct ToolOutput { pub stdout: Vec<String>, pub stderr: Vec<String>, pub exit_code: i32, pub artifacts: Option<serde_json::Value> }
impl ToolOutput { pub fn failure(e: Vec<String>) -> ToolOutput { ToolOutput { stdout: vec![], stderr: e, exit_code: 1, artifacts: None } } pub fn invalid_args(e: String) -> ToolOutput { ToolOutput { stdout: vec![], stderr: vec![e], exit_code: 2, artifacts: None } } }
//@@ item crates/rip-tools/src/builtins/mod.rs struct BuiltinToolConfig
impl BuiltinToolConfig {
    //@@ fn crates/rip-tools/src/builtins/mod.rs BuiltinToolConfig::artifacts_root
    //@@ end
}
//@@ item crates/rip-tools/src/builtins/artifact_fetch.rs struct ArtifactFetchArgs
thread_local! { static ARGS: RefCell<Option<ArtifactFetchArgs>> = RefCell::new(None); }
pub fn parse_args(_v: serde_json::Value) -> Result<ArtifactFetchArgs, ToolOutput> { Ok(ARGS.with(|a| a.borrow_mut().take().unwrap())) }
//@@ fn crates/rip-tools/src/builtins/mod.rs truncate_utf8
//@@ end
//@@ fn crates/rip-tools/src/builtins/artifact_fetch.rs run_artifact_fetch
//@@ alias std::fs::metadata fsx::metadata
//@@ end
//@@ fn crates/rip-tools/src/builtins/artifact_fetch.rs artifacts_blobs_dir
//@@ end
//@@ fn crates/rip-tools/src/builtins/artifact_fetch.rs path_rel
//@@ end
//@@ fn crates/rip-tools/src/builtins/artifact_fetch.rs is_sha256_hex
//@@ end

fn main() {
    let id = "0123456789abcdef0123456789abcdef0123456789abcdef0123456789abcdef";
    let cfg = BuiltinToolConfig { workspace_root: PathBuf::from("/ws"), artifact_max_bytes: 1 << 20, max_bytes: 64, max_results: 10, max_depth: 4, follow_symlinks: false, include_hidden: false };
    let blob_path = PathBuf::from("/ws/.rip/artifacts/blobs").join(id);
    // stored outputs: every text of up to 4 characters over 1/2/3/4-byte characters, and a few with invalid bytes
    let alpha = ["a", "\u{e9}", "\u{20ac}", "\u{1f600}"];
    let mut texts: Vec<Vec<u8>> = vec![vec![]]; let mut frontier: Vec<String> = vec![String::new()];
    for _ in 0..4 { let mut next = Vec::new(); for s in &frontier { for a in alpha { let mut t = s.clone(); t.push_str(a); next.push(t); } } texts.extend(next.iter().map(|t| t.clone().into_bytes())); frontier = next; }
    for stored in &texts { for page in 4..=7usize { for short in [usize::MAX] {      // assumed: a read of a regular file fills the buffer unless the file ends (no short reads)
        BLOBS.with(|b| { b.borrow_mut().clear(); b.borrow_mut().insert(blob_path.clone(), stored.clone()); }); SHORT.with(|s| *s.borrow_mut() = short);
        let mut off = 0u64; let mut acc = String::new(); let mut steps = 0; let mut problem: Option<String> = None; let mut trace: Vec<(u64, u64, bool)> = Vec::new();
        loop {
            ARGS.with(|a| *a.borrow_mut() = Some(ArtifactFetchArgs { id: id.to_string(), offset_bytes: Some(off), max_bytes: Some(page) }));
            let out = run_artifact_fetch(ToolInvocation { name: "artifact_fetch".into(), args: serde_json::Value::default(), timeout_ms: None }, &cfg);
            let Some(a) = out.artifacts.clone() else { problem = Some(format!("fetch failed: {:?}", out.stderr)); break; };
            trace.push((a.offset_bytes, a.bytes, a.truncated));
            if a.offset_bytes != off || a.bytes > page as u64 || a.total_bytes != stored.len() as u64 || off + a.bytes > a.total_bytes { problem = Some("the answer's offset_bytes / bytes / total_bytes do not describe a range of the stored output within the page size".into()); break; }
            acc.push_str(&out.stdout.concat());
            off += a.bytes; steps += 1;
            if !a.truncated { break; }
            if a.bytes == 0 || steps > 64 { problem = Some("paging makes no progress although the answer says more follows".into()); break; }
        }
        if problem.is_none() && acc.as_bytes() != &stored[..] { problem = Some("the pages, followed by offset_bytes + bytes, do not reassemble to the stored output".into()); }
        if let Some(p) = problem {
            println!("WITNESS {{\"function\": \"run_artifact_fetch\", \"stored_output\": {:?}, \"page_size\": {}, \"reads_return_at_most\": {:?}, \"pages_(offset,bytes,truncated)\": {:?}, \"reassembled\": {:?}, \"problem\": {:?}}}", String::from_utf8_lossy(stored), page, if short == usize::MAX { None } else { Some(short) }, trace, acc, p);
            return;
        }
    } } }
    // ids that are not 64 lowercase hex characters are refused before any file is touched
    for bad in ["", "abc", "../../../etc/passwd", &id.to_uppercase(), &format!("{}/", &id[..63])] {
        ARGS.with(|a| *a.borrow_mut() = Some(ArtifactFetchArgs { id: bad.to_string(), offset_bytes: None, max_bytes: None }));
        let out = run_artifact_fetch(ToolInvocation { name: "artifact_fetch".into(), args: serde_json::Value::default(), timeout_ms: None }, &cfg);
        if out.exit_code == 0 { println!("WITNESS {{\"function\": \"run_artifact_fetch\", \"id_argument\": {:?}, \"problem\": \"an id that is not a content hash was accepted\"}}", bad); return; }
    }
}
