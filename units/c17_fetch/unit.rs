//@@ unit c17_fetch properties=C17 bounded=artifact_fetch.pages_followed_by_offset_plus_bytes_reassemble_to_the_stored_output
// Proved here: the page arithmetic of the two range readers (the artifact_fetch tool and the task-log reader read_artifact_range): the text
// returned decodes exactly the `bytes` bytes of the blob starting at `offset_bytes` (so a client that continues at offset + bytes neither
// skips nor repeats a byte), `bytes` never exceeds the page size, no arithmetic can overflow, ids that are not content hashes are refused
// before any file is touched.  truncate_utf8 is used through the contract proved in c17_truncate.  BOUNDED stand-in (witness.rs): the
// real artifact_fetch followed page by page over every stored output of <= 4 characters from {1,2,3,4-byte characters}, page sizes 4..7.
#![allow(unused_imports, dead_code, unused_variables, unused_mut)]
use vstd::prelude::*;

//@@ include prelude/utf8_model.rs

verus! {
global size_of usize == 8;

// ---- stubs (R8; trusted) ----------------------------------------------------------------------
#[verifier::external_body] pub fn vfmt() -> String { unimplemented!() }        // R9
pub struct PathBuf { pub filler: u8 }
impl PathBuf { #[verifier::external_body] pub fn join(&self, s: &str) -> (r: PathBuf) ensures r == blob_path(*self, s@) { unimplemented!() } }
pub uninterp spec fn blob_path(dir: PathBuf, id: Seq<char>) -> PathBuf;
pub struct TaskEngineConfig { pub filler: u8 }
impl TaskEngineConfig { pub uninterp spec fn blobs(&self) -> PathBuf; #[verifier::external_body] pub fn artifacts_blobs_dir(&self) -> (r: PathBuf) ensures r == self.blobs() { unimplemented!() } }
// only content hashes name blobs
pub uninterp spec fn is_hash(id: Seq<char>) -> bool;
#[verifier::external_body] pub fn is_lower_hex_64(id: &str) -> (r: bool) ensures r == is_hash(id@) { unimplemented!() }

// the blob behind a path, and a file positioned in it.  Opening is allowed only for a hash-named blob.
pub mod io { use vstd::prelude::*; verus! { pub struct Error { pub filler: u8 } } }
pub uninterp spec fn blob_of(p: PathBuf) -> Seq<u8>;
pub struct Metadata { pub filler: u8 }
impl Metadata { pub uninterp spec fn of(&self) -> PathBuf; #[verifier::external_body] pub fn len(&self) -> (n: u64) ensures n == blob_of(self.of()).len() { unimplemented!() } }
pub mod fsx { use super::*; verus! {
    #[verifier::external_body] pub fn metadata(p: &PathBuf) -> (r: Result<Metadata, io::Error>) ensures r matches Ok(m) ==> m.of() == *p { unimplemented!() }
} }
pub enum SeekFrom { Start(u64) }
pub struct File { pub filler: u8 }
impl File {
    pub uninterp spec fn path(&self) -> PathBuf;
    pub uninterp spec fn pos(&self) -> int;
    #[verifier::external_body] pub fn open(p: &PathBuf) -> (r: Result<File, io::Error>) ensures r matches Ok(f) ==> f.path() == *p && f.pos() == 0 { unimplemented!() }
    // lseek refuses offsets beyond i64::MAX
    #[verifier::external_body] pub fn seek(&mut self, s: SeekFrom) -> (r: Result<u64, io::Error>)
        ensures final(self).path() == old(self).path(), r is Ok ==> (s matches SeekFrom::Start(o) && o <= i64::MAX && final(self).pos() == o), r is Err ==> final(self).pos() == old(self).pos(),
    { unimplemented!() }
    // a read hands out the bytes at the position (none beyond the end of the blob), at most buf.len() of them
    #[verifier::external_body] pub fn read(&mut self, buf: &mut Vec<u8>) -> (r: Result<usize, io::Error>)
        ensures final(self).path() == old(self).path(), final(buf)@.len() == old(buf)@.len(),
            r matches Ok(n) ==> n <= old(buf)@.len() && (n > 0 ==> old(self).pos() + n <= blob_of(old(self).path()).len())
                && (n > 0 ==> final(buf)@.subrange(0, n as int) == blob_of(old(self).path()).subrange(old(self).pos(), old(self).pos() + n)),
    { unimplemented!() }
}
#[verifier::external_body] pub fn zeroed(n: usize) -> (v: Vec<u8>) ensures v@.len() == n { unimplemented!() }
// contract of truncate_utf8 as proved in unit c17_truncate (both copies)
#[verifier::external_body]
pub fn truncate_utf8(bytes: &Vec<u8>, max_bytes: usize) -> (ret: (String, bool, usize))
    ensures ret.2 <= bytes@.len() && ret.2 <= max_bytes, ret.0@ == lossy(bytes@.subrange(0, ret.2 as int)), !ret.1 ==> ret.2 == bytes@.len(),
{ unimplemented!() }

//@@ fn crates/ripd/src/tasks/logs.rs read_artifact_range rules=R9
//@@ alias std::fs::metadata fsx::metadata
//@@ alias std::fs::File::open File::open
//@@ alias std::io::SeekFrom::Start SeekFrom::Start
//@@ rewrite vec![0u8; max_bytes] => zeroed(max_bytes)
//@@ rewrite use std::io::Seek; => ;
//@@ rewrite use std::io::Read; => ;
//@@ sig
    ensures
        ret is Ok ==> is_hash(id@),                                                                                     // [read_artifact_range.only_content_hashes_are_opened]
        ret matches Ok(t) ==> ({
            let blob = blob_of(blob_path(config.blobs(), id@));
            &&& t.2 == blob.len()                                                                                       // [read_artifact_range.total_is_the_blob_length]
            &&& t.1 <= max_bytes && (t.1 > 0 ==> offset_bytes + t.1 <= blob.len())                           // [read_artifact_range.range_within_page_and_blob]
            // the page text decodes exactly the `used` bytes of the blob that start at `offset_bytes`: continuing at offset + used neither skips nor repeats a byte
            &&& t.1 > 0 ==> t.0@ == lossy(blob.subrange(offset_bytes as int, offset_bytes + t.1))                       // [read_artifact_range.page_text_decodes_exactly_the_reported_range]
            // `truncated` is false only when the page reaches the end of the blob
            &&& !t.3 ==> offset_bytes + t.1 >= blob.len()                                                               // [read_artifact_range.untruncated_means_the_end_was_reached]
        }),
//@@ tail
    proof {
        let blob = blob_of(blob_path(config.blobs(), id@));
        if used_bytes > 0 {
            assert(read_bytes > 0);
            assert(buf@.len() == read_bytes);
            assert(buf@ =~= blob.subrange(offset_bytes as int, offset_bytes + read_bytes));
            assert(buf@.subrange(0, used_bytes as int) =~= blob.subrange(offset_bytes as int, offset_bytes + used_bytes));
        }
    }
//@@ closure 0
    ensures true
//@@ closure 1
    ensures true
//@@ closure 2
    ensures true
//@@ closure 3
    ensures true
//@@ end

// ---- the artifact_fetch tool: the same page arithmetic, reported through a JSON object (R6: members are evaluated into a typed
// stand-in whose numeric members keep their value) -----------------------------------------------------------------------------
pub struct J { pub filler: u8 }
pub uninterp spec fn j_num(j: J) -> Option<int>;
pub trait Jsonable { spec fn as_num(&self) -> Option<int>; }
impl Jsonable for u64 { open spec fn as_num(&self) -> Option<int> { Some(*self as int) } }
impl Jsonable for usize { open spec fn as_num(&self) -> Option<int> { Some(*self as int) } }
impl Jsonable for bool { open spec fn as_num(&self) -> Option<int> { if *self { Some(1int) } else { Some(0int) } } }
impl Jsonable for String { open spec fn as_num(&self) -> Option<int> { None } }
#[verifier::external_body] pub fn vj<T: Jsonable>(t: &T) -> (j: J) ensures j_num(j) == t.as_num() { unimplemented!() }
pub struct Value { pub id: J, pub path: J, pub offset_bytes: J, pub bytes: J, pub total_bytes: J, pub truncated: J }
pub mod serde_json { use vstd::prelude::*; verus! { pub struct Value { pub filler: u8 } } }
pub struct ToolInvocation { pub name: String, pub args: serde_json::Value, pub timeout_ms: Option<u64> }
pub struct ToolOutput { pub stdout: Vec<String>, pub stderr: Vec<String>, pub exit_code: i32, pub artifacts: Option<Value> }
impl ToolOutput {
    #[verifier::external_body] pub fn failure(e: Vec<String>) -> (r: ToolOutput) ensures r.artifacts is None { unimplemented!() }
    #[verifier::external_body] pub fn invalid_args(e: String) -> (r: ToolOutput) ensures r.artifacts is None { unimplemented!() }
}
pub struct BuiltinToolConfig { pub workspace_root: PathBuf, pub max_bytes: usize, pub blobs_dir: PathBuf }
#[verifier::external_body] pub fn artifacts_blobs_dir(config: &BuiltinToolConfig) -> (r: PathBuf) ensures r == config.blobs_dir { unimplemented!() }
#[verifier::external_body] pub fn path_rel(root: &PathBuf, path: &PathBuf) -> String { unimplemented!() }
//@@ item crates/rip-tools/src/builtins/artifact_fetch.rs struct ArtifactFetchArgs
pub uninterp spec fn fetch_args_of(v: serde_json::Value) -> ArtifactFetchArgs;
#[verifier::external_body] pub fn parse_args(v: serde_json::Value) -> (r: Result<ArtifactFetchArgs, ToolOutput>)
    ensures r matches Ok(a) ==> a == fetch_args_of(v), r matches Err(o) ==> o.artifacts is None,
{ unimplemented!() }
#[verifier::external_body] pub fn is_sha256_hex(id: &String) -> (r: bool) ensures r == is_hash(id@) { unimplemented!() }
impl PathBuf { #[verifier::external_body] pub fn join_string(&self, s: &String) -> (r: PathBuf) ensures r == blob_path(*self, s@) { unimplemented!() } }

//@@ fn crates/rip-tools/src/builtins/artifact_fetch.rs run_artifact_fetch rules=R6,R9
//@@ alias std::fs::metadata fsx::metadata
//@@ rewrite vec![0u8; max_bytes] => zeroed(max_bytes)
//@@ rewrite artifacts_blobs_dir(config).join(&args.id) => artifacts_blobs_dir(config).join_string(&args.id)
//@@ rewrite vec![content] => one_string(content)
//@@ sig
    ensures
        ret.artifacts matches Some(a) ==> ({
            let args = fetch_args_of(invocation.args);
            let off: int = match args.offset_bytes { Some(o) => o as int, None => 0 };
            let page: int = match args.max_bytes { Some(m) => m as int, None => config.max_bytes as int };
            let blob = blob_of(blob_path(config.blobs_dir, args.id@));
            &&& is_hash(args.id@)                                                                                     // [artifact_fetch.only_content_hashes_are_opened]
            &&& j_num(a.offset_bytes) == Some(off) && j_num(a.total_bytes) == Some(blob.len() as int)                  // [artifact_fetch.reports_the_requested_offset_and_the_blob_length]
            &&& j_num(a.bytes) matches Some(used) && 0 <= used <= page && (used > 0 ==> off + used <= blob.len())      // [artifact_fetch.range_within_page_and_blob]
            &&& ret.stdout@.len() == 1
            // the page text decodes exactly the `bytes` bytes of the blob that start at `offset_bytes`
            &&& (j_num(a.bytes)->Some_0 > 0 ==> ret.stdout@[0]@ == lossy(blob.subrange(off, off + j_num(a.bytes)->Some_0)))   // [artifact_fetch.page_text_decodes_exactly_the_reported_range]
            &&& (j_num(a.truncated) == Some(0int) ==> off + j_num(a.bytes)->Some_0 >= blob.len())                       // [artifact_fetch.untruncated_means_the_end_was_reached]
        }),
//@@ tail
    proof {
        let blob = blob_of(blob_path(config.blobs_dir, args.id@));
        if used_bytes > 0 {
            assert(read_bytes > 0);
            assert(buf@.len() == read_bytes);
            assert(buf@ =~= blob.subrange(offset as int, offset + read_bytes));
            assert(buf@.subrange(0, used_bytes as int) =~= blob.subrange(offset as int, offset + used_bytes));
        }
    }
//@@ end
#[verifier::external_body] pub fn one_string(s: String) -> (v: Vec<String>) ensures v@.len() == 1 && v@[0] == s { unimplemented!() }

} // verus!
fn main() {}
