//@@ unit c17_fetch properties=C17 noverus bounded=artifact_fetch.pages_followed_by_offset_plus_bytes_reassemble_to_the_stored_output
// This unit carries no Verus obligations of its own: truncate_utf8, which decides where a page ends, is proved in c17_truncate.  The
// composition in the artifact_fetch tool (seek, read, decode, the offset_bytes / bytes / truncated numbers a client follows) is checked as
// a BOUNDED stand-in by units/c17_fetch/witness.rs: the real run_artifact_fetch over every stored output of up to 4 characters from
// {1,2,3,4-byte characters}, page sizes 4..7, pages followed exactly as a client does.  Assumed: File::read on a regular file fills the
// buffer unless the file ends.  Ids that are not 64 lowercase hex characters are refused.  Never counted as proved.
fn main() {}
