// shared scaffolding of the continuity-store replay programs (units c09_pipeline, c09_planner, c04_status)
use std::cell::RefCell;
use std::collections::HashMap;
use std::io;
use std::path::{Path, PathBuf};
use std::sync::Mutex;
//@@ include prelude/kernel_model_plain_json.rs
macro_rules! json { ($($t:tt)*) => { Value::Null } }   // R8: serde_json::json! -> opaque value (never read back by the code under test)

pub struct Uuid;
thread_local! { static CTR: RefCell<u64> = RefCell::new(0); static BLOBS: RefCell<HashMap<String, CompactionSummaryV1>> = RefCell::new(HashMap::new()); static FAULT_WRITE_AT: RefCell<Option<u64>> = RefCell::new(None); }
impl Uuid { pub fn new_v4() -> Uuid { Uuid } }
impl std::fmt::Display for Uuid { fn fmt(&self, f: &mut std::fmt::Formatter<'_>) -> std::fmt::Result { let n = CTR.with(|c| { *c.borrow_mut() += 1; *c.borrow() }); write!(f, "uuid-{n}") } }
pub fn now_ms() -> u64 { 0 }

// ---- collaborators (executable stand-ins; assumed contracts, listed in evidence) --------------------------------------------
pub struct EventLog { pub frames: RefCell<Vec<Event>> }
impl EventLog { pub fn append(&self, e: &Event) -> Result<(), String> { self.frames.borrow_mut().push(e.clone()); Ok(()) } }
pub struct Sender;
impl Sender { pub fn send(&self, _e: Event) -> Result<usize, ()> { Ok(0) } }
pub struct TailScan { pub events: Vec<Event>, pub complete: bool }
pub struct Parsed { pub events: Vec<Event>, pub complete: bool }
// cache mode 2: the back-scan of the checkpoint sidecar is a window of the newest CP_WINDOW frames (what a sidecar longer than the scan limits looks like)
thread_local! { pub static CP_WINDOW: std::cell::Cell<usize> = std::cell::Cell::new(usize::MAX); }
pub struct File;
impl File { pub fn open(_p: &PathBuf) -> io::Result<File> { Ok(File) } }
pub enum ParseMode { Event }
thread_local! { static SIDECAR: RefCell<Vec<Event>> = RefCell::new(Vec::new()); }
// newest first, as the real scan_sidecar_backwards returns them (proved in unit c04_scan)
pub fn scan_sidecar_backwards(_f: &mut File, id: &str, _n: usize, _b: usize, _m: ParseMode, _x: Option<u64>) -> io::Result<Parsed> {
    let all: Vec<Event> = SIDECAR.with(|s| s.borrow().iter().rev().filter(|e| e.session_id == id && matches!(e.kind, EventKind::ContinuityCompactionCheckpointCreated { .. })).cloned().collect());
    let w = CP_WINDOW.with(|c| c.get()).min(_n);
    let complete = all.len() <= w;
    Ok(Parsed { events: all.into_iter().take(w).collect(), complete })
}
// mode 0: every cache absent (truth-log paths); mode 1: caches present and faithful to the appended frames
pub struct ContinuityWindow { pub events: Vec<Event>, pub from_seq: u64, pub from_message_id: Option<String> }
// the checkpoint index as the cache builds it from the sidecar: one entry per checkpoint frame, in stream order
#[derive(Debug, Clone, Default)]
pub struct CompactionCheckpointIndexEntryV1 { pub seq: u64, pub to_seq: u64, pub checkpoint_id: String, pub cut_rule_id: String, pub summary_kind: String, pub summary_artifact_id: String }
pub fn load_compaction_checkpoint_index_v1(p: &PathBuf) -> io::Result<Option<Vec<CompactionCheckpointIndexEntryV1>>> {
    let id = p.to_string_lossy().to_string();
    Ok(Some(SIDECAR.with(|s| s.borrow().iter().filter(|e| e.session_id == id).filter_map(|e| match &e.kind { EventKind::ContinuityCompactionCheckpointCreated { checkpoint_id, cut_rule_id, summary_kind, summary_artifact_id, to_seq, .. } => Some(CompactionCheckpointIndexEntryV1 { seq: e.seq, to_seq: *to_seq, checkpoint_id: checkpoint_id.clone(), cut_rule_id: cut_rule_id.clone(), summary_kind: summary_kind.clone(), summary_artifact_id: summary_artifact_id.clone() }), _ => None }).collect())))
}
pub fn rebuild_compaction_checkpoint_index_from_sidecar_v1(_a: &PathBuf, _b: &PathBuf, _id: &str) -> io::Result<()> { Ok(()) }
// window: Some(k) = the tail scan never sees more than the newest k frames and reports the tail as incomplete unless it holds them all
pub struct ContinuityStreamCache { pub mode: u8, pub window: Option<usize> }
thread_local! { static SCANS: RefCell<u64> = RefCell::new(0); }
pub fn reset_scans() { SCANS.with(|c| *c.borrow_mut() = 0); }
impl ContinuityStreamCache {
    pub fn append_best_effort(&self, e: &Event) { SIDECAR.with(|s| s.borrow_mut().push(e.clone())); }
    fn msgs(&self, id: &str) -> Vec<(u64, String)> { SIDECAR.with(|s| s.borrow().iter().filter(|e| e.session_id == id && matches!(e.kind, EventKind::ContinuityMessageAppended { .. })).map(|e| (e.seq, e.id.clone())).collect()) }
    pub fn message_count_messages_runs_v1(&self, id: &str) -> io::Result<Option<u64>> { if self.mode == 0 { return Ok(None); } Ok(Some(self.msgs(id).len() as u64)) }
    pub fn message_by_ordinal_messages_runs_v1(&self, id: &str, ordinal: u64) -> io::Result<Option<(u64, String)>> {
        if self.mode == 0 || ordinal == 0 { return Ok(None); } Ok(self.msgs(id).get((ordinal - 1) as usize).cloned()) }
    pub fn try_read_last_seq(&self, id: &str) -> io::Result<Option<u64>> { if self.mode == 0 { return Ok(None); } Ok(SIDECAR.with(|s| s.borrow().iter().filter(|e| e.session_id == id).map(|e| e.seq).last())) }
    pub fn scan_tail(&self, id: &str, max_events: usize, _b: usize) -> io::Result<Option<TailScan>> {
        if self.mode == 0 { return Ok(None); }
        let n = SCANS.with(|c| { *c.borrow_mut() += 1; *c.borrow() });
        if n > 200 { panic!("scan_tail was called more than 200 times by one read call: the tail-window loop does not terminate"); }
        let all: Vec<Event> = SIDECAR.with(|s| s.borrow().iter().filter(|e| e.session_id == id).cloned().collect());
        let k = all.len().saturating_sub(max_events.min(self.window.unwrap_or(usize::MAX)));
        Ok(Some(TailScan { events: all[k..].to_vec(), complete: k == 0 }))
    }
    // messages+runs sidecar tail: same window rule as scan_tail, over message / run frames only
    pub fn scan_tail_messages_runs_v1(&self, id: &str, max_events: usize, _b: usize) -> io::Result<Option<TailScan>> {
        if self.mode == 0 { return Ok(None); }
        let n = SCANS.with(|c| { *c.borrow_mut() += 1; *c.borrow() });
        if n > 200 { panic!("the messages+runs tail was scanned more than 200 times by one read call: the tail-window loop does not terminate"); }
        let all: Vec<Event> = SIDECAR.with(|s| s.borrow().iter().filter(|e| e.session_id == id && matches!(e.kind, EventKind::ContinuityMessageAppended { .. } | EventKind::ContinuityRunSpawned { .. } | EventKind::ContinuityRunEnded { .. })).cloned().collect());
        let k = all.len().saturating_sub(max_events.min(self.window.unwrap_or(usize::MAX)));
        Ok(Some(TailScan { events: all[k..].to_vec(), complete: k == 0 }))
    }
    // the seekable window read is not modelled: absent, so the caller goes on to its truth-log fallback
    pub fn window_recent_messages_v1_from_message_id(&self, _id: &str, _anchor: &str, _limit: usize) -> io::Result<Option<ContinuityWindow>> { Ok(None) }
    pub fn ensure_compaction_checkpoints_index_best_effort_v1(&self, id: &str) -> io::Result<Option<PathBuf>> { if self.mode == 0 { Ok(None) } else { Ok(Some(PathBuf::from(id))) } }
    //@@ fn crates/ripd/src/continuity_stream_cache.rs ContinuityStreamCache::hierarchical_compaction_checkpoints_before_or_at_seq_v1
    //@@ end
    pub fn ensure_compaction_checkpoints_sidecar_best_effort_v1(&self, _id: &str) -> io::Result<Option<PathBuf>> { if self.mode == 0 { Ok(None) } else { Ok(Some(PathBuf::from("sidecar"))) } }
    //@@ fn crates/ripd/src/continuity_stream_cache.rs ContinuityStreamCache::latest_compaction_checkpoint_before_or_at_seq_v1
    //@@ end
}

// ---- summary artifacts: real constructor and accessors, in-memory blob store --------------------------------------------------
//@@ item crates/ripd/src/compaction_summary.rs const COMPACTION_SUMMARY_SCHEMA_V1
//@@ item crates/ripd/src/compaction_summary.rs const COMPACTION_SUMMARY_KIND_CUMULATIVE_V1
//@@ item crates/ripd/src/compaction_summary.rs struct NewCumulativeCompactionSummaryV1
//@@ item crates/ripd/src/compaction_summary.rs struct CompactionSummaryV1
//@@ item crates/ripd/src/compaction_summary.rs struct CompactionSummaryCoverageV1
//@@ item crates/ripd/src/compaction_summary.rs struct CompactionSummaryProvenanceV1
//@@ item crates/ripd/src/compaction_summary.rs struct CompactionSummaryProducedByV1
//@@ item crates/ripd/src/compaction_summary.rs struct CompactionSummaryBasisV1
impl CompactionSummaryV1 {
    //@@ fn crates/ripd/src/compaction_summary.rs CompactionSummaryV1::new_cumulative_source_cut
    //@@ end
    //@@ fn crates/ripd/src/compaction_summary.rs CompactionSummaryV1::schema
    //@@ end
    //@@ fn crates/ripd/src/compaction_summary.rs CompactionSummaryV1::kind
    //@@ end
    //@@ fn crates/ripd/src/compaction_summary.rs CompactionSummaryV1::coverage_thread_id
    //@@ end
    //@@ fn crates/ripd/src/compaction_summary.rs CompactionSummaryV1::coverage_to_seq
    //@@ end
    //@@ fn crates/ripd/src/compaction_summary.rs CompactionSummaryV1::summary_markdown
    //@@ end
}
pub fn write_compaction_summary_v1(_root: &Path, s: &CompactionSummaryV1) -> Result<String, String> {
    let n = CTR.with(|c| { *c.borrow_mut() += 1; *c.borrow() });
    if FAULT_WRITE_AT.with(|f| *f.borrow() == Some(s.coverage_to_seq())) { return Err("artifact write failed: injected".into()); }
    let id = format!("artifact-{n}");
    BLOBS.with(|b| b.borrow_mut().insert(id.clone(), s.clone()));
    Ok(id)
}
pub fn read_compaction_summary_v1(_root: &Path, id: &str) -> Result<CompactionSummaryV1, String> {
    BLOBS.with(|b| b.borrow().get(id).cloned()).ok_or_else(|| "artifact read failed: not found".to_string())
}
//@@ file crates/ripd/src/compaction_auto_summary.rs mod=compaction_auto_summary
use compaction_auto_summary::*;

// ---- the store: real request/response types and real functions ------------------------------------------------------------------
//@@ item crates/ripd/src/continuities.rs const COMPACTION_JOB_KIND_SUMMARIZER_V1
//@@ item crates/ripd/src/continuities.rs struct CompactionCheckpointCumulativeV1Request
//@@ item crates/ripd/src/continuities.rs struct CompactionCutPointsV1Request
//@@ item crates/ripd/src/continuities.rs struct CompactionCutPointsV1Response
//@@ item crates/ripd/src/continuities.rs struct CompactionCutPointV1
//@@ item crates/ripd/src/continuities.rs struct CompactionAutoV1Request
//@@ item crates/ripd/src/continuities.rs struct CompactionAutoV1Response
//@@ item crates/ripd/src/continuities.rs struct CompactionPlannedCutPointV1
//@@ item crates/ripd/src/continuities.rs struct CompactionAutoResultCheckpointV1
//@@ item crates/ripd/src/continuities.rs struct CompactionAutoScheduleV1Request
//@@ item crates/ripd/src/continuities.rs struct CompactionAutoScheduleV1Response
//@@ item crates/ripd/src/continuities.rs struct CompactionAutoScheduleDecidedPayload
//@@ item crates/ripd/src/continuities.rs struct CompactionCheckpointCreatedPayload
//@@ item crates/ripd/src/continuities.rs struct JobEndedPayload
pub struct ContinuityStore {
    pub workspace_root: PathBuf, pub event_log: EventLog, pub stream_cache: ContinuityStreamCache, pub sender: Sender,
    pub next_seq: Mutex<HashMap<String, u64>>,
}
impl ContinuityStore {
    pub fn replay_events(&self, id: &str) -> io::Result<Vec<Event>> { Ok(self.event_log.frames.borrow().iter().filter(|e| e.session_id == id).cloned().collect()) }
    //@@ fn crates/ripd/src/continuities.rs ContinuityStore::load_next_seq_for
    //@@ end
    //@@ fn crates/ripd/src/continuities.rs ContinuityStore::append_message
    //@@ end
    //@@ fn crates/ripd/src/continuities.rs ContinuityStore::append_job_spawned
    //@@ end
    //@@ fn crates/ripd/src/continuities.rs ContinuityStore::append_job_ended
    //@@ end
    //@@ fn crates/ripd/src/continuities.rs ContinuityStore::append_compaction_checkpoint_created
    //@@ end
    //@@ fn crates/ripd/src/continuities.rs ContinuityStore::append_compaction_auto_schedule_decided
    //@@ end
    //@@ fn crates/ripd/src/continuities.rs ContinuityStore::find_inflight_compaction_job_id_best_effort_v1
    //@@ end
    //@@ fn crates/ripd/src/continuities.rs ContinuityStore::compaction_checkpoint_cumulative_v1
    //@@ alias crate::compaction_summary::NewCumulativeCompactionSummaryV1 NewCumulativeCompactionSummaryV1
    //@@ end
    //@@ fn crates/ripd/src/continuities.rs ContinuityStore::compaction_cut_points_v1
    //@@ end
    //@@ fn crates/ripd/src/continuities.rs ContinuityStore::compaction_auto_v1
    //@@ end
    //@@ fn crates/ripd/src/continuities.rs ContinuityStore::compaction_auto_schedule_v1
    //@@ end
    //@@ fn crates/ripd/src/continuities.rs ContinuityStore::compaction_auto_schedule_spawn_job_v1
    //@@ alias serde_json::json json
    //@@ end
    //@@ fn crates/ripd/src/continuities.rs ContinuityStore::compaction_auto_spawn_job_v1
    //@@ alias serde_json::json json
    //@@ end
    //@@ fn crates/ripd/src/continuities.rs ContinuityStore::compaction_auto_run_spawned_job_v1
    //@@ alias serde_json::json json
    //@@ alias crate::compaction_summary::NewCumulativeCompactionSummaryV1 NewCumulativeCompactionSummaryV1
    //@@ end
}

