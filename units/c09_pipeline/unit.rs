//@@ unit c09_pipeline properties=C09,C07 noverus bounded=pipeline.cut_points_planned_executed_bracketed_idempotent_deterministic
// This unit carries no Verus obligations.  compaction_cut_points_v1 (built-in tuple Clone, filter_map), the executor
// compaction_auto_run_spawned_job_v1 (an immediately-invoked closure that captures `&mut created`, a nested fn and struct) and the
// summary renderer (HashMap iteration + sort_by) are outside what this Verus accepts.  Its clause is a BOUNDED stand-in run by
// units/c09_pipeline/witness.rs on the extracted real text of the whole pipeline: every history of up to 5 (quick) / 6 (thorough)
// frames over {message, unrelated job frame, manual checkpoint by id / by seq / at a non-boundary, in-flight compaction job}
// with at most three non-message frames, strides {0,1,2,3,7}, limits / max_new {unset,0,2,40}, caches absent and present,
// entry points auto / auto.schedule / dry run.  Never counted as proved.
fn main() {}
