// vx: label-insensitive
// Bounded end-to-end replay of the compaction pipeline: the REAL text (R1 only) of the cut-point planner, both auto entry
// points, both spawn functions, the executor, the manual checkpoint function, inflight detection, the checkpoint "latest wins"
// scan, the append_* writers they use, the whole summary renderer module and the summary constructor run against in-memory
// stand-ins for the log, the sidecar caches and the blob store.  Histories, strides, limits and cache modes are enumerated.
//@@ include units/c09_pipeline/scaffold.rs
// ---- enumeration and oracle (from the property statement) -----------------------------------------------------------------------
const T: &str = "t";
// the first one holds 17 distinct words with equal counts: which of them make the top-keyword cut must not depend on hash order
const CONTENTS: [&str; 4] = ["apple banana cherry damson elder figs grape hazel ivory jasmine kiwis lemon mango nectar olive peach quince", "alpha beta\nTODO: gamma", "beta alpha delta", "ERROR: alpha\n- [ ] beta"];
fn fresh(mode: u8) -> ContinuityStore {
    CP_WINDOW.with(|c| c.set(if mode == 2 { 1 } else { usize::MAX }));
    reset_scans(); CTR.with(|c| *c.borrow_mut() = 0); BLOBS.with(|b| b.borrow_mut().clear()); SIDECAR.with(|s| s.borrow_mut().clear()); FAULT_WRITE_AT.with(|f| *f.borrow_mut() = None);
    let st = ContinuityStore { workspace_root: PathBuf::from("/ws"), event_log: EventLog { frames: RefCell::new(Vec::new()) }, stream_cache: ContinuityStreamCache { mode, window: None }, sender: Sender, next_seq: Mutex::new(HashMap::new()) };
    let created = Event { id: "c0".into(), session_id: T.into(), timestamp_ms: 0, seq: 0, kind: EventKind::ContinuityCreated { workspace: "ws".into(), title: None } };
    st.event_log.append(&created).unwrap(); st.stream_cache.append_best_effort(&created);
    st
}
// history op codes: 0 message, 1 unrelated job frame, 2 manual checkpoint at the newest message (by id), 3 manual checkpoint at the first message (by seq),
// 4 manual checkpoint at a non-boundary seq (must be refused), 5 compaction job spawned and never ended (inflight)
fn build(st: &ContinuityStore, ops: &[u8]) -> Result<(), String> {
    let mut k = 0usize;
    for op in ops {
        let msgs: Vec<(u64, String)> = st.replay_events(T).unwrap().iter().filter(|e| matches!(e.kind, EventKind::ContinuityMessageAppended { .. })).map(|e| (e.seq, e.id.clone())).collect();
        let mk = |mid: Option<String>, seq: Option<u64>| CompactionCheckpointCumulativeV1Request { summary_markdown: Some("manual summary".into()), summary_artifact_id: None, to_message_id: mid, to_seq: seq, stride_messages: None, actor_id: "u".into(), origin: "o".into() };
        match *op {
            0 => { st.append_message(T, if k % 2 == 0 { "user".into() } else { "agent".into() }, "o".into(), CONTENTS[k % 4].to_string())?; k += 1; }
            1 => { st.append_job_spawned(T, "j-other", "other_kind", None, "u".into(), "o".into())?; }
            2 => { if let Some((_, id)) = msgs.last() { st.compaction_checkpoint_cumulative_v1(T, mk(Some(id.clone()), None))?; } }
            3 => { if let Some((s, _)) = msgs.first() { st.compaction_checkpoint_cumulative_v1(T, mk(None, Some(*s)))?; } }
            4 => {
                let head = st.replay_events(T).unwrap().last().unwrap().seq;
                let nb = (0..=head + 1).find(|s| !msgs.iter().any(|(m, _)| m == s)).unwrap();
                let before = st.event_log.frames.borrow().len();
                if st.compaction_checkpoint_cumulative_v1(T, mk(None, Some(nb))).is_ok() || st.event_log.frames.borrow().len() != before {
                    return Err(format!("VIOLATION manual checkpoint at non-message seq {nb} was accepted or wrote a frame"));
                }
            }
            _ => { st.append_job_spawned(T, "j-inflight", COMPACTION_JOB_KIND_SUMMARIZER_V1, None, "u".into(), "o".into())?; }
        }
    }
    Ok(())
}
fn describe(ops: &[u8]) -> Vec<&'static str> { ops.iter().map(|o| ["message", "other_frame", "manual_checkpoint(newest message id)", "manual_checkpoint(first message seq)", "manual_checkpoint(non-boundary seq)", "compaction job spawned, not ended"][*o as usize]).collect() }

struct Expect { cuts: Vec<(u64, u64, String, bool, Option<String>)> }
fn expected_cut_points(frames: &[Event], stride: u64, limit: u64) -> Expect {
    let msgs: Vec<&Event> = frames.iter().filter(|e| matches!(e.kind, EventKind::ContinuityMessageAppended { .. })).collect();
    let mut cuts = Vec::new();
    let mut k = msgs.len() as u64 / stride;
    while k >= 1 && (cuts.len() as u64) < limit {
        let m = msgs[(k * stride - 1) as usize];
        // checkpointed exactly when a checkpoint frame for that seq exists, the latest such frame (by stream order) winning
        let latest = frames.iter().filter(|e| matches!(&e.kind, EventKind::ContinuityCompactionCheckpointCreated { to_seq, .. } if *to_seq == m.seq)).last();
        cuts.push((k * stride, m.seq, m.id.clone(), latest.is_some(), latest.map(|e| match &e.kind { EventKind::ContinuityCompactionCheckpointCreated { checkpoint_id, .. } => checkpoint_id.clone(), _ => unreachable!() })));
        k -= 1;
    }
    Expect { cuts }
}

fn fail(what: &str, clause: &str, ops: &[u8], mode: u8, stride: u64, extra: String) -> ! {
    println!("WITNESS {{\"function\": {:?}, \"clause\": {:?}, \"history\": {:?}, \"cache_mode\": {:?}, \"stride_messages\": {}, \"detail\": {:?}}}",
        what, clause, describe(ops), if mode == 0 { "caches absent (truth paths)" } else if mode == 1 { "caches present" } else { "caches present, checkpoint back-scan limited to a window of the newest frame" }, stride, extra);
    std::process::exit(0)
}

fn main() {
    let args: Vec<String> = std::env::args().collect();
    let max_len: usize = args.get(3).and_then(|s| s.parse().ok()).unwrap_or(if std::env::var("VX_TIER").as_deref() == Ok("thorough") { 6 } else { 5 });
    for n in 0..=max_len { for code in 0..6usize.pow(n as u32) {
        let mut c = code; let ops: Vec<u8> = (0..n).map(|_| { let o = (c % 6) as u8; c /= 6; o }).collect();
        if ops.iter().filter(|o| **o != 0).count() > 3 { continue; }   // at most three non-message frames per history
        for mode in 0..=2u8 { for stride in [0u64, 1, 2, 3, 7] {
            let st = fresh(mode);
            if let Err(e) = build(&st, &ops) { if e.starts_with("VIOLATION") { fail("ContinuityStore::compaction_checkpoint_cumulative_v1", "manual_checkpoint_only_at_message_boundaries", &ops, mode, stride, e); } continue; }
            let frames0 = st.replay_events(T).unwrap();
            // ---- clause 1: cut points ----
            for limit in [None, Some(0u32), Some(2), Some(40)] {
                let res = st.compaction_cut_points_v1(T, CompactionCutPointsV1Request { stride_messages: Some(stride), limit });
                if stride == 0 { if res.is_ok() { fail("ContinuityStore::compaction_cut_points_v1", "stride_zero_refused", &ops, mode, stride, String::new()); } continue; }
                let lim = limit.unwrap_or(1).clamp(1, 32) as u64;
                let exp = expected_cut_points(&frames0, stride, lim);
                match res {
                    Err(e) => fail("ContinuityStore::compaction_cut_points_v1", "cut_points_are_exactly_the_k_stride_th_messages", &ops, mode, stride, format!("error {e}")),
                    Ok(r) => {
                        let got: Vec<(u64, u64, String, bool, Option<String>)> = r.cut_points.iter().map(|c| (c.target_message_ordinal, c.to_seq, c.to_message_id.clone(), c.already_checkpointed, c.latest_checkpoint_id.clone())).collect();
                        if got != exp.cuts { fail("ContinuityStore::compaction_cut_points_v1", "cut_points_are_exactly_the_k_stride_th_messages_and_checkpointed_iff_a_frame_for_that_seq_exists_latest_wins", &ops, mode, stride, format!("limit {limit:?}: got {got:?}, the history determines {:?}", exp.cuts)); }
                    }
                }
            }
            if stride == 0 { continue; }
            if st.event_log.frames.borrow().len() != frames0.len() { fail("ContinuityStore::compaction_cut_points_v1", "reading_cut_points_appends_nothing", &ops, mode, stride, String::new()); }
            // ---- clause 2: auto creates precisely the planned checkpoints, bracketed, coverage matches ----
            for max_new in [None, Some(0u32), Some(2), Some(40)] { for entry in 0..3u8 {
                // entry 0: compaction_auto_v1; 1: compaction_auto_schedule_v1 (execute, not blocking on inflight); 2: dry run through auto
                let st = fresh(mode); build(&st, &ops).unwrap();
                let before = st.replay_events(T).unwrap();
                let mx = max_new.unwrap_or(1).clamp(1, 32) as usize;
                let all = expected_cut_points(&before, stride, 32);
                let planned_exp: Vec<(u64, u64, String)> = all.cuts.iter().filter(|c| !c.3).take(mx).map(|c| (c.0, c.1, c.2.clone())).collect();
                let (status, planned, result, err): (String, Vec<(u64, u64, String)>, Vec<CompactionAutoResultCheckpointV1>, Option<String>) = match entry {
                    1 => { let r = st.compaction_auto_schedule_v1(T, CompactionAutoScheduleV1Request { stride_messages: Some(stride), max_new_checkpoints: max_new, block_on_inflight: Some(false), execute: Some(true), dry_run: Some(false), actor_id: "u".into(), origin: "o".into() }).unwrap();
                           (r.decision, r.planned.iter().map(|p| (p.target_message_ordinal, p.to_seq, p.to_message_id.clone())).collect(), r.result, r.error) }
                    _ => { let r = st.compaction_auto_v1(T, CompactionAutoV1Request { stride_messages: Some(stride), max_new_checkpoints: max_new, dry_run: Some(entry == 2), actor_id: "u".into(), origin: "o".into() }).unwrap();
                           (r.status, r.planned.iter().map(|p| (p.target_message_ordinal, p.to_seq, p.to_message_id.clone())).collect(), r.result, r.error) }
                };
                let fname = if entry == 1 { "ContinuityStore::compaction_auto_schedule_v1" } else { "ContinuityStore::compaction_auto_v1" };
                if planned != planned_exp { fail(fname, "planned_is_the_newest_uncheckpointed_cut_points_up_to_max_new", &ops, mode, stride, format!("max_new {max_new:?}: planned {planned:?}, the history determines {planned_exp:?}")); }
                let after = st.replay_events(T).unwrap();
                let new: Vec<&Event> = after[before.len()..].iter().collect();
                if format!("{:?}", &after[..before.len()]) != format!("{:?}", &before[..]) { fail(fname, "append_only", &ops, mode, stride, String::new()); }
                if planned.is_empty() || entry == 2 {
                    if !new.is_empty() { fail(fname, "nothing_to_do_or_dry_run_appends_nothing", &ops, mode, stride, format!("{} frame(s) appended", new.len())); }
                    continue;
                }
                if status != "completed" { fail(fname, "auto_creates_precisely_the_planned_checkpoints", &ops, mode, stride, format!("max_new {max_new:?}: status {status} error {err:?}; planned {planned:?}")); }
                let mut asc = planned.clone(); asc.sort_by(|a, b| a.1.cmp(&b.1));
                let cps: Vec<&Event> = new.iter().filter(|e| matches!(e.kind, EventKind::ContinuityCompactionCheckpointCreated { .. })).cloned().collect();
                let spawned = new.iter().filter(|e| matches!(&e.kind, EventKind::ContinuityJobSpawned { job_kind, .. } if job_kind == COMPACTION_JOB_KIND_SUMMARIZER_V1)).count();
                let ended = new.iter().filter(|e| matches!(&e.kind, EventKind::ContinuityJobEnded { job_kind, status, .. } if job_kind == COMPACTION_JOB_KIND_SUMMARIZER_V1 && status == "completed")).count();
                let decided = new.iter().filter(|e| matches!(e.kind, EventKind::ContinuityCompactionAutoScheduleDecided { .. })).count();
                let shape_ok = spawned == 1 && ended == 1 && matches!(new.first().map(|e| &e.kind), Some(EventKind::ContinuityJobSpawned { .. })) && matches!(new.last().map(|e| &e.kind), Some(EventKind::ContinuityJobEnded { .. }))
                    && new.len() == cps.len() + 2 + decided && decided == (entry == 1) as usize;
                if !shape_ok { fail(fname, "one_job_spawned_and_one_job_ended_frame_bracket_the_checkpoints", &ops, mode, stride, format!("appended kinds: spawned {spawned} ended {ended} decided {decided} checkpoints {} total {}", cps.len(), new.len())); }
                if cps.len() != asc.len() || result.len() != asc.len() { fail(fname, "auto_creates_precisely_the_planned_checkpoints", &ops, mode, stride, format!("planned {} created {} reported {}", asc.len(), cps.len(), result.len())); }
                for (i, cp) in cps.iter().enumerate() {
                    let EventKind::ContinuityCompactionCheckpointCreated { checkpoint_id, summary_artifact_id, to_seq, to_message_id, summary_kind, .. } = &cp.kind else { unreachable!() };
                    if *to_seq != asc[i].1 || to_message_id.as_deref() != Some(asc[i].2.as_str()) || result[i].to_seq != asc[i].1 || result[i].to_message_id != asc[i].2 || &result[i].checkpoint_id != checkpoint_id || &result[i].summary_artifact_id != summary_artifact_id {
                        fail(fname, "auto_creates_precisely_the_planned_checkpoints", &ops, mode, stride, format!("checkpoint {i}: frame ({to_seq}, {to_message_id:?}) reported ({}, {}) planned ({}, {})", result[i].to_seq, result[i].to_message_id, asc[i].1, asc[i].2)); }
                    match read_compaction_summary_v1(Path::new("/ws"), summary_artifact_id) {
                        Err(e) => fail(fname, "each_checkpoint_references_a_readable_summary", &ops, mode, stride, format!("checkpoint {i}: {e}")),
                        Ok(s) => if s.coverage_to_seq() != *to_seq || s.coverage_thread_id() != T || s.kind() != summary_kind || s.coverage.to_message_id != *to_message_id {
                            fail(fname, "summary_coverage_matches_the_checkpoint", &ops, mode, stride, format!("checkpoint {i}: frame to_seq {to_seq} summary covers to_seq {} thread {}", s.coverage_to_seq(), s.coverage_thread_id())); }
                    }
                }
                // the planned cut points now count as checkpointed, nothing else changed status
                let again = st.compaction_cut_points_v1(T, CompactionCutPointsV1Request { stride_messages: Some(stride), limit: Some(32) }).unwrap();
                for c in &again.cut_points { let was = all.cuts.iter().find(|x| x.1 == c.to_seq).map(|x| x.3).unwrap_or(false); let now_exp = was || planned.iter().any(|p| p.1 == c.to_seq);
                    if c.already_checkpointed != now_exp { fail(fname, "a_cut_point_counts_as_checkpointed_exactly_when_a_frame_for_that_seq_exists", &ops, mode, stride, format!("after the run cut point at seq {} reports already_checkpointed={}", c.to_seq, c.already_checkpointed)); } }
                // ---- clause 3: repeat until nothing new; that run appends nothing ----
                let mut guard = 0;
                loop {
                    let len_before = st.event_log.frames.borrow().len();
                    let r = st.compaction_auto_v1(T, CompactionAutoV1Request { stride_messages: Some(stride), max_new_checkpoints: max_new, dry_run: None, actor_id: "u".into(), origin: "o".into() }).unwrap();
                    if r.planned.is_empty() { if st.event_log.frames.borrow().len() != len_before || r.status != "noop" { fail(fname, "repeated_with_nothing_new_appends_nothing", &ops, mode, stride, format!("status {}", r.status)); } break; }
                    guard += 1; if guard > 40 { fail(fname, "repetition_reaches_a_fixed_point", &ops, mode, stride, "auto never reports noop".into()); }
                }
                // ---- clause 4: the same history produces the same summary text (fresh stores, fresh hash seeds) ----
                if entry == 0 {
                    let texts = |st: &ContinuityStore| -> Vec<String> { st.replay_events(T).unwrap().iter().filter_map(|e| match &e.kind { EventKind::ContinuityCompactionCheckpointCreated { summary_artifact_id, .. } => read_compaction_summary_v1(Path::new("/ws"), summary_artifact_id).ok().map(|s| s.summary_markdown().to_string()), _ => None }).collect() };
                    let a = texts(&st);
                    let st2 = fresh(mode); build(&st2, &ops).unwrap();
                    loop { let r = st2.compaction_auto_v1(T, CompactionAutoV1Request { stride_messages: Some(stride), max_new_checkpoints: max_new, dry_run: None, actor_id: "u".into(), origin: "o".into() }).unwrap(); if r.planned.is_empty() { break; } }
                    let b = texts(&st2);
                    if a != b { fail(fname, "same_history_same_summary_text", &ops, mode, stride, "two runs over the same history rendered different summaries".into()); }
                }
            } }
            // ---- overlapping jobs: two requests planned before either job ran (what two back-to-back POSTs do); the runners then execute
            // one after the other, the second finding its cut points checkpointed already. Every spawned job is ended exactly once. ----
            {
                let st = fresh(mode); build(&st, &ops).unwrap();
                let before = st.replay_events(T).unwrap();
                let req = || CompactionAutoV1Request { stride_messages: Some(stride), max_new_checkpoints: Some(2), dry_run: Some(false), actor_id: "u".into(), origin: "o".into() };
                if let (Ok(first), Ok(second)) = (st.compaction_auto_spawn_job_v1(T, req()), st.compaction_auto_spawn_job_v1(T, req())) {
                    let mut jobs: Vec<String> = Vec::new();
                    for r in [&first, &second] { if let Some(job_id) = r.job_id.as_ref() {
                        jobs.push(job_id.clone());
                        let _ = st.compaction_auto_run_spawned_job_v1(T, job_id, r.stride_messages, &r.cut_rule_id, &r.planned, ("u", "o"));
                    } }
                    let after = st.replay_events(T).unwrap();
                    for job in &jobs {
                        let spawned = after[before.len()..].iter().filter(|e| matches!(&e.kind, EventKind::ContinuityJobSpawned { job_id, .. } if job_id == job)).count();
                        let ended = after[before.len()..].iter().filter(|e| matches!(&e.kind, EventKind::ContinuityJobEnded { job_id, .. } if job_id == job)).count();
                        if spawned != 1 || ended != 1 { fail("ContinuityStore::compaction_auto_run_spawned_job_v1", "every_spawned_job_is_ended_exactly_once_also_when_another_job_checkpointed_its_cut_points_first", &ops, mode, stride, format!("job {job}: {spawned} job-spawned frame(s), {ended} job-ended frame(s)")); }
                    }
                }
            }
            // ---- inflight: schedule with block_on_inflight skips while a compaction job is spawned and not ended (cache present only; best effort) ----
            if mode == 1 { for finished_job_after in [false, true] {
                let st = fresh(mode); build(&st, &ops).unwrap();
                // a NEWER summarizer job that has already ended does not hide an older one that has not
                if finished_job_after {
                    let _ = st.append_job_spawned(T, "j-newer", COMPACTION_JOB_KIND_SUMMARIZER_V1, None, "u".into(), "o".into());
                    let _ = st.append_job_ended(T, JobEndedPayload { job_id: "j-newer".into(), job_kind: COMPACTION_JOB_KIND_SUMMARIZER_V1.into(), status: "completed".into(), result: None, error: None, actor_id: "u".into(), origin: "o".into() });
                }
                let before = st.replay_events(T).unwrap();
                let inflight = { let mut ended = std::collections::HashSet::new(); let mut f = false;
                    for e in before.iter().rev() { match &e.kind { EventKind::ContinuityJobEnded { job_id, job_kind, .. } if job_kind == COMPACTION_JOB_KIND_SUMMARIZER_V1 => { ended.insert(job_id.clone()); }
                        EventKind::ContinuityJobSpawned { job_id, job_kind, .. } if job_kind == COMPACTION_JOB_KIND_SUMMARIZER_V1 && !ended.contains(job_id) => { f = true; } _ => {} } } f };
                let r = st.compaction_auto_schedule_v1(T, CompactionAutoScheduleV1Request { stride_messages: Some(stride), max_new_checkpoints: None, block_on_inflight: Some(true), execute: Some(true), dry_run: Some(false), actor_id: "u".into(), origin: "o".into() }).unwrap();
                let after = st.replay_events(T).unwrap();
                let cps = after[before.len()..].iter().filter(|e| matches!(e.kind, EventKind::ContinuityCompactionCheckpointCreated { .. })).count();
                if inflight && !r.planned.is_empty() && (r.decision != "skipped_inflight" || cps != 0) { fail("ContinuityStore::compaction_auto_schedule_v1", "inflight_job_blocks_a_new_one", &ops, mode, stride, format!("decision {} with a compaction job in flight; {} checkpoint(s) created", r.decision, cps)); }
                if !inflight && !r.planned.is_empty() && r.decision != "completed" { fail("ContinuityStore::compaction_auto_schedule_v1", "auto_creates_precisely_the_planned_checkpoints", &ops, mode, stride, format!("decision {} error {:?}", r.decision, r.error)); }
            } }
        } }
    } }
}
