// Replayed by the checkpoint enumerator (shared with unit c14_checkpoint): the real rewind on the real file system, including stored
// records that name paths outside the root.
//@@ include units/c14_checkpoint/witness.rs
