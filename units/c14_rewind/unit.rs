//@@ unit c14_rewind properties=C14,C13
// Workspace::rewind_to_checkpoint on the real text (its apply step is an immediately invoked closure, which this Verus accepts because it
// captures nothing mutably).  C13: every file-system call of a rewind - reading the record, probing, reading, writing, creating
// directories, removing, and the undo after a failure - is made at an absolute path lexically inside the workspace root, whatever paths the
// stored record names (a record is data: a path with a parent segment or an absolute path is refused before anything is touched; this
// obligation failed before the repair of defect F16).  C14: after a successful rewind every file the record covers was either written with
// exactly the bytes read from its stored copy, or - if recorded as absent - removed or seen to be absent.  The undo map (BTreeMap, iterated
// by value) is replaced by an opaque container with the same three operations (R11).
#![allow(unused_imports, dead_code, unused_variables, unused_mut)]
use vstd::prelude::*;
use vstd::std_specs::iter::IteratorSpec;

//@@ include prelude/path_model.rs

verus! {
pub mod io {
    use vstd::prelude::*;
    verus! {
    pub struct Error { pub filler: u8 }
    pub enum ErrorKind { NotFound, InvalidInput, InvalidData, Other }
    impl Error { #[verifier::external_body] pub fn new<E>(kind: ErrorKind, e: E) -> Error { unimplemented!() } }
    pub type Result<T> = std::result::Result<T, Error>;
    } // verus!
}
pub assume_specification<T>[ <[T]>::reverse ](s: &mut [T])
    ensures final(s)@ == old(s)@.reverse();
pub uninterp spec fn ws_root() -> Path;
pub open spec fn fs_ok(p: Path) -> bool { is_abs(p) && within(p, ws_root()) }
// an ancestor of the root (creating it is a no-op: it exists)
pub open spec fn on_the_way_to_root(p: Path) -> bool { exists|t: Seq<Component>| #![auto] comps(ws_root()) == comps(p) + t }
pub open spec fn rel_clean(p: Path) -> bool { !is_abs(p) && clean(comps(p)) }
// timeless facts about what a rewind did
pub uninterp spec fn read_file(p: Path, bytes: Seq<u8>) -> bool;      // `bytes` were read from p
pub uninterp spec fn wrote_file(p: Path, bytes: Seq<u8>) -> bool;     // `bytes` were written to p
pub uninterp spec fn removed_file(p: Path) -> bool;                   // p was removed
pub uninterp spec fn seen_absent(p: Path) -> bool;                    // a probe found nothing at p

impl Path {
    #[verifier::external_body] pub fn exists(&self) -> (r: bool)
        requires fs_ok(*self),                                          // [rewind_to_checkpoint.fs.exists.requires_absolute_path_inside_root]
        ensures !r ==> seen_absent(*self),
    { unimplemented!() }
    #[verifier::external_body] pub fn parent(&self) -> (r: Option<&Path>)
        ensures r matches Some(q) ==> (is_abs(*self) ==> is_abs(*q)) && comps(*self).len() > 0 && comps(*q) == comps(*self).drop_last()
            && forall|base: Path| (#[trigger] within(*self, base) && comps(*self).len() > comps(base).len()) ==> within(*q, base),
    { unimplemented!() }
}
pub mod fs {
    use super::*;
    verus! {
    #[verifier::external_body] pub fn read<P: AsPath>(p: P) -> (r: io::Result<Vec<u8>>)
        requires fs_ok(p.path_spec()),                                  // [rewind_to_checkpoint.fs.read.requires_absolute_path_inside_root]
        ensures r matches Ok(b) ==> read_file(p.path_spec(), b@),
    { unimplemented!() }
    #[verifier::external_body] pub fn write<P: AsPath, B: AsBytes>(p: P, b: B) -> (r: io::Result<()>)
        requires fs_ok(p.path_spec()),                                  // [rewind_to_checkpoint.fs.write.requires_absolute_path_inside_root]
        ensures r is Ok ==> wrote_file(p.path_spec(), b.bytes_spec()),
    { unimplemented!() }
    #[verifier::external_body] pub fn create_dir_all<P: AsPath>(p: P) -> io::Result<()>
        requires is_abs(p.path_spec()) && (within(p.path_spec(), ws_root()) || on_the_way_to_root(p.path_spec())),      // [rewind_to_checkpoint.fs.create_dir_all.requires_a_directory_inside_root_or_on_the_way_to_it]
    { unimplemented!() }
    #[verifier::external_body] pub fn remove_file<P: AsPath>(p: P) -> (r: io::Result<()>)
        requires fs_ok(p.path_spec()),                                  // [rewind_to_checkpoint.fs.remove_file.requires_absolute_path_inside_root]
        ensures r is Ok ==> removed_file(p.path_spec()),
    { unimplemented!() }
    } // verus!
}
pub trait AsBytes: Sized { spec fn bytes_spec(self) -> Seq<u8>; }
impl<'a> AsBytes for &'a Vec<u8> { open spec fn bytes_spec(self) -> Seq<u8> { self@ } }
impl AsBytes for Vec<u8> { open spec fn bytes_spec(self) -> Seq<u8> { self@ } }
impl<'a> AsPath for &'a &'a Path { open spec fn path_spec(self) -> Path { **self } }
pub mod serde_json {
    use super::*;
    verus! {
    pub struct Error { pub filler: u8 }
    #[verifier::external_body] pub fn from_slice<T>(b: &Vec<u8>) -> (r: Result<T, Error>) ensures r matches Ok(v) ==> decoded_from(b@, v) { unimplemented!() }       // whatever the record says
    pub uninterp spec fn decoded_from<T>(b: Seq<u8>, v: T) -> bool;
    } // verus!
}
pub open spec fn single_normal(p: Path) -> bool { !is_abs(p) && comps(p).len() == 1 && comps(p)[0] is Normal }
#[verifier::external_body]
pub proof fn axiom_plain_literals()
    ensures single_normal(path_of_str("files"@)), single_normal(path_of_str("checkpoint.json"@)),
{}
pub proof fn lemma_single_normal_clean(p: Path)
    requires single_normal(p),
    ensures !is_abs(p), clean(comps(p)), forall|i: int| 0 <= i < comps(p).len() ==> !(#[trigger] comps(p)[i] is CurDir),
{}

//@@ item crates/rip-workspace/src/lib.rs struct CheckpointFile dropderive=Clone
//@@ item crates/rip-workspace/src/lib.rs struct Checkpoint dropderive=Clone
//@@ item crates/rip-workspace/src/lib.rs struct Workspace

// the undo record is a BTreeMap<String, Option<Vec<u8>>> iterated by value in the source: replaced by a Vec of the same rows (R11); only
// the paths of its rows matter here (each is one the first loop validated)

// what C14 says about one covered file after a successful rewind: the file at <root>/<path> was written with exactly the bytes read from
// the stored copy <checkpoint>/files/<path>, or - recorded as absent - it was removed or a probe found nothing there
pub open spec fn record_read(session: Seq<char>, id: Seq<char>, cp: Checkpoint) -> bool { exists|p: Path, b: Seq<u8>| #![auto] read_file(p, b) && serde_json::decoded_from(b, cp) }
pub open spec fn target_of(ws: Workspace, f: CheckpointFile, t: Path) -> bool {
    comps(t) == comps(ws.root) + join_tail(ws.root, path_of_str(f.path@))
}
pub open spec fn copy_of(cp_root: Path, f: CheckpointFile, s: Path) -> bool {
    exists|d: Path| #![auto] comps(d) == comps(cp_root) + join_tail(cp_root, path_of_str("files"@)) && comps(s) == comps(d) + join_tail(d, path_of_str(f.path@))
}
pub open spec fn restored(ws: Workspace, cp_root: Path, f: CheckpointFile) -> bool {
    exists|t: Path| #[trigger] target_of(ws, f, t) && (
        if f.exists { exists|b: Seq<u8>, s: Path| #[trigger] read_file(s, b) && wrote_file(t, b) && copy_of(cp_root, f, s) }
        else { removed_file(t) || seen_absent(t) })
}

pub open spec fn all_restored(ws: Workspace, cp_root: Path, cp: Checkpoint) -> bool { forall|k: int| 0 <= k < cp.files@.len() ==> restored(ws, cp_root, #[trigger] cp.files@[k]) }
pub proof fn lemma_within_files(cp_root: Path, files: Path)
    requires single_normal(files)
    ensures clean(comps(files)), !is_abs(files),
{}
// the parent of a path inside the root is inside the root or an ancestor of it
pub proof fn lemma_parent_ok(p: Path, q: Path)
    requires within(p, ws_root()), comps(p).len() > 0, comps(q) == comps(p).drop_last(),
    ensures within(q, ws_root()) || on_the_way_to_root(q),
{
    let t = choose|t: Seq<Component>| #![auto] comps(p) == comps(ws_root()) + t && clean(t);
    if t.len() > 0 {
        assert(comps(q) =~= comps(ws_root()) + t.drop_last());
        assert(clean(t.drop_last()));
    } else {
        assert(comps(p) =~= comps(ws_root()));
        assert(comps(ws_root()) =~= comps(q) + seq![comps(ws_root()).last()]);
    }
}
// std: an absolute path starts with a root (or, on Windows, a prefix) component (trusted)
#[verifier::external_body]
pub proof fn axiom_abs_starts_with_root(p: Path)
    ensures is_abs(p) ==> comps(p).len() > 0 && (comps(p)[0] is RootDir || comps(p)[0] is Prefix),
{}

//@@ fn crates/rip-workspace/src/lib.rs is_plain_name
//@@ sig
    ensures ret ==> single_normal(path_of_str(id@)),      // [rewind_to_checkpoint.ids_are_accepted_only_as_plain_names]
//@@ entry
    proof { axiom_abs_starts_with_root(path_of_str(id@)); }
//@@ end

impl Workspace {
    pub open spec fn wf(&self) -> bool {
        &&& self.root == ws_root() && is_abs(self.root) && is_abs(self.checkpoints_dir) && comps(self.root).len() > 0
        &&& within(self.checkpoints_dir, self.root)
    }
    // contract of safe_join as proved in unit c13_resolvers
    #[verifier::external_body]
    pub fn safe_join(&self, rel: &Path) -> (ret: io::Result<Path>)
        ensures ret matches Ok(p) ==> within(p, self.root) && rel_clean(*rel) && (is_abs(self.root) ==> is_abs(p)),
    { unimplemented!() }

    //@@ fn crates/rip-workspace/src/lib.rs Workspace::rewind_to_checkpoint r7=0,1 r7v=2
    //@@ rewrite let mut undo = BTreeMap::new(); ==>> let mut undo: Vec<(String, Option<Vec<u8>>)> = Vec::new();
    //@@ rewrite undo.insert(file.path.clone(), Some(bytes)); ==>> undo.push((file.path.clone(), Some(bytes)));
    //@@ rewrite undo.insert(file.path.clone(), None); ==>> undo.push((file.path.clone(), None));
    //@@ rewrite (|| -> io::Result<()> { ==>> (|| -> (r: io::Result<()>) requires self.wf(), fs_ok(checkpoint_root), forall|k: int| 0 <= k < checkpoint.files@.len() ==> rel_clean(path_of_str((#[trigger] checkpoint.files@[k]).path@)) ensures r is Ok ==> forall|k: int| 0 <= k < checkpoint.files@.len() ==> restored(*self, checkpoint_root, #[trigger] checkpoint.files@[k]) {
    //@@ rewrite fs::create_dir_all(parent)?; ==>> proof { lemma_parent_ok(target_path, *parent); } fs::create_dir_all(parent)?;
    //@@ rewrite let _ = fs::create_dir_all(parent); ==>> proof { lemma_parent_ok(path, *parent); } let _ = fs::create_dir_all(parent);
    //@@ rewrite return Err(err); } Ok(()) ==>> return Err(err); } proof { assert(read_file(metadata_path, payload@)); assert(serde_json::decoded_from(payload@, checkpoint)); assert(record_read(session_id@, checkpoint_id@, checkpoint)); assert(all_restored(*self, checkpoint_root, checkpoint)); } Ok(())
    //@@ sig
        requires
            self.wf(),      // the ids are whatever the caller passes: the hook matches them against the `id` FIELD of stored records, which is data (defect F19)
        ensures
            // [rewind_to_checkpoint.every_covered_file_has_the_stored_bytes_or_is_absent]
            ret is Ok ==> exists|cp: Checkpoint, cp_root: Path| record_read(session_id@, checkpoint_id@, cp) && #[trigger] all_restored(*self, cp_root, cp),
    //@@ entry
        proof {
            axiom_plain_literals();
            if single_normal(path_of_str(session_id@)) { lemma_single_normal_clean(path_of_str(session_id@)); }
            if single_normal(path_of_str(checkpoint_id@)) { lemma_single_normal_clean(path_of_str(checkpoint_id@)); }
            lemma_single_normal_clean(path_of_str("files"@));
            lemma_single_normal_clean(path_of_str("checkpoint.json"@));
        }
    //@@ loop 0
        invariant __i0 <= __s0.len(), __s0@ == checkpoint.files@, self.wf(),
            forall|k: int| 0 <= k < __i0 ==> rel_clean(path_of_str((#[trigger] checkpoint.files@[k]).path@)),      // [rewind_to_checkpoint.every_stored_path_is_validated_before_anything_is_touched]
            forall|i: int| 0 <= i < undo@.len() ==> rel_clean(path_of_str((#[trigger] undo@[i]).0@)),
        decreases __s0.len() - __i0
    //@@ loop 1
        invariant __i1 <= __s1.len(), __s1@ == checkpoint.files@, self.wf(), fs_ok(checkpoint_root),
            forall|k: int| 0 <= k < __i1 ==> restored(*self, checkpoint_root, #[trigger] checkpoint.files@[k]),      // [rewind_to_checkpoint.each_file_written_with_the_bytes_of_its_stored_copy_or_removed]
            forall|k: int| 0 <= k < checkpoint.files@.len() ==> rel_clean(path_of_str((#[trigger] checkpoint.files@[k]).path@)),
        decreases __s1.len() - __i1
    //@@ loopbody 1
        proof { axiom_plain_literals(); lemma_single_normal_clean(path_of_str("files"@)); }
    //@@ loopend 1
        proof { assert(target_of(*self, *file, target_path)); assert(restored(*self, checkpoint_root, *file)); }
    //@@ loop 2
        invariant self.wf(), forall|i: int| 0 <= i < __v2@.len() ==> rel_clean(path_of_str((#[trigger] __v2@[i]).0@)),
        decreases __v2@.len()
    //@@ end
}

} // verus!
fn main() {}
