//@@ unit c09_cutpoints properties=C09,C02,C04 forbid=^(append|append_[a-z_]+|create_continuity(_locked)?|rebuild_truth|truncate|set_len|remove_file|write|write_all)$
// compaction_cut_points_v1, the capability that plans cut points (C09: "cut points are exactly the k*stride-th messages of the thread,
// identified by that message's seq and id; a cut point counts as checkpointed exactly when a checkpoint frame for that seq exists, the
// latest such frame winning").  The real text is verified against the truth stream of the thread: every cache answer is assumed to be
// either absent or equal to what the truth stream determines (that is C04's subject, decided elsewhere), every replay returns the truth
// stream.  Five closure-heavy expressions are replaced by stubs through exact-text rewrites (R11); each stub's contract states what the
// replaced text computes and is part of the trusted base; if the text changes the anchor is lost and the unit is not decided.
#![allow(unused_imports, dead_code, unused_variables, unused_mut)]
use vstd::prelude::*;
use vstd::std_specs::iter::IteratorSpec;
use std::collections::HashMap;

//@@ include prelude/kernel_model.rs
//@@ include prelude/strings.rs

verus! {
global size_of usize == 8;

#[verifier::external_body] pub fn vfmt() -> String { unimplemented!() }        // R9
pub mod io { use vstd::prelude::*; verus! { pub struct Error { pub filler: u8 } pub type Result<T> = std::result::Result<T, Error>; } }
// ---- the thread's truth stream and what the property reads off it -------------------------------------------------------------
pub uninterp spec fn truth(id: Seq<char>) -> Seq<Event>;            // frames of the thread in the event log at the time of the call
pub uninterp spec fn sidecar_present(id: Seq<char>) -> bool;         // the full per-thread sidecar can be read
pub type MsgRow = (u64, Seq<char>);                                  // (seq, frame id) of a message frame
pub type CkRow = (u64, u64, Seq<char>);                              // (to_seq, seq, checkpoint id) of a checkpoint frame

pub open spec fn msg_rows(ev: Seq<Event>) -> Seq<MsgRow>
    decreases ev.len()
{
    if ev.len() == 0 { seq![] } else {
        let r = msg_rows(ev.drop_last());
        match ev.last().kind { EventKind::ContinuityMessageAppended { .. } => r.push((ev.last().seq, ev.last().id@)), _ => r }
    }
}
pub open spec fn ck_rows(ev: Seq<Event>) -> Seq<CkRow>
    decreases ev.len()
{
    if ev.len() == 0 { seq![] } else {
        let r = ck_rows(ev.drop_last());
        match ev.last().kind { EventKind::ContinuityCompactionCheckpointCreated { checkpoint_id, to_seq, .. } => r.push((to_seq, ev.last().seq, checkpoint_id@)), _ => r }
    }
}
// "the latest such frame (by stream order) winning": among the checkpoint frames at or before `max`, the greatest to_seq, then the greatest seq
pub open spec fn better(cur: Option<CkRow>, row: CkRow, max: u64) -> Option<CkRow> {
    if row.0 > max { cur } else { match cur {
        None => Some(row),
        Some(c) => if row.0 > c.0 || (row.0 == c.0 && row.1 > c.1) { Some(row) } else { cur },
    } }
}
pub open spec fn best_row(rows: Seq<CkRow>, max: u64) -> Option<CkRow>
    decreases rows.len()
{
    if rows.len() == 0 { None } else { better(best_row(rows.drop_last(), max), rows.last(), max) }
}
pub open spec fn mview(v: Seq<(u64, String)>) -> Seq<MsgRow> { v.map_values(|r: (u64, String)| (r.0, r.1@)) }
pub open spec fn cview(v: Seq<(u64, u64, String)>) -> Seq<CkRow> { v.map_values(|r: (u64, u64, String)| (r.0, r.1, r.2@)) }
pub open spec fn min(a: int, b: int) -> int { if a <= b { a } else { b } }

// what C09 says about one planned cut point: it is the ord-th message of the thread, identified by that message's seq and id; it counts as
// checkpointed exactly when a checkpoint frame for that seq exists, the latest such frame winning
pub open spec fn cut_ok(cp: CompactionCutPointV1, ord: int, tid: Seq<char>) -> bool {
    let m = msg_rows(truth(tid));
    let best = best_row(ck_rows(truth(tid)), cp.to_seq);
    let found = best is Some && best->Some_0.0 == cp.to_seq;
    &&& cp.target_message_ordinal == ord
    &&& 1 <= ord <= m.len()
    &&& cp.to_seq == m[ord - 1].0
    &&& cp.to_message_id@ == m[ord - 1].1
    &&& cp.already_checkpointed == found
    &&& found ==> cp.latest_checkpoint_id is Some && cp.latest_checkpoint_id->Some_0@ == best->Some_0.2
    &&& !found ==> cp.latest_checkpoint_id is None
}

// best_row in the words of the property: a frame for exactly `max` exists iff the winner's to_seq is `max`, and then no such frame is later
pub proof fn lemma_best_row(rows: Seq<CkRow>, max: u64)
    ensures
        best_row(rows, max) is Some ==> best_row(rows, max)->Some_0.0 <= max && rows.contains(best_row(rows, max)->Some_0),
        forall|i: int| 0 <= i < rows.len() && rows[i].0 <= max ==> best_row(rows, max) is Some
            && (rows[i].0 < best_row(rows, max)->Some_0.0 || (rows[i].0 == best_row(rows, max)->Some_0.0 && rows[i].1 <= best_row(rows, max)->Some_0.1)),
    decreases rows.len()
{
    if rows.len() > 0 {
        lemma_best_row(rows.drop_last(), max);
        let prev = best_row(rows.drop_last(), max);
        assert forall|i: int| 0 <= i < rows.len() && rows[i].0 <= max implies best_row(rows, max) is Some
            && (rows[i].0 < best_row(rows, max)->Some_0.0 || (rows[i].0 == best_row(rows, max)->Some_0.0 && rows[i].1 <= best_row(rows, max)->Some_0.1)) by {
            if i < rows.len() - 1 { assert(rows.drop_last()[i] == rows[i]); }
        }
        if best_row(rows, max) is Some {
            if best_row(rows, max) == prev { let w = choose|j: int| 0 <= j < rows.drop_last().len() && rows.drop_last()[j] == prev->Some_0; assert(rows[w] == prev->Some_0); }
            else { assert(rows[rows.len() - 1] == best_row(rows, max)->Some_0); }
        }
    }
}
// [cutpoints.checkpointed_exactly_when_a_frame_for_that_seq_exists_latest_wins]
pub proof fn lemma_checkpointed_iff_frame_exists(rows: Seq<CkRow>, max: u64)
    ensures
        (best_row(rows, max) is Some && best_row(rows, max)->Some_0.0 == max) <==> (exists|i: int| 0 <= i < rows.len() && rows[i].0 == max),
        (best_row(rows, max) is Some && best_row(rows, max)->Some_0.0 == max) ==>
            forall|i: int| 0 <= i < rows.len() && rows[i].0 == max ==> rows[i].1 <= best_row(rows, max)->Some_0.1,
{
    lemma_best_row(rows, max);
    if best_row(rows, max) is Some && best_row(rows, max)->Some_0.0 == max {
        let b = best_row(rows, max)->Some_0;
        let w = choose|j: int| 0 <= j < rows.len() && rows[j] == b;
        assert(rows[w].0 == max);
    }
}

pub struct ContinuityStreamCache { pub filler: u8 }
impl ContinuityStreamCache {
    // ASSUMED (C04's subject, decided in units c04_*): a cache answer is absent or what the truth stream determines
    #[verifier::external_body] pub fn message_count_messages_runs_v1(&self, id: &str) -> (r: io::Result<Option<u64>>)
        ensures r matches Ok(Some(c)) ==> c == msg_rows(truth(id@)).len(),
    { unimplemented!() }
    #[verifier::external_body] pub fn message_by_ordinal_messages_runs_v1(&self, id: &str, ordinal: u64) -> (r: io::Result<Option<(u64, String)>>)
        ensures r matches Ok(Some(row)) ==> 1 <= ordinal <= msg_rows(truth(id@)).len() && (row.0, row.1@) == msg_rows(truth(id@))[ordinal - 1],
    { unimplemented!() }
    #[verifier::external_body] pub fn try_read_last_seq(&self, id: &str) -> (r: io::Result<Option<u64>>)
        ensures (r matches Ok(Some(_x))) == sidecar_present(id@),
    { unimplemented!() }
    #[verifier::external_body] pub fn latest_compaction_checkpoint_before_or_at_seq_v1(&self, id: &str, max_to_seq: u64) -> (r: io::Result<Option<Event>>)
        ensures
            r matches Ok(Some(e)) ==> (e.kind matches EventKind::ContinuityCompactionCheckpointCreated { checkpoint_id, to_seq, .. }
                && best_row(ck_rows(truth(id@)), max_to_seq) == Some((to_seq, e.seq, checkpoint_id@))),
            r matches Ok(None) ==> sidecar_present(id@) ==> best_row(ck_rows(truth(id@)), max_to_seq) is None,
    { unimplemented!() }
}
pub struct ContinuityStore { pub stream_cache: ContinuityStreamCache, pub workspace_root: PathBuf }
//@@ item crates/ripd/src/continuities.rs struct CompactionCutPointsV1Request dropderive=Clone
//@@ item crates/ripd/src/continuities.rs struct CompactionCutPointsV1Response dropderive=Clone
//@@ item crates/ripd/src/continuities.rs struct CompactionCutPointV1 dropderive=Clone
pub assume_specification<T>[ Option::<Option<T>>::flatten ](o: Option<Option<T>>) -> (r: Option<T>)
    ensures r == (match o { Some(Some(v)) => Some(v), _ => None });

// ---- stubs for the rewritten expressions (trusted: each states what the replaced text computes) -----------------------------------
#[verifier::external_body] pub fn message_rows(events: &Vec<Event>) -> (r: Vec<(u64, String)>)
    ensures mview(r@) == msg_rows(events@),
{ unimplemented!() }
#[verifier::external_body] pub fn checkpoint_rows(events: &Vec<Event>) -> (r: Vec<(u64, u64, String)>)
    ensures cview(r@) == ck_rows(events@),
{ unimplemented!() }
#[verifier::external_body] pub fn or_nth_row(o: Option<(u64, String)>, rows: &Option<Vec<(u64, String)>>, ordinal: u64) -> (r: Option<(u64, String)>)
    requires ordinal >= 1,
    ensures r == (if o is Some { o } else if rows is Some && ordinal - 1 < rows->Some_0@.len() { Some(rows->Some_0@[ordinal - 1]) } else { None }),
{ unimplemented!() }
#[verifier::external_body] pub fn vget_cloned(rows: &Vec<(u64, String)>, idx: usize) -> (r: Option<(u64, String)>)
    ensures r == (if idx < rows@.len() { Some(rows@[idx as int]) } else { None }),
{ unimplemented!() }
#[verifier::external_body] pub fn vclamp(v: u32, lo: u32, hi: u32) -> (r: u32) requires lo <= hi ensures lo <= r <= hi, (lo <= v <= hi ==> r == v), (v < lo ==> r == lo), (v > hi ==> r == hi) { unimplemented!() }


// ---- manual checkpoint (compaction_checkpoint_cumulative_v1) -----------------------------------------------------------------------
//@@ item crates/ripd/src/continuities.rs struct CompactionCheckpointCumulativeV1Request dropderive=Clone
//@@ item crates/ripd/src/continuities.rs struct CompactionCheckpointCreatedPayload
//@@ item crates/ripd/src/compaction_summary.rs struct NewCumulativeCompactionSummaryV1 dropderive=Clone
//@@ item crates/ripd/src/compaction_summary.rs const COMPACTION_SUMMARY_SCHEMA_V1
//@@ item crates/ripd/src/compaction_summary.rs const COMPACTION_SUMMARY_KIND_CUMULATIVE_V1
pub struct PathBuf { pub filler: u8 }
pub uninterp spec fn checkpoint_written(thread: Seq<char>, to_seq: u64, to_message_id: Seq<char>, artifact: Seq<char>) -> bool;      // timeless: a checkpoint frame with these fields was appended
pub uninterp spec fn summary_covers(artifact: Seq<char>, thread: Seq<char>, to_seq: u64) -> bool;      // timeless: a stored summary with this id covers this thread up to to_seq
pub struct CompactionSummaryV1 { pub thread: Seq<char>, pub to_seq_: u64, pub art: Seq<char>, pub filler: u8 }
impl CompactionSummaryV1 {
    #[verifier::external_body] pub fn schema(&self) -> &str { unimplemented!() }
    #[verifier::external_body] pub fn kind(&self) -> &str { unimplemented!() }
    #[verifier::external_body] pub fn coverage_thread_id(&self) -> (r: &str) ensures r@ == self.thread { unimplemented!() }
    #[verifier::external_body] pub fn coverage_to_seq(&self) -> (r: u64) ensures r == self.to_seq_ { unimplemented!() }
    #[verifier::external_body] pub fn new_cumulative_source_cut(n: NewCumulativeCompactionSummaryV1) -> (r: CompactionSummaryV1)
        ensures r.thread == n.thread_id@, r.to_seq_ == n.to_seq,
    { unimplemented!() }
}
#[verifier::external_body] pub fn read_compaction_summary_v1(root: &PathBuf, artifact_id: &str) -> (r: Result<CompactionSummaryV1, String>)
    ensures r matches Ok(s) ==> (summary_covers(artifact_id@, s.thread, s.to_seq_)),
{ unimplemented!() }
#[verifier::external_body] pub fn write_compaction_summary_v1(root: &PathBuf, summary: &CompactionSummaryV1) -> (r: Result<String, String>)
    ensures r matches Ok(id) ==> summary_covers(id@, summary.thread, summary.to_seq_),
{ unimplemented!() }
#[verifier::external_body] pub fn vfind_by_id<'a>(rows: &'a Vec<(u64, String)>, id: &String) -> (r: Option<&'a (u64, String)>)
    ensures r matches Some(row) ==> row.1@ == id@ && exists|i: int| 0 <= i < rows@.len() && #[trigger] mview(rows@)[i] == (row.0, row.1@),
{ unimplemented!() }
#[verifier::external_body] pub fn vfind_by_seq<'a>(rows: &'a Vec<(u64, String)>, seq: u64) -> (r: Option<&'a (u64, String)>)
    ensures r matches Some(row) ==> row.0 == seq && exists|i: int| 0 <= i < rows@.len() && #[trigger] mview(rows@)[i] == (row.0, row.1@),
{ unimplemented!() }
#[verifier::external_body] pub fn vget_row<'a>(rows: &'a Vec<(u64, String)>, idx: usize) -> (r: Option<&'a (u64, String)>)
    ensures r matches Some(row) ==> idx < rows@.len() && mview(rows@)[idx as int] == (row.0, row.1@), r is None ==> idx >= rows@.len(),
{ unimplemented!() }
// [manual_checkpoint.is_a_message_boundary] what may be recorded as a checkpoint of a thread: the seq and id of one of its message frames
pub open spec fn is_message_boundary(tid: Seq<char>, to_seq: u64, to_message_id: Seq<char>) -> bool {
    exists|i: int| 0 <= i < msg_rows(truth(tid)).len() && #[trigger] msg_rows(truth(tid))[i] == (to_seq, to_message_id)
}

pub proof fn lemma_floor_multiple(n: nat, s: nat)
    requires s > 0
    ensures (n / s) * s <= n, n - (n / s) * s < s, ((n / s) * s) % s == 0, (n / s) * s == 0 ==> n / s == 0
{
    assert((n / s) * s == 0 ==> n / s == 0) by (nonlinear_arith) requires s > 0;
    vstd::arithmetic::div_mod::lemma_fundamental_div_mod(n as int, s as int);
    vstd::arithmetic::div_mod::lemma_mod_multiples_basic((n / s) as int, s as int);
    assert((n / s) * s == s * (n / s)) by (nonlinear_arith);
}

pub proof fn lemma_mul_cmp(i: int, q: int, s: int)
    requires s > 0
    ensures i * s >= q * s ==> i >= q, i * s < q * s ==> i < q, (q - i) * s == q * s - i * s
{
    assert(i * s >= q * s ==> i >= q) by (nonlinear_arith) requires s > 0;
    assert(i * s < q * s ==> i < q) by (nonlinear_arith) requires s > 0;
    assert((q - i) * s == q * s - i * s) by (nonlinear_arith);
}
pub open spec fn planned_limit(req: CompactionCutPointsV1Request) -> int {
    let l = match req.limit { Some(v) => v as int, None => 1 };
    if l < 1 { 1 } else if l > 32 { 32 } else { l }
}
pub open spec fn planned_stride(req: CompactionCutPointsV1Request) -> int { match req.stride_messages { Some(v) => v as int, None => 10000 } }

impl ContinuityStore {
    #[verifier::external_body] pub fn replay_events(&self, id: &str) -> (r: io::Result<Vec<Event>>)
        ensures r matches Ok(v) ==> v@ == truth(id@),
    { unimplemented!() }


    #[verifier::external_body] pub fn append_compaction_checkpoint_created_manual(&self, id: &str, p: CompactionCheckpointCreatedPayload) -> (r: Result<String, String>)
        requires
            p.to_message_id is Some && is_message_boundary(id@, p.to_seq, p.to_message_id->Some_0@),      // [manual_checkpoint.frame_is_written_only_at_a_message_boundary_of_the_thread]
            summary_covers(p.summary_artifact_id@, id@, p.to_seq),      // [manual_checkpoint.frame_references_a_summary_whose_coverage_matches]
        ensures r is Ok ==> checkpoint_written(id@, p.to_seq, p.to_message_id->Some_0@, p.summary_artifact_id@),
    { unimplemented!() }

    //@@ fn crates/ripd/src/continuities.rs ContinuityStore::compaction_checkpoint_cumulative_v1 rules=R9 r7=0
    //@@ rewrite events.iter().filter_map(|event| match &event.kind { EventKind::ContinuityMessageAppended { .. } => Some((event.seq, event.id.clone())), _ => None, }).collect() ==>> message_rows(&events)
    //@@ rewrite message_events.iter().find(|(_, id)| id == &message_id) ==>> vfind_by_id(&message_events, &message_id)
    //@@ rewrite message_events.iter().find(|(seq, _)| *seq == to_seq) ==>> vfind_by_seq(&message_events, to_seq)
    //@@ rewrite message_events .get(idx) ==>> vget_row(&message_events, idx)
    //@@ rewrite crate::compaction_summary::NewCumulativeCompactionSummaryV1 ==>> NewCumulativeCompactionSummaryV1
    //@@ rewrite self.append_compaction_checkpoint_created( ==>> self.append_compaction_checkpoint_created_manual(
    //@@ rewrite let target = (message_count / stride) * stride; ==>> proof { lemma_floor_multiple(message_count as nat, stride as nat); } let target = (message_count / stride) * stride;
    //@@ sig
        ensures
            ret matches Ok(t) ==> {
                let m = msg_rows(truth(thread_id@));
                &&& checkpoint_written(thread_id@, t.2, t.3@, t.1@)      // [manual_checkpoint.what_is_reported_is_the_frame_that_was_written]
                &&& req.to_seq matches Some(s) ==> t.2 == s
                &&& req.to_message_id matches Some(mid) ==> t.3@ == mid@
                // [manual_checkpoint.without_a_target_the_cut_is_the_last_multiple_of_the_stride]
                &&& (req.to_seq is None && req.to_message_id is None) ==> {
                    let stride = match req.stride_messages { Some(v) => v as int, None => 10000 };
                    &&& stride > 0 && (m.len() as int) / stride >= 1
                    &&& (t.2, t.3@) == m[((m.len() as int) / stride) * stride - 1]
                }
            },
    //@@ loop 0
        invariant __i0 <= __s0.len(),
        decreases __s0.len() - __i0
    //@@ end

    //@@ fn crates/ripd/src/continuities.rs ContinuityStore::compaction_cut_points_v1 rules=R9 r7=0,1
    //@@ rewrite events.iter().filter_map(|event| match &event.kind { EventKind::ContinuityMessageAppended { .. } => { Some((event.seq, event.id.clone())) } _ => None, }).collect() ==>> message_rows(events)
    //@@ rewrite .ok().flatten().or_else(|| { message_events.as_ref().and_then(|events| { let idx = (ordinal - 1) as usize; let (seq, id) = events.get(idx)?.clone(); Some((seq, id)) }) }); ==>> .ok().flatten(); let resolved = or_nth_row(resolved, &message_events, ordinal);
    //@@ rewrite msgs.get(idx).cloned() ==>> vget_cloned(msgs, idx)
    //@@ rewrite let idx = checkpoint_index.get_or_insert_with(|| { events.iter().filter_map(|event| match &event.kind { EventKind::ContinuityCompactionCheckpointCreated { checkpoint_id, to_seq, .. } => Some((*to_seq, event.seq, checkpoint_id.clone())), _ => None, }).collect() }); ==>> if checkpoint_index.is_none() { checkpoint_index = Some(checkpoint_rows(events)); } let idx = checkpoint_index.as_ref().unwrap();
    //@@ rewrite req.limit.unwrap_or(1).clamp(1, 32) ==>> vclamp(req.limit.unwrap_or(1), 1, 32)
    //@@ rewrite let latest_multiple = (message_count / stride) * stride; ==>> proof { lemma_floor_multiple(message_count as nat, stride as nat); } let latest_multiple = (message_count / stride) * stride;
    //@@ rewrite cut_points.push(CompactionCutPointV1 { ==>> proof { let ghost m = msg_rows(truth(thread_id@)); assert(ordinal as int == (message_count as int / stride as int - i as int) * stride as int); assert(1 <= ordinal <= m.len()); assert(to_seq == m[ordinal as int - 1].0); assert(to_message_id@ == m[ordinal as int - 1].1); let ghost best = best_row(ck_rows(truth(thread_id@)), to_seq); assert((best is None) == (best_checkpoint_to_seq is None)); assert(best matches Some(row) ==> best_checkpoint_to_seq == Some(row.0) && best_checkpoint_id is Some && best_checkpoint_id->Some_0@ == row.2); } cut_points.push(CompactionCutPointV1 {
    //@@ sig
        ensures
            ret matches Ok(resp) ==> {
                let m = msg_rows(truth(thread_id@));
                let q = m.len() as int / planned_stride(req);
                &&& planned_stride(req) > 0
                &&& resp.stride_messages == planned_stride(req)
                &&& resp.message_count == m.len()      // [cutpoints.message_count_is_the_truth_count]
                // [cutpoints.are_exactly_the_k_stride_th_messages_newest_first_up_to_the_limit]
                &&& resp.cut_points@.len() == min(planned_limit(req), q)
                &&& forall|k: int| 0 <= k < resp.cut_points@.len() ==> cut_ok(#[trigger] resp.cut_points@[k], (q - k) * planned_stride(req), thread_id@)
            },
    //@@ loop 0
        invariant_except_break
            cut_points@.len() == __i0, __i0 as int <= message_count as int / stride as int,
        invariant
            __e0 == limit, 1 <= limit <= 32, limit == planned_limit(req), stride > 0, stride == planned_stride(req),
            message_count == msg_rows(truth(thread_id@)).len(),
            latest_multiple == (message_count / stride) * stride, latest_multiple <= message_count,
            __i0 <= __e0,
            replayed matches Some(ev) ==> ev@ == truth(thread_id@),
            message_events matches Some(me) ==> mview(me@) == msg_rows(truth(thread_id@)),
            checkpoint_index matches Some(ci) ==> cview(ci@) == ck_rows(truth(thread_id@)),
            forall|k: int| 0 <= k < cut_points@.len() ==> cut_ok(#[trigger] cut_points@[k], (message_count as int / stride as int - k) * stride as int, thread_id@),      // [cutpoints.each_is_the_k_stride_th_message_by_seq_and_id_checkpointed_iff_a_frame_for_that_seq_exists]
        ensures
            cut_points@.len() == min(limit as int, message_count as int / stride as int),      // [cutpoints.as_many_as_the_limit_and_the_message_count_allow]
        decreases __e0 - __i0          // [cutpoints.terminates]
    //@@ loopbody 0
        proof { lemma_mul_cmp(i as int, message_count as int / stride as int, stride as int); }
    //@@ loop 1
        invariant __i1 <= __s1.len(), __s1@ == idx@, cview(idx@) == ck_rows(truth(thread_id@)),
            ({ let b = best_row(cview(idx@).take(__i1 as int), to_seq);      // [cutpoints.latest_checkpoint_frame_for_the_seq_wins]
               &&& (b is None) == (best_checkpoint_to_seq is None)
               &&& b matches Some(row) ==> best_checkpoint_to_seq == Some(row.0) && best_checkpoint_seq == row.1
                       && best_checkpoint_id is Some && best_checkpoint_id->Some_0@ == row.2 }),
        decreases __s1.len() - __i1
    //@@ loopbody 1
        proof { assert(cview(idx@).take(__i1 as int).drop_last() =~= cview(idx@).take(__i1 as int - 1)); }
    //@@ afterloop 1
        proof { assert(cview(idx@).take(idx@.len() as int) =~= cview(idx@)); }
    //@@ end
}

} // verus!
fn main() {}
