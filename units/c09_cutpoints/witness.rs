// vx: label-insensitive
// Replayed by the compaction pipeline enumerator (shared with unit c09_pipeline): the real compaction_cut_points_v1 against the model
// answer for every enumerated history, stride, limit and cache mode, and "reading cut points appends nothing".
//@@ include units/c09_pipeline/witness.rs
