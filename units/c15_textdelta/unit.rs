//@@ unit c15_textdelta properties=C15 noverus bounded=textdelta.the_text_of_a_frame_is_exactly_the_delta_string_of_an_output_text_delta_event
// This unit carries no Verus obligations: output_text_delta is a chain of serde_json accessors (`as_object()?`, `get(..).and_then(|v|
// v.as_str())`) over a JSON value - closures over Value and the `?` on Option<&Map> are outside this Verus without a JSON model. The
// mapper (c15_mapper, proved) takes its contract as given: the text delta of a frame is a function of the event's payload. This clause
// says which function, as a BOUNDED stand-in run by units/c15_textdelta/witness.rs on the extracted real code.
fn main() {}
