// vx: label-insensitive
// Replay of the text-delta extraction: the REAL text of output_text_delta (R1 only) over a JSON value model with the real accessor names,
// for every payload of an enumerated family (type absent / other / response.output_text.delta / not a string; delta absent / a string
// from {"", " ", "a", " a ", "é\n", "\"q\""} / a number / an object; payload not an object; no payload): the derived text is Some(d)
// exactly when the payload is an object whose "type" is the string response.output_text.delta and whose "delta" is a string, and then
// d is that string unchanged (not trimmed, not dropped when empty) - so that the output text is the concatenation of the deltas.
use std::collections::BTreeMap;
pub mod serde_json { #[derive(Clone, Debug, PartialEq)] pub enum Value { Null, Bool(bool), Number(u64), String(String), Array(Vec<Value>), Object(std::collections::BTreeMap<String, Value>) } }
pub use serde_json::Value;
impl Value {
    pub fn get(&self, key: &str) -> Option<&Value> { match self { Value::Object(m) => m.get(key), _ => None } }
    pub fn as_str(&self) -> Option<&str> { match self { Value::String(s) => Some(s.as_str()), _ => None } }
    pub fn as_u64(&self) -> Option<u64> { match self { Value::Number(n) => Some(*n), _ => None } }
    pub fn as_object(&self) -> Option<&BTreeMap<String, Value>> { match self { Value::Object(m) => Some(m), _ => None } }
}
#[derive(Debug, Clone, Copy, PartialEq, Eq)]
pub enum ParsedEventKind { Done, InvalidJson, Event }
#[derive(Debug, Clone)]
pub struct ParsedEvent { pub kind: ParsedEventKind, pub event: Option<String>, pub raw: String, pub data: Option<Value>, pub errors: Vec<String>, pub response_errors: Vec<String> }
//@@ fn crates/rip-provider-openresponses/src/lib.rs output_text_delta
//@@ end
fn s(x: &str) -> Value { Value::String(x.to_string()) }
fn main() {
    let types: Vec<Option<Value>> = vec![None, Some(s("response.output_text.delta")), Some(s("response.output_text.done")), Some(s("response.output_text.delta ")), Some(Value::Number(1)), Some(Value::Null)];
    let texts = ["", " ", "a", " a ", "\u{e9}\n", "\"q\""];
    let mut deltas: Vec<Option<Value>> = vec![None, Some(Value::Number(7)), Some(Value::Object(BTreeMap::new())), Some(Value::Null)];
    for t in texts { deltas.push(Some(s(t))); }
    let mut payloads: Vec<(Option<Value>, Option<String>)> = vec![(None, None), (Some(Value::Null), None), (Some(s("response.output_text.delta")), None), (Some(Value::Array(vec![])), None)];
    for ty in &types { for d in &deltas { for extra in [false, true] {
        let mut m = BTreeMap::new();
        if let Some(t) = ty { m.insert("type".to_string(), t.clone()); }
        if let Some(dv) = d { m.insert("delta".to_string(), dv.clone()); }
        if extra { m.insert("item_id".to_string(), s("i")); m.insert("text".to_string(), s("not the delta")); }
        let want = match (ty, d) { (Some(Value::String(t)), Some(Value::String(x))) if t == "response.output_text.delta" => Some(x.clone()), _ => None };
        payloads.push((Some(Value::Object(m)), want));
    } } }
    for (data, want) in payloads { for kind in [ParsedEventKind::Event, ParsedEventKind::InvalidJson] {
        let pe = ParsedEvent { kind, event: Some("response.output_text.delta".to_string()), raw: String::new(), data: data.clone(), errors: vec![], response_errors: vec![] };
        let got = output_text_delta(&pe);
        if got != want {
            println!("WITNESS {{\"function\": \"output_text_delta\", \"payload\": {:?}, \"derived_text\": {:?}, \"delta_string_of_an_output_text_delta_event\": {:?}, \"problem\": \"the text derived from a provider event is not exactly its delta string\"}}", format!("{:?}", data), got, want);
            return;
        }
    } }
}
