// ---- assumed lexical model of std::path (Unix semantics; trusted, sanity-checked against real std
// by tools/path_model_sanity.rs in the thorough tier) ---------------------------------------------
verus! {
pub struct OsName { pub id: u64 }
pub enum Component { Prefix, RootDir, CurDir, ParentDir, Normal(OsName) }

// Path and PathBuf are one stub type: ownership distinctions carry no meaning for the model
pub struct Path { pub filler: u8 }
pub type PathBuf = Path;
pub struct StripPrefixError { pub filler: u8 }

pub uninterp spec fn comps(p: Path) -> Seq<Component>;
pub uninterp spec fn is_abs(p: Path) -> bool;
pub uninterp spec fn join_tail(base: Path, q: Path) -> Seq<Component>;
pub uninterp spec fn path_of_str(s: Seq<char>) -> Path;

pub open spec fn clean(s: Seq<Component>) -> bool {
    forall|i: int| 0 <= i < s.len() ==> (#[trigger] s[i] is Normal || s[i] is CurDir)
}
pub open spec fn no_parent(s: Seq<Component>) -> bool {
    forall|i: int| 0 <= i < s.len() ==> !(#[trigger] s[i] is ParentDir)
}
// p lies lexically inside root: root's components followed only by normal names
pub open spec fn within(p: Path, root: Path) -> bool {
    exists|t: Seq<Component>| #![auto] comps(p) == comps(root) + t && clean(t)
}

pub trait AsPath: Sized {
    spec fn path_spec(self) -> Path;
    #[verifier::external_body]
    fn as_path(self) -> (r: Path) ensures r == self.path_spec() { unimplemented!() }
}
impl AsPath for Path { open spec fn path_spec(self) -> Path { self } }
impl<'a> AsPath for &'a Path { open spec fn path_spec(self) -> Path { *self } }
impl AsPath for String { open spec fn path_spec(self) -> Path { path_of_str(self@) } }
impl<'a> AsPath for &'a String { open spec fn path_spec(self) -> Path { path_of_str(self@) } }
impl<'a> AsPath for &'a str { open spec fn path_spec(self) -> Path { path_of_str(self@) } }

pub struct Components { pub filler: u8 }
impl Components {
    pub uninterp spec fn view(&self) -> Seq<Component>;
    #[verifier::external_body]
    pub fn next(&mut self) -> (r: Option<Component>)
        ensures r is Some == (old(self)@.len() > 0), r matches Some(c) ==> c == old(self)@[0] && final(self)@ == old(self)@.drop_first(), r is None ==> final(self)@ == old(self)@,
    { unimplemented!() }
    #[verifier::external_body]
    pub fn any<F: FnMut(Component) -> bool>(self, f: F) -> (r: bool)
        requires forall|c: Component| #[trigger] f.requires((c,)),
        ensures
            !r ==> forall|i: int| 0 <= i < self@.len() ==> f.ensures((#[trigger] self@[i],), false),
            r ==> exists|i: int| 0 <= i < self@.len() && f.ensures((#[trigger] self@[i],), true),
    { unimplemented!() }
}

impl Path {
    #[verifier::external_body]
    pub fn new(s: &str) -> (r: &Path) ensures *r == path_of_str(s@) { unimplemented!() }
    #[verifier::external_body]
    pub fn from(s: &str) -> (r: Path) ensures r == path_of_str(s@) { unimplemented!() }
    // Unix: absolute <=> first component is RootDir; a relative path has no RootDir / Prefix at all
    #[verifier::external_body]
    pub fn is_absolute(&self) -> (r: bool)
        ensures
            r == is_abs(*self),
            !r ==> forall|i: int| 0 <= i < comps(*self).len() ==> !(#[trigger] comps(*self)[i] is RootDir || comps(*self)[i] is Prefix),
    { unimplemented!() }
    #[verifier::external_body]
    pub fn components(&self) -> (r: Components) ensures r@ == comps(*self) { unimplemented!() }
    #[verifier::external_body]
    pub fn to_path_buf(&self) -> (r: Path) ensures r == *self { unimplemented!() }
    // join: an absolute argument replaces self; otherwise self's components are followed by the
    // argument's components (std drops interior `.`: every component of the tail is a component of
    // the argument, and the tail is the argument itself when it has no `.`)
    #[verifier::external_body]
    pub fn join<P: AsPath>(&self, p: P) -> (r: Path)
        ensures
            is_abs(p.path_spec()) ==> r == p.path_spec(),
            !is_abs(p.path_spec()) ==> comps(r) == comps(*self) + join_tail(*self, p.path_spec()),
            !is_abs(p.path_spec()) ==> forall|i: int| 0 <= i < join_tail(*self, p.path_spec()).len() ==> comps(p.path_spec()).contains(#[trigger] join_tail(*self, p.path_spec())[i]),
            // the tail is the argument itself when it has no `.` component
            (!is_abs(p.path_spec()) && forall|i: int| 0 <= i < comps(p.path_spec()).len() ==> !(#[trigger] comps(p.path_spec())[i] is CurDir)) ==> join_tail(*self, p.path_spec()) == comps(p.path_spec()),
            // joining a relative path onto an absolute one gives an absolute path
            (is_abs(*self) && !is_abs(p.path_spec())) ==> is_abs(r),
            // derived clauses (lemma_join_within / lemma_join_within_base prove them from the clauses above; stated
            // here so that extracted bodies need no in-body hint)
            (!is_abs(p.path_spec()) && clean(comps(p.path_spec()))) ==> within(r, *self),
            forall|base: Path| (#[trigger] within(*self, base) && !is_abs(p.path_spec()) && clean(comps(p.path_spec()))) ==> within(r, base),
    { unimplemented!() }
    #[verifier::external_body]
    pub fn strip_prefix<P: AsPath>(&self, base: P) -> (r: Result<&Path, StripPrefixError>)
        ensures r matches Ok(q) ==> comps(*self) == comps(base.path_spec()) + comps(*q)
            && (comps(base.path_spec()).len() > 0 ==> (!is_abs(*q)
                && forall|i: int| 0 <= i < comps(*q).len() ==> !(#[trigger] comps(*q)[i] is RootDir || comps(*q)[i] is Prefix))),
    { unimplemented!() }
}

// checked consequence of the join clause: joining a clean relative path stays within the base
pub proof fn lemma_join_within(base: Path, q: Path, r: Path)
    requires
        comps(r) == comps(base) + join_tail(base, q),
        forall|i: int| 0 <= i < join_tail(base, q).len() ==> comps(q).contains(#[trigger] join_tail(base, q)[i]),
        clean(comps(q)),
    ensures within(r, base),
{
    let t = join_tail(base, q);
    assert forall|i: int| 0 <= i < t.len() implies (#[trigger] t[i] is Normal || t[i] is CurDir) by {
        let c = t[i];
        assert(comps(q).contains(c));
        let j = choose|j: int| 0 <= j < comps(q).len() && comps(q)[j] == c;
        assert(comps(q)[j] is Normal || comps(q)[j] is CurDir);
    }
    assert(clean(t));
}

// within is transitive (tails concatenate)
pub proof fn lemma_within_trans(a: Path, b: Path, c: Path)
    requires within(a, b), within(b, c),
    ensures within(a, c),
{
    let t1 = choose|t: Seq<Component>| #![auto] comps(a) == comps(b) + t && clean(t);
    let t2 = choose|t: Seq<Component>| #![auto] comps(b) == comps(c) + t && clean(t);
    assert(comps(a) =~= comps(c) + (t2 + t1));
    assert(clean(t2 + t1)) by {
        assert forall|i: int| 0 <= i < (t2 + t1).len() implies (#[trigger] (t2 + t1)[i] is Normal || (t2 + t1)[i] is CurDir) by {
            if i < t2.len() { assert((t2 + t1)[i] == t2[i]); } else { assert((t2 + t1)[i] == t1[i - t2.len()]); }
        }
    }
}
// checked justification of join's second derived clause
pub proof fn lemma_join_within_base(selfp: Path, q: Path, r: Path, base: Path)
    requires
        comps(r) == comps(selfp) + join_tail(selfp, q),
        forall|i: int| 0 <= i < join_tail(selfp, q).len() ==> comps(q).contains(#[trigger] join_tail(selfp, q)[i]),
        clean(comps(q)), within(selfp, base),
    ensures within(r, base),
{
    lemma_join_within(selfp, q, r);
    lemma_within_trans(r, selfp, base);
}
// dropping the last component of a path strictly longer than its base stays within the base
pub proof fn lemma_within_parent(p: Path, q: Path, base: Path)
    requires within(p, base), comps(q) == comps(p).drop_last(), comps(p).len() > comps(base).len(),
    ensures within(q, base),
{
    let t = choose|t: Seq<Component>| #![auto] comps(p) == comps(base) + t && clean(t);
    assert(t.len() > 0);
    assert(comps(q) =~= comps(base) + t.drop_last());
    assert(clean(t.drop_last())) by {
        assert forall|i: int| 0 <= i < t.drop_last().len() implies (#[trigger] t.drop_last()[i] is Normal || t.drop_last()[i] is CurDir) by { assert(t.drop_last()[i] == t[i]); }
    }
}
} // verus!
